"""C12 - local Hilbert spaces: operator algebra, basis bookkeeping and fermionic signs.

proof gate (coq/Props/C12.v over the regenerated table coq/Gen/G_sites.v + the unbounded sign theorems of Model/JW.v)
+ streams:  table   exported table re-imported and compared with site.get_op(..).to_ndarray() (guards the exporter) and with the
                    documentation operators of harness/c12_oracle.py through Site.perm / state labels (oracle)
            terms   order_combine_term / (multi_)coupling_term_handle_JW  vs  Model/JW.v (vm_compute)  + dense product (oracle)
            mpo     TermList -> MPOGraph -> MPO -> dense  vs  product of explicit Jordan-Wigner operators; anticommutators
            grouped GroupedSite of 2-3 heterogeneous sites x charges policy  vs  kron with the JW of the left sites
                    (also sites built with sort_charge=False and the SAME site object used several times; the sites handed in are
                    re-verified through their own state labels afterwards)
            book    random sequences of site-transforming calls (change_charge, sort_charge, set_common_charges, GroupedSite / group_sites
                    with every policy, add_op / rename_op / remove_op, deep copies): after EVERY call ALL sites of the pool are re-verified
                    against the documentation operators through their state labels (label -> basis index -> matrix elements)
            corr    correlation_function(autoJW) on random states  vs  dense <psi| A_i B_j |psi>  (options sites1/sites2 as int / unsorted /
                    boundary lists, hermitian=True incl. the branch that drops the flag, operators as lists and as arrays, opstr='JW',
                    the documented refusals)
            ctor    constructor options outside the table: falsy conserve values, documented defaults, invalid values (ValueError)
            species spin_half_species for all cons_N x cons_Sz: the two sites, their charges N_up +- N_down, and grouped = SpinHalfFermionSite
            coverage table (ctx.cov['anchored_code']): every function/method of site.py and the named JW functions of terms.py / mps.py
                    enumerated from the source (harness/c12_cov.py) x the lines executed in the runner processes (sys.monitoring);
                    a name that is neither executed nor classified is a correspondence failure
            mpsterm every MPS-level consumer of MPS._term_to_ops_list (expectation_value_term, term_correlation_function_right/left,
                    term_list_correlation_function_right, apply_local_term, expectation_value_terms_sum) with odd and even fermionic terms
                    vs dense Jordan-Wigner operators; the triple (ops, i_min, has_extra_JW) of _term_to_ops_list for JW_from_right in
                    {None, False, True}  vs  Model/JW.v term_to_ops_list (vm_compute, T12_term_to_ops_list_flag) and vs dense operators
"""
import itertools
import os
import re

import numpy as np

import common
import c12_oracle as orc
import c12_cov
from common import coq_lit, CoqRaw, Some

DEN = 4096
TOL = 1e-10

F17_KEY = 'C12:GroupedSite:charges=drop:heterogeneous-dims:IndexError'
F18_KEY = 'C12:GroupedSite:charges=same:after-set_common_charges:charge_to_JW_parity-list:TypeError'
F121_KEY = 'C12:set_common_charges:sort_charge=False:UnboundLocalError-leg'
F122_KEY = 'C12:set_common_charges:charges-not-reduced-modulo-new_mod:ValueError-charges-invalid'
F123_KEY = 'C12:remove_op:hc_ops-asymmetric-after-add_op-hc=None:dangling-hc_ops-entry'


# ---------------------------------------------------------------------------------------------------------------------
# parsing of the generated table
# ---------------------------------------------------------------------------------------------------------------------
def parse_g_sites(path):
    txt = open(path).read()
    if 'Definition all_configs' not in txt:
        return None
    body = txt.split('Definition all_configs', 1)[1]
    chunks = body.split('\n  mkCfg ')[1:]
    cfgs = []
    for ch in chunks:
        lines = ch.split('\n')
        m = re.match(r'"([^"]*)" "([^"]*)" "([^"]*)" (-?\d+) (-?\d+) (-?\d+) (-?\d+)$', lines[0].strip())
        cls, key, cons, dim, twoS, q, fill = m.groups()

        def ints(s):
            return [int(x) for x in re.findall(r'-?\d+', s)]
        c = {'class': cls, 'key': key, 'cons': cons, 'dim': int(dim), 'twoS': int(twoS), 'q': int(q), 'fill': int(fill),
             'perm': ints(lines[1]), 'labels': {a: int(b) for a, b in re.findall(r'\("([^"]*)", (-?\d+)\)', lines[2])}}
        mm = re.match(r'\s*(\[[^\]]*\]) (\[.*\])\s*$', lines[3])
        c['mod'] = ints(mm.group(1))
        c['charges'] = [ints(r) for r in re.findall(r'\[([^\[\]]*)\]', mm.group(2)[1:-1])] if c['mod'] else [[] for _ in range(int(dim))]
        c['jw'] = ints(lines[4])
        c['need_JW'] = re.findall(r'"([^"]*)"', lines[5])
        c['hc'] = dict(re.findall(r'\("([^"]*)", "([^"]*)"\)', lines[6]))
        ops = {}
        for ln in lines[8:]:
            mo = re.match(r'\s*mkOp "([^"]*)" (\d) (\[[^\]]*\]) \[(.*)\];?\s*$', ln)
            if mo:
                ents = [tuple(int(x) for x in e) for e in re.findall(r'\((-?\d+), (-?\d+), (-?\d+), (-?\d+)\)', mo.group(4))]
                ops[mo.group(1)] = {'kind': int(mo.group(2)), 'q': ints(mo.group(3)), 'ents': ents}
        c['ops'] = ops
        cfgs.append(c)
    return cfgs


def table_matrix(c, op):
    d = c['dim']
    m = np.zeros((d, d), dtype=complex)
    k = op['kind']
    for (r, cc, a, b) in op['ents']:
        if k == 0:
            m[r, cc] = (a + 1j * b) / DEN
        elif k == 1:
            m[r, cc] = (1j ** a) * np.sqrt(b / DEN)
        else:
            w = np.exp(2j * np.pi / c['q'])
            m[r, cc] = w ** a + (w ** b if b >= 0 else 0)
    return m


def kwargs_of(c):
    """constructor arguments of a table configuration, from its key / cons strings"""
    cls, key, cons = c['class'], c['key'], c['cons']
    sort = not cons.endswith('/nosort')
    cons0 = cons.replace('/nosort', '')
    kw = {}
    if cls == 'SpinHalfSite':
        kw = {'conserve': cons0}
    elif cls == 'SpinSite':
        kw = {'S': int(re.search(r'\((\d+)/2\)', key).group(1)) / 2., 'conserve': cons0}
    elif cls == 'FermionSite':
        kw = {'conserve': cons0, 'filling': float(re.search(r'\(([^)]*)\)', key).group(1))}
    elif cls in ('SpinHalfFermionSite', 'SpinHalfHoleSite'):
        cn, cs = ('None', 'None') if cons0 == 'None' else cons0.split(',')
        kw = {'cons_N': cn, 'cons_Sz': cs, 'filling': float(re.search(r'\(([^)]*)\)', key).group(1))}
    elif cls == 'BosonSite':
        a, b = re.search(r'\(([^)]*)\)', key).group(1).split(',')
        kw = {'Nmax': int(a), 'conserve': cons0, 'filling': float(b)}
    elif cls == 'ClockSite':
        kw = {'q': int(re.search(r'\((\d+)\)', key).group(1)), 'conserve': cons0}
    if not sort:
        kw['sort_charge'] = False
    return kw


def jmat(m):
    return np.array([[complex(a, b) for a, b in row] for row in m], dtype=complex)


def oracle_site(cls, kw, r):
    """impl dump `r` of one site vs the documentation (independent of the exported table and of the Coq model)"""
    probs = []
    doc = orc.doc_site(cls, kw)
    d = r['dim']
    if d != doc.dim:
        return ['dimension %d, documentation %d' % (d, doc.dim)]
    perm = r['perm']
    if sorted(perm) != list(range(d)):
        return ['perm %s is not a permutation' % perm]
    # perm[state_labels_conserved[s]] == state_labels_nonconserved[s]
    for k, lab in enumerate(doc.labels):
        if lab not in r['labels']:
            probs.append('state label %r missing' % lab)
        elif perm[r['labels'][lab]] != k:
            probs.append('perm[state_labels[%r]] = %d, documented basis index %d' % (lab, perm[r['labels'][lab]], k))
    # documented aliases name the same state; no other labels
    ali = orc.doc_aliases(cls, kw)
    for a_, b_ in ali.items():
        if r['labels'].get(a_) != r['labels'].get(b_):
            probs.append('state label %r -> %r, but it is documented as an alias of %r -> %r' % (a_, r['labels'].get(a_), b_, r['labels'].get(b_)))
    if set(r['labels']) != set(doc.labels) | set(ali):
        probs.append('state labels %s are not the documented ones' % sorted(set(r['labels']) ^ (set(doc.labels) | set(ali))))
    excl = orc.excluded_ops(cls, kw)
    want_names = set(doc.ops) - excl
    got_names = set(r['ops'])
    if want_names != got_names:
        probs.append('operator names %s, documented %s' % (sorted(got_names ^ want_names), 'differ'))
    ix = np.ix_(perm, perm)
    mats = {}
    for n in sorted(got_names & set(doc.ops)):
        m = jmat(r['ops'][n]['m'])
        mats[n] = m
        if np.max(np.abs(m - doc.ops[n][ix])) > 1e-13:
            probs.append('operator %s is not the documented operator in the basis permuted by perm (max diff %.2e)'
                         % (n, np.max(np.abs(m - doc.ops[n][ix]))))
    # hc pairs
    for a, b in r['hc'].items():
        if a in mats and b in mats and np.max(np.abs(mats[a].conj().T - mats[b])) > 1e-13:
            probs.append('hc_ops pairs %s with %s but %s^dagger != %s' % (a, b, a, b))
        if r['hc'].get(b) != a:
            probs.append('hc_ops not symmetric for %s' % a)
    for n in got_names:
        if n not in r['hc']:
            probs.append('operator %s has no hc_ops entry although its conjugate exists' % n)
    if set(r['need_JW']) != {x for x in doc.need_JW if x in got_names}:
        probs.append('need_JW_string %s, documented %s' % (sorted(r['need_JW']), sorted(doc.need_JW)))
    # JW_exponent and flags
    if 'JW' in mats:
        jw = np.diag(mats['JW'])
        if np.max(np.abs(jw - np.exp(1j * np.pi * np.array(r['jw_exp'])))) > 1e-13 or np.max(np.abs(mats['JW'] - np.diag(jw))) > 0:
            probs.append('JW != diag(exp(i pi JW_exponent))')
        for n, m in mats.items():
            off = m - np.diag(np.diag(m))
            if np.max(np.abs(off)) < 1e-14:
                continue
            need = n in r['need_JW']
            anti = np.max(np.abs(mats['JW'] @ m + m @ mats['JW'])) < 1e-13
            comm = np.max(np.abs(mats['JW'] @ m - m @ mats['JW'])) < 1e-13
            if (need and not anti) or (not need and not comm):
                probs.append('operator %s: need_JW=%s but it does not %scommute with JW' % (n, need, 'anti' if need else ''))
    # charges
    q = np.array(r['charges']).reshape(d, -1)
    for n, m in mats.items():
        rr, cc = np.nonzero(np.abs(m) > 1e-14)
        qt = np.array(r['ops'][n]['q'])
        for a, b in zip(rr, cc):
            dq = q[a] - q[b] - qt
            if any((x != 0) if mm == 1 else (x % mm != 0) for x, mm in zip(dq, r['mod'])):
                probs.append('charge rule violated by %s at (%d, %d)' % (n, a, b))
                break
    # defining algebra, numerically on the implementation's matrices
    def com(a, b):
        return a @ b - b @ a

    def acom(a, b):
        return a @ b + b @ a
    I = np.eye(d)
    g = mats.get
    chk = []
    if 'Sp' in mats and 'Sz' in mats:
        chk += [('[Sz,Sp]=Sp', com(g('Sz'), g('Sp')) - g('Sp')), ('[Sz,Sm]=-Sm', com(g('Sz'), g('Sm')) + g('Sm')),
                ('[Sp,Sm]=2Sz', com(g('Sp'), g('Sm')) - 2 * g('Sz'))]
        if 'Sx' in mats:
            chk += [('[Sx,Sy]=iSz', com(g('Sx'), g('Sy')) - 1j * g('Sz')), ('[Sy,Sz]=iSx', com(g('Sy'), g('Sz')) - 1j * g('Sx')),
                    ('[Sz,Sx]=iSy', com(g('Sz'), g('Sx')) - 1j * g('Sy')), ('Sx+iSy=Sp', g('Sx') + 1j * g('Sy') - g('Sp'))]
            if cls in ('SpinSite', 'SpinHalfSite'):
                S = float(kw.get('S', 0.5))
                chk.append(('S.S=S(S+1)', g('Sx') @ g('Sx') + g('Sy') @ g('Sy') + g('Sz') @ g('Sz') - S * (S + 1) * I))
    if cls == 'FermionSite':
        chk += [('{C,Cd}=1', acom(g('C'), g('Cd')) - I), ('C^2=0', g('C') @ g('C')), ('N=Cd C', g('Cd') @ g('C') - g('N'))]
    if cls == 'SpinHalfFermionSite':
        for a in ['Cu', 'Cd']:
            chk.append(('{%s,%s^dag}=1' % (a, a), acom(g(a), g(a).conj().T) - I))
        chk += [('{Cu,Cd}=0', acom(g('Cu'), g('Cd'))), ('{Cu,Cdd}=0', acom(g('Cu'), g('Cdd'))), ('Cu^2', g('Cu') @ g('Cu'))]
    if cls == 'BosonSite':
        c_ = com(g('B'), g('Bd'))
        nd = np.real(np.diag(g('N')))
        below = nd < d - 1 - 0.5
        chk += [('[B,Bd]=1 below cutoff', (c_ - I)[np.ix_(below, below)]), ('N=Bd B', g('Bd') @ g('B') - g('N'))]
    if cls == 'ClockSite':
        w = np.exp(2j * np.pi / kw['q'])
        chk += [('XZ=wZX', g('X') @ g('Z') - w * g('Z') @ g('X')), ('X^q=1', np.linalg.matrix_power(g('X'), kw['q']) - I),
                ('Z^q=1', np.linalg.matrix_power(g('Z'), kw['q']) - I)]
    for name, m in chk:
        if m is not None and np.max(np.abs(m)) > 1e-12:
            probs.append('algebra %s violated (%.2e)' % (name, np.max(np.abs(m))))
    return probs


# ---------------------------------------------------------------------------------------------------------------------
# generators
# ---------------------------------------------------------------------------------------------------------------------
def spec(cls, **kw):
    return [cls, kw]


FERM_OPS = {'FermionSite': ['C', 'Cd'], 'SpinHalfFermionSite': ['Cu', 'Cdu', 'Cd', 'Cdd'], 'SpinHalfHoleSite': ['Cu', 'Cdu', 'Cd', 'Cdd']}
# (the sign operators JW, JWu, JWd carry the need_JW flag only as a bookkeeping device for names like 'Cd JW'; they are not
#  fermionic operators and are not used as explicit factors of terms here)
OTHER_OPS = {'FermionSite': ['N', 'dN', 'Id'], 'SpinHalfFermionSite': ['Nu', 'Ntot', 'Sz', 'Sp'],
             'SpinHalfHoleSite': ['Nd', 'Sz', 'Sm'], 'SpinHalfSite': ['Sz', 'Sp', 'Sm', 'Id'], 'SpinSite': ['Sz', 'Sp', 'Sm'],
             'BosonSite': ['B', 'Bd', 'N'], 'ClockSite': ['X', 'Z', 'Zhc']}


def none_spec(cls):
    if cls in ('SpinHalfFermionSite', 'SpinHalfHoleSite'):
        return spec(cls, cons_N='None', cons_Sz='None')
    if cls == 'SpinSite':
        return spec(cls, S=1.0, conserve='None')
    if cls == 'BosonSite':
        return spec(cls, Nmax=2, conserve='None')
    if cls == 'ClockSite':
        return spec(cls, q=3, conserve='None')
    return spec(cls, conserve='None')


def gen_term_case(rng, thorough):
    L = rng.randint(1, 6)
    classes = [rng.choice(['FermionSite', 'FermionSite', 'SpinHalfFermionSite', 'SpinHalfHoleSite', 'SpinHalfSite', 'BosonSite',
                           'SpinSite']) for _ in range(L)]
    if not any(c in FERM_OPS for c in classes):
        classes[rng.randrange(L)] = 'FermionSite'
    # keep the dense space small
    while np.prod([orc.doc_site(*none_spec(c)).dim for c in classes]) > 300:
        classes[rng.randrange(L)] = 'FermionSite'
    sites = [none_spec(c) for c in classes]
    n = rng.choice([1, 2, 2, 3, 3, 4, 4, 5, 6] + ([7, 8] if thorough else []))
    outside = rng.random() < 0.1
    term = []
    for _ in range(n):
        i = rng.randrange(L) if not outside else rng.randint(-L, 2 * L - 1)
        c = classes[i % L]
        if c in FERM_OPS and rng.random() < 0.7:
            op = rng.choice(FERM_OPS[c])
        else:
            op = rng.choice(OTHER_OPS[c])
        term.append([op, i])
    if rng.random() < 0.5:       # make the fermion parity even more often than chance
        flags = [orc.doc_site(*sites[i % L]).needs_JW(op) for op, i in term]
        if sum(flags) % 2 == 1:
            fsites = [k for k in range(L) if classes[k] in FERM_OPS]
            k = rng.choice(fsites)
            term.insert(rng.randrange(len(term) + 1), [rng.choice(FERM_OPS[classes[k]]), k if not outside else k + L * rng.choice([-1, 0, 1])])
    return {'sites': sites, 'term': term, 'dense': not outside}


def term_coq_case(case, r):
    """Coq literal: (items, combined, sign, multi) or None when the implementation's output can not be canonicalised"""
    docs = [orc.doc_site(*s) for s in case['sites']]
    L = len(docs)
    ids = {}

    def oid(name):
        return ids.setdefault(name, len(ids) + 1)
    items = [(oid(op), i, docs[i % L].needs_JW(op)) for op, i in case['term']]
    comb = [([oid(x) for x in op.split()], i) for op, i in r['combined']]
    sgn = r['sign'] == -1
    if r['sign'] not in (1, -1):
        return None
    multi = None
    if 'multi' in r:
        m = r['multi']
        if 'error' in m:
            multi = Some(None)
        else:
            if len(m['ops']) != len(r['combined']) or len(m['opstr']) != len(m['ops']) - 1:
                return None
            fl = []
            shift = m['ijkl'][0] - r['combined'][0][1] if m['ijkl'] else 0
            for (cop, ci), mop, mi in zip(r['combined'], m['ops'], m['ijkl']):
                if mop == cop:
                    a = False
                elif mop == cop + ' JW':
                    a = True
                else:
                    return None
                if mi - shift != ci or not (0 <= m['ijkl'][0] < L) or shift % L != 0:
                    return None
                fl.append((ci, a))
            if any(s not in ('JW', 'Id') for s in m['opstr']):
                return None
            multi = Some(Some((fl, [s == 'JW' for s in m['opstr']])))
    return coq_lit((items, comb, sgn, multi))


def mpo_cases(rng, ctx):
    cases = []
    for cons in ['N', 'parity', 'None']:
        for L in ([2, 3, 4, 5, 6] if cons == 'parity' or ctx.thorough() else [2, 4, 6] if cons == 'N' else [3, 5]):
            sites = [spec('FermionSite', conserve=cons, filling=0.5)] * L
            terms = [[[a, i], [b, j]] for i in range(L) for j in range(L) for a in ['C', 'Cd'] for b in ['C', 'Cd']]
            cases.append({'sites': sites, 'terms': terms, 'anticomm': True, 'tag': 'F^%d/%s' % (L, cons)})
    for (cn, cs) in [('N', 'Sz'), ('parity', 'None'), ('None', 'None'), ('N', 'parity')]:
        for L in [2, 3]:
            sites = [spec('SpinHalfFermionSite', cons_N=cn, cons_Sz=cs)] * L
            ops = FERM_OPS['SpinHalfFermionSite']
            terms = [[[a, i], [b, j]] for i in range(L) for j in range(L) for a in ops for b in ops]
            cases.append({'sites': sites, 'terms': terms, 'anticomm': True, 'tag': 'SF^%d/%s,%s' % (L, cn, cs)})
    mixed = [['FermionSite', 'SpinHalfSite', 'FermionSite', 'BosonSite', 'FermionSite'],
             ['SpinHalfFermionSite', 'FermionSite', 'SpinHalfSite', 'SpinHalfHoleSite'],
             ['SpinHalfHoleSite', 'FermionSite', 'SpinHalfHoleSite'],
             ['SpinSite', 'FermionSite', 'ClockSite', 'FermionSite', 'SpinHalfFermionSite']]
    for classes in mixed:
        sites = [none_spec(c) for c in classes]
        L = len(sites)
        fs = [(k, op) for k in range(L) if classes[k] in FERM_OPS for op in FERM_OPS[classes[k]]]
        terms = [[[a, i], [b, j]] for (i, a) in fs for (j, b) in fs]
        cases.append({'sites': sites, 'terms': terms, 'anticomm': True, 'tag': 'mixed ' + ','.join(classes)})
        # quadruples (any order, repeated sites) and terms with bosonic factors in between
        quads = []
        for _ in range(ctx.pick(60, 600)):
            t = [list(rng.choice(fs))[::-1] for _ in range(4)]
            if rng.random() < 0.5:
                k = rng.randrange(L)
                t.insert(rng.randrange(5), [rng.choice(OTHER_OPS[classes[k]]), k])
            quads.append(t)
        cases.append({'sites': sites, 'terms': quads, 'anticomm': False, 'tag': 'quadruples ' + ','.join(classes)})
    for L in [4, 6]:
        sites = [spec('FermionSite', conserve='parity')] * L
        quads = [[[rng.choice(['C', 'Cd']), rng.randrange(L)] for _ in range(4)] for _ in range(ctx.pick(80, 1500))]
        cases.append({'sites': sites, 'terms': quads, 'anticomm': False, 'tag': 'quadruples F^%d' % L})
    return cases


GROUP_POOL = [spec('FermionSite', conserve='N'), spec('FermionSite', conserve='parity'), spec('FermionSite', conserve='None'),
              spec('SpinHalfFermionSite', cons_N='N', cons_Sz='Sz'), spec('SpinHalfFermionSite', cons_N='parity', cons_Sz='None'),
              spec('SpinHalfHoleSite', cons_N='N', cons_Sz='parity'), spec('SpinHalfSite', conserve='Sz'),
              spec('SpinSite', S=1.0, conserve='parity'), spec('BosonSite', Nmax=2, conserve='N'), spec('ClockSite', q=3, conserve='Z')]


def grouped_cases(rng, ctx):
    cases = []
    pairs = list(itertools.product(range(len(GROUP_POOL)), repeat=2))
    triples = [tuple(rng.randrange(len(GROUP_POOL)) for _ in range(3)) for _ in range(ctx.pick(25, 200))]
    for combo in pairs + triples:
        sites = [GROUP_POOL[k] for k in combo]
        if np.prod([orc.doc_site(*s).dim for s in sites]) > 64:
            continue
        for pol in ['same', 'drop', 'independent']:
            c = {'sites': sites, 'charges': pol}
            if pol == 'same':
                c['common'] = 'same'      # GroupedSite(charges='same') requires a common ChargeInfo: set_common_charges first
            if rng.random() < 0.3:
                c['labels'] = ['a', 'b', 'c'][:len(sites)]
            cases.append(c)
    return cases


NOSORT_POOL = [spec('SpinHalfSite', conserve='Sz', sort_charge=False), spec('SpinHalfSite', conserve='parity', sort_charge=False),
               spec('SpinSite', S=1.5, conserve='parity', sort_charge=False), spec('SpinSite', S=1.0, conserve='Sz', sort_charge=False),
               spec('ClockSite', q=3, conserve='Z', sort_charge=False)]
BOOK_POOL = GROUP_POOL + NOSORT_POOL + [spec('BosonSite', Nmax=3, conserve='parity'), spec('SpinSite', S=1.5, conserve='Sz'),
                                        spec('SpinHalfSite', conserve='None'), spec('SpinHalfHoleSite', cons_N='parity', cons_Sz='Sz'),
                                        spec('SpinSite', S=1.0, conserve='dipole'), spec('BosonSite', Nmax=2, conserve='dipole')]


def grouped_cases_bookkeeping(rng, ctx):
    """groupings with sites whose leg is NOT charge-sorted (the non-default sort_charge=False) and groupings that use the SAME site
    object several times ([site] * n): the grouped site AND the sites handed in are verified"""
    cases = []
    combos = [(a, b) for a in NOSORT_POOL for b in NOSORT_POOL]
    for a in NOSORT_POOL:
        for b in rng.sample(GROUP_POOL, ctx.pick(3, len(GROUP_POOL))):
            combos.append((a, b) if rng.random() < 0.5 else (b, a))
    combos += [tuple(rng.choice(NOSORT_POOL + GROUP_POOL) for _ in range(3)) for _ in range(ctx.pick(10, 100))]
    for sites in combos:
        if np.prod([orc.doc_site(*s).dim for s in sites]) > 64:
            continue
        for pol in ['same', 'drop', 'independent']:
            c = {'sites': list(sites), 'charges': pol, 'share': rng.random() < 0.5}
            if pol == 'same':
                c['common'] = 'same'
            cases.append(c)
    for s0 in NOSORT_POOL + GROUP_POOL:
        for n in [2, 3]:
            if orc.doc_site(*s0).dim ** n > 64:
                continue
            for pol in ['same', 'drop', 'independent']:
                cases.append({'sites': [s0] * n, 'charges': pol, 'share': True})
    return cases


def book_cases(rng, ctx, n):
    # a fixed first case with every kind of step (it is part of the chunk whose executed lines are recorded for the coverage table)
    cases = [{'sites': [spec('FermionSite', conserve='N'), spec('SpinHalfSite', conserve='Sz', sort_charge=False), spec('BosonSite', Nmax=2, conserve='N')],
              'seed': ctx.seed * 100000 + 99999,
              'steps': [['group_sites', [0, 1, 2], 'independent', None], ['set_common', [0, 2], 'sum', True, {'names': True, 'stridx': True, 'float': True}],
                        ['sort_charge', 1, False], ['change_charge', 1, 'perm'], ['deepcopy', 0], ['add_op', 0, 3, 5, True, {'hc': 'auto', 'arr': 'npc'}],
                        ['rename_op', 2, 1], ['remove_op', 1, 2], ['bad_call', 0, 9], ['group', [0, 2], 'same', ['a', 'b']],
                        ['sort_charge', ['g', 0], True], ['bad_call', ['g', 1], 3]]}]
    # every refused / no-op call, every add_op mode and both sort_charge modes at least once (on a site with charged fermionic operators and
    # on a grouped site), independent of the random draws
    base = [spec('SpinHalfFermionSite', cons_N='N', cons_Sz='Sz'), spec('SpinSite', S=1.0, conserve='parity', sort_charge=False)]
    for w in range(15):
        cases.append({'sites': base, 'seed': ctx.seed * 100000 + 90000 + w,
                      'steps': [['bad_call', w % 2, w], ['group', [0, 1], 'independent', None], ['bad_call', ['g', 0], w]]})
    for w, (h, a) in enumerate([(h, a) for h in ('False', 'auto', 'str') for a in ('dense_default', 'npc')]):
        cases.append({'sites': base, 'seed': ctx.seed * 100000 + 91000 + w,
                      'steps': [['add_op', w % 2, 3 + w, 5 + 2 * w, True, {'hc': h, 'arr': a}], ['sort_charge', 1, w % 2 == 0, True],
                                ['add_op', 1 - w % 2, 7 + w, 2 + w, False, {'hc': h, 'arr': a}]]})
    # a second name for an existing operator (hc auto-determined), then its conjugate removed (finding F12.3 while it is open)
    cases.append({'sites': [spec('SpinHalfSite', conserve='Sz')], 'seed': ctx.seed * 100000 + 92000,
                  'steps': [['add_op', 0, 0, 4, False, {'hc': 'auto', 'arr': 'npc'}], ['remove_op', 0, 2], ['group', [0, 0], 'same', None]]})
    for cidx in range(n):
        n0 = rng.randint(1, 3)
        sites = [rng.choice(BOOK_POOL) for _ in range(n0)]
        if rng.random() < 0.6:
            sites[rng.randrange(n0)] = rng.choice(NOSORT_POOL)
        dims = [orc.doc_site(*s_).dim for s_ in sites]
        steps = []
        for _ in range(rng.randint(2, 6)):
            ns = len(dims)
            kind = rng.choice(['group'] * 5 + ['group_sites', 'set_common', 'set_common', 'sort_charge', 'change_charge', 'change_charge',
                                               'deepcopy', 'add_op', 'add_op', 'rename_op', 'remove_op', 'bad_call'])
            anyref = (lambda: rng.randrange(ns) if rng.random() < 0.7 else ['g', rng.randrange(4)])
            if kind == 'group':
                k = rng.choice([2, 2, 3])
                idxs = [rng.randrange(ns)] * k if rng.random() < 0.35 else [rng.randrange(ns) for _ in range(k)]
                if np.prod([dims[i] for i in idxs]) > 64:
                    continue
                labels = None if rng.random() < 0.7 else ['a', 'b', 'c'][:k]
                if rng.random() < 0.15:
                    idxs[rng.randrange(k)] = ['g', rng.randrange(4)]        # nested: a grouped site as a member
                steps.append(['group', idxs, rng.choice(['same', 'drop', 'independent', 'independent']), labels])
            elif kind == 'group_sites':
                k = rng.choice([3, 4])
                idxs = [rng.randrange(ns)] * k if rng.random() < 0.5 else [rng.randrange(ns) for _ in range(k)]
                if any(np.prod([dims[i] for i in idxs[g:g + 2]]) > 64 for g in (0, 2)):
                    continue
                steps.append(['group_sites', idxs, rng.choice(['same', 'drop', 'independent']), None])
            elif kind == 'set_common':
                if ns < 2:
                    continue
                idxs = rng.sample(range(ns), rng.randint(2, min(3, ns)))
                # documented options of set_common_charges: new_names, new_mod, old_charge_index by name, float factors, several new charges
                opts = {'names': rng.random() < 0.4, 'mod': rng.choice([None, None, 2, 3, 4]), 'stridx': rng.random() < 0.4,
                        'float': rng.random() < 0.3, 'second': rng.random() < 0.3, 'tuple': rng.random() < 0.3}
                steps.append(['set_common', idxs, rng.choice(['same', 'drop', 'independent', 'sum', 'sum', 'diff', 'diff']), rng.random() < 0.8, opts])
            elif kind == 'sort_charge':
                steps.append(['sort_charge', anyref(), rng.random() < 0.6, rng.random() < 0.6])
            elif kind == 'change_charge':
                mode = rng.choice(['drop', 'perm', 'perm', 'mod'])
                steps.append(['change_charge', rng.randrange(ns), mode] + ([rng.choice([2, 3])] if mode == 'mod' else []))
            elif kind == 'deepcopy':
                i = rng.randrange(ns)
                steps.append(['deepcopy', i])
                dims.append(dims[i])
            elif kind == 'add_op':
                opts = {'hc': rng.choice(['False', 'auto', 'auto', 'str']), 'arr': rng.choice([None, None, 'dense_default', 'dense_default', 'npc'])}
                steps.append(['add_op', anyref(), rng.randrange(1000), rng.randrange(1000), rng.random() < 0.5, opts])
            elif kind == 'bad_call':
                # every refused call in turn (stratified over the cases)
                steps.append(['bad_call', anyref(), (cidx + len(steps)) % 15])
            else:
                steps.append([kind, anyref(), rng.randrange(1000)])
        if steps:
            cases.append({'sites': sites, 'steps': steps, 'seed': ctx.seed * 100000 + cidx})
    return cases


def species_cases(rng, ctx):
    cases = []
    k = 0
    for cn in ['N', 'parity', 'None', None]:
        for cs in ['Sz', 'parity', 'None', None]:
            k += 1
            cases.append({'cons_N': cn, 'cons_Sz': cs, 'as_class': k % 2 == 0, 'seed': ctx.seed * 100 + k,
                          'kwargs': {} if k % 3 else {'filling': rng.choice([0.25, 0.5, 1. / 3])}})
    cases += [{'cons_N': 'Sz', 'cons_Sz': 'Sz', 'as_class': True, 'seed': 0, 'kwargs': {}, 'refused': True},
              {'cons_N': 'N', 'cons_Sz': 'N', 'as_class': False, 'seed': 0, 'kwargs': {}, 'refused': True}]
    return cases


def ctor_cases():
    """constructor options outside the exported table: (case, expectation) with expectation = the equivalent table kwargs or the
    documented exception"""
    out = []
    for cls, base in [('SpinHalfSite', {}), ('SpinSite', {'S': 1.0}), ('FermionSite', {}), ('BosonSite', {'Nmax': 2}), ('ClockSite', {'q': 3})]:
        for falsy in [None, '']:
            out.append(({'class': cls, 'kwargs': dict(base, conserve=falsy)}, {'same_as': dict(base, conserve='None')}))
        out.append(({'class': cls, 'kwargs': dict(base, conserve='bogus')}, {'raises': 'ValueError'}))
    for cls in ['SpinHalfFermionSite', 'SpinHalfHoleSite']:
        for a, b, a2, b2 in [(None, None, 'None', 'None'), ('', 'Sz', 'None', 'Sz'), ('N', None, 'N', 'None'), ('parity', '', 'parity', 'None')]:
            out.append(({'class': cls, 'kwargs': {'cons_N': a, 'cons_Sz': b}}, {'same_as': {'cons_N': a2, 'cons_Sz': b2}}))
        out.append(({'class': cls, 'kwargs': {'cons_N': 'Sz'}}, {'raises': 'ValueError'}))
        out.append(({'class': cls, 'kwargs': {'cons_Sz': 'N'}}, {'raises': 'ValueError'}))
        out.append(({'class': cls, 'kwargs': {}}, {'same_as': {'cons_N': 'N', 'cons_Sz': 'Sz', 'filling': 1.0}}))       # documented defaults
    out += [({'class': 'SpinSite', 'kwargs': {'S': 0.0}}, {'raises': 'ValueError'}), ({'class': 'SpinSite', 'kwargs': {'S': -1.0}}, {'raises': 'ValueError'}),
            ({'class': 'SpinSite', 'kwargs': {'S': 0.75}}, {'raises': 'ValueError'}), ({'class': 'BosonSite', 'kwargs': {'Nmax': 0}}, {'raises': 'ValueError'}),
            ({'class': 'ClockSite', 'kwargs': {'q': 1}}, {'raises': 'ValueError'}), ({'class': 'ClockSite', 'kwargs': {'q': 2.5}}, {'raises': 'ValueError'}),
            # documented defaults of the constructors
            ({'class': 'SpinHalfSite', 'kwargs': {}}, {'same_as': {'conserve': 'Sz'}}), ({'class': 'SpinSite', 'kwargs': {}}, {'same_as': {'S': 0.5, 'conserve': 'Sz'}}),
            ({'class': 'FermionSite', 'kwargs': {}}, {'same_as': {'conserve': 'N', 'filling': 0.5}}),
            ({'class': 'BosonSite', 'kwargs': {}}, {'same_as': {'Nmax': 1, 'conserve': 'N', 'filling': 0.0}}),
            ({'class': 'ClockSite', 'kwargs': {'q': 4}}, {'same_as': {'q': 4, 'conserve': 'Z'}}),
            ({'class': 'SpinSite', 'kwargs': {'S': 1, 'conserve': 'parity'}}, {'same_as': {'S': 1.0, 'conserve': 'parity'}})]
    return out


# ---------------------------------------------------------------------------------------------------------------------
# MPS-level consumers of MPS._term_to_ops_list
# ---------------------------------------------------------------------------------------------------------------------
def _is_f(classes, op, k):
    return op in FERM_OPS.get(classes[k], [])


def rand_window_term(rng, classes, lo, hi, parity=None, nmax=3):
    """term of 1..nmax operators on the absolute sites lo..hi-1 with the requested fermion parity (when the window has a fermionic site)"""
    term = []
    for _ in range(rng.randint(1, nmax)):
        k = rng.randrange(lo, hi)
        c = classes[k]
        op = rng.choice(FERM_OPS[c]) if c in FERM_OPS and rng.random() < 0.7 else rng.choice(OTHER_OPS[c])
        term.append([op, k])
    fs = [k for k in range(lo, hi) if classes[k] in FERM_OPS]
    if parity is not None and fs and sum(_is_f(classes, op, k) for op, k in term) % 2 != parity:
        k = rng.choice(fs)
        term.insert(rng.randrange(len(term) + 1), [rng.choice(FERM_OPS[classes[k]]), k])
    return term


HC_F = {'FermionSite': {'C': 'Cd', 'Cd': 'C'}, 'SpinHalfFermionSite': {'Cu': 'Cdu', 'Cdu': 'Cu', 'Cd': 'Cdd', 'Cdd': 'Cd'},
        'SpinHalfHoleSite': {'Cu': 'Cdu', 'Cdu': 'Cu', 'Cd': 'Cdd', 'Cdd': 'Cd'}}
NEUTRAL = {'FermionSite': ['N', 'dN'], 'SpinHalfFermionSite': ['Nu', 'Ntot', 'Sz'], 'SpinHalfHoleSite': ['Nd', 'Sz'], 'SpinHalfSite': ['Sz'],
           'SpinSite': ['Sz'], 'BosonSite': ['N'], 'ClockSite': ['Z']}


def neutral_term(rng, classes, L):
    """charge-neutral term of even fermion parity in arbitrary order: 1-2 pairs (f on site i, f^dagger on site j) + uncharged operators"""
    fs = [k for k in range(L) if classes[k] in FERM_OPS]
    term = []
    for _ in range(rng.randint(1, 2)):
        i, j = rng.choice(fs), rng.choice(fs)
        if classes[i] != classes[j]:
            j = i
        a = rng.choice(FERM_OPS[classes[i]])
        term += [[a, i], [HC_F[classes[j]][a], j]]
    if rng.random() < 0.5:
        k = rng.randrange(L)
        term.append([rng.choice(NEUTRAL[classes[k]]), k])
    rng.shuffle(term)
    return term


def mpsterm_cases(rng, ctx):
    chains = []
    for cons in ['N', 'parity', 'None']:
        for L in [3, 4, 5, 6]:
            chains.append(([spec('FermionSite', conserve=cons)] * L, True))
    for (cn, cs) in [('N', 'Sz'), ('parity', 'None'), ('None', 'None')]:
        chains.append(([spec('SpinHalfFermionSite', cons_N=cn, cons_Sz=cs)] * 3, True))
    chains.append(([spec('SpinHalfHoleSite', cons_N='N', cons_Sz='Sz')] * 4, True))
    chains.append(([none_spec(c) for c in ['FermionSite', 'SpinHalfSite', 'FermionSite', 'FermionSite', 'SpinHalfSite']], False))
    chains.append(([none_spec(c) for c in ['SpinHalfFermionSite', 'FermionSite', 'BosonSite', 'FermionSite']], False))
    cases = []
    reps = ctx.pick(1, 6)
    for ci, (sites, homog) in enumerate(chains * reps):
        L = len(sites)
        classes = [s_[0] for s_ in sites]
        jobs = []

        def strengths(n):
            return [[round(rng.uniform(-1, 1), 3), round(rng.uniform(-1, 1), 3) if rng.random() < 0.5 else 0.0] for _ in range(n)]

        def windows():
            wL, wR = rng.randint(1, min(2, L - 1)), 1
            wR = rng.randint(1, min(2, L - wL))
            a = rng.randint(0, L - wL - wR)
            starts = list(range(a + wL, L - wR + 1))
            return wL, wR, a, starts

        # the triple of _term_to_ops_list itself, JW_from_right in {None, False, True}, odd and even terms
        for jfr in [None, False, True] * 2:
            lo = rng.randrange(L)
            term = rand_window_term(rng, classes, lo, rng.randint(lo + 1, L), parity=rng.choice([0, 1, 1, None]), nmax=4)
            # i_offset: the same absolute term handed in shifted by -off (boundaries: off = 0 and the largest shift keeping the sites valid)
            off = rng.choice([0, lo, rng.randint(0, lo), -rng.randint(0, L - 1 - max(k_ for _, k_ in term))])
            jobs.append({'f': 'ops_list', 'term': term, 'autoJW': True, 'jfr': jfr, 'off': off})
        jobs.append({'f': 'ops_list', 'term': rand_window_term(rng, classes, 0, L, nmax=4), 'autoJW': False, 'jfr': rng.choice([None, False])})
        for par in [0, 0, 1]:
            jobs.append({'f': 'ev_term', 'term': rand_window_term(rng, classes, 0, L, parity=par, nmax=4)})
        jobs.append({'f': 'terms_sum', 'terms': [neutral_term(rng, classes, L) for _ in range(3)], 'strength': strengths(3)})
        for (pl, pr) in [(1, 1), (1, 1), (0, 0), (rng.choice([0, 1]), rng.choice([0, 1]))]:
            wL, wR, a, starts = windows()
            bs = sorted(rng.sample(starts, min(len(starts), rng.randint(1, 3)))) if homog else [rng.choice(starts)]
            tL = rand_window_term(rng, classes, a, a + wL, parity=pl)
            tR = rand_window_term(rng, classes, bs[0], bs[0] + wR, parity=pr)
            oL, oR = a + rng.choice([0, 0, 1, -1]), bs[0] + rng.choice([0, 0, 1, -1])
            jobs.append({'f': 'tcf_right', 'term_L': [[o, k - oL] for o, k in tL], 'term_R': [[o, k - oR] for o, k in tR], 'i_L': oL,
                         'j_R': [oR + (b - bs[0]) for b in bs], 'default_j_R': bool(homog and rng.random() < 0.3)})
        for (pl, pr) in [(1, 1), (0, 0), (rng.choice([0, 1]), rng.choice([0, 1]))]:
            wL, wR, a, starts = windows()
            b = rng.choice(starts)
            as_ = sorted(rng.sample(range(0, b - wL + 1), min(b - wL + 1, rng.randint(1, 3)))) if homog else [a]
            tL = rand_window_term(rng, classes, as_[0], as_[0] + wL, parity=pl)
            tR = rand_window_term(rng, classes, b, b + wR, parity=pr)
            oL, oR = as_[0] + rng.choice([0, 0, 1, -1]), b + rng.choice([0, 0, 1, -1])
            jobs.append({'f': 'tcf_left', 'term_L': [[o, k - oL] for o, k in tL], 'term_R': [[o, k - oR] for o, k in tR],
                         'i_L': [oL + (x - as_[0]) for x in as_], 'j_R': oR})
        for rep in range(4):
            wL, wR, a, starts = windows()
            bs = sorted(rng.sample(starts, min(len(starts), rng.randint(1, 3)))) if homog else [rng.choice(starts)]
            # sums of terms: odd terms on the left must find odd partners on the right (pairs and quadruples of fermionic operators)
            pars = [1, 1] if rep < 2 else [rng.choice([0, 1]) for _ in range(rng.randint(1, 3))]
            tLs = [rand_window_term(rng, classes, a, a + wL, parity=p_) for p_ in pars]
            tRs = [rand_window_term(rng, classes, bs[0], bs[0] + wR, parity=p_) for p_ in pars[::-1] + ([rng.choice([0, 1])] if rep == 3 else [])]
            oL, oR = a + rng.choice([0, 0, 1, -1]), bs[0] + rng.choice([0, 0, 1, -1])
            jobs.append({'f': 'tlcf_right', 'terms_L': [[[o, k - oL] for o, k in t] for t in tLs], 'strength_L': strengths(len(tLs)),
                         'terms_R': [[[o, k - oR] for o, k in t] for t in tRs], 'strength_R': strengths(len(tRs)), 'i_L': oL,
                         'j_R': [oR + (b - bs[0]) for b in bs]})
        # (odd terms only on homogeneous chains: apply_local_term lifts the open string to the virtual leg through the charge_to_JW_parity
        #  of the site the term starts on, which is only meaningful when all sites went through the same charge setup)
        for par in ([0, 1] if homog else [0, 0]):
            lo = rng.randrange(L)
            jobs.append({'f': 'apply', 'term': rand_window_term(rng, classes, lo, rng.randint(lo + 1, L), parity=par), 'canonicalize': rng.random() < 0.7})
        # one operator given by name to apply_local_op (first / last / random site; fermionic ones need the string on the virtual leg)
        for i in [0, L - 1, rng.randrange(L)]:
            c = classes[i]
            op = rng.choice(FERM_OPS[c]) if (c in FERM_OPS and homog) else rng.choice(OTHER_OPS[c])
            jobs.append({'f': 'apply_op', 'i': i, 'op': op, 'unitary': rng.choice([None, False])})
        cases.append({'sites': sites, 'seed': ctx.seed * 1000 + 500 + ci, 'jobs': jobs})
    return cases


def ops_list_coq_case(docs, job, r):
    ids = {'JW': 0}

    def oid(n):
        return ids.setdefault(n, len(ids))
    L = len(docs)
    its = [(oid(op), i, bool(docs[i % L].needs_JW(op))) for op, i in job['term']]
    flag = {oid(op): f for (op, i), (_, _, f) in zip(job['term'], its)}
    ops = [[(oid(n), True if n == 'JW' else flag.get(oid(n), False)) for n in w] for w in r['ops']]
    jfr = None if job['jfr'] is None else Some(bool(job['jfr']))
    return coq_lit((its, bool(job['autoJW']), jfr, (ops, int(r['imin']), bool(r['extra']))))


def corr_cases(rng, ctx):
    cases = []
    k = 0
    for cons in ['N', 'parity', 'None']:
        for L in [3, 5, 6] if not ctx.thorough() else [2, 3, 4, 5, 6]:
            for rep in range(ctx.pick(1, 4)):
                k += 1
                cases.append({'sites': [spec('FermionSite', conserve=cons)] * L, 'seed': ctx.seed * 1000 + k,
                              'pairs': [['Cd', 'C'], ['C', 'Cd'], ['C', 'C'], ['Cd', 'Cd'], ['N', 'N'], ['Cd', 'N C']]})
    for (cn, cs) in [('N', 'Sz'), ('parity', 'parity'), ('None', 'None')]:
        k += 1
        cases.append({'sites': [spec('SpinHalfFermionSite', cons_N=cn, cons_Sz=cs)] * 3, 'seed': ctx.seed * 1000 + k,
                      'pairs': [['Cdu', 'Cu'], ['Cdd', 'Cd'], ['Cu', 'Cdd'], ['Cdu', 'Cd'], ['Cd', 'Cdu'], ['Sp', 'Sm']]})
    k += 1
    cases.append({'sites': [none_spec('FermionSite'), none_spec('SpinHalfSite'), none_spec('FermionSite'), none_spec('SpinHalfSite'),
                            none_spec('FermionSite')], 'seed': ctx.seed * 1000 + k,
                  'pairs': [['Cd', 'C'], ['C', 'Cd'], ['C', 'C']], 'kwargs': {'sites1': [0, 2, 4], 'sites2': [0, 2, 4]}, 'subset': [0, 2, 4]})
    # the documented options: sites1 / sites2 as int or unsorted lists (boundaries: first / last site, a single site), hermitian=True,
    # operators as lists on heterogeneous chains, the documented refusals and the explicit opstr='JW'
    for cons in ['N', 'parity', 'None']:
        for rep in range(ctx.pick(1, 3)):
            L = rng.choice([4, 5, 6])
            k += 1
            s1 = rng.choice([rng.randint(1, L), rng.sample(range(L), rng.randint(1, L)), [0], [L - 1], [0, L - 1]])
            s2 = rng.choice([rng.randint(1, L), rng.sample(range(L), rng.randint(1, L)), [0], [L - 1], [L - 1, 0]])
            cases.append({'sites': [spec('FermionSite', conserve=cons)] * L, 'seed': ctx.seed * 1000 + k, 'refuse': True,
                          'pairs': [['Cd', 'C'], ['C', 'Cd'], ['C', 'C'], ['N', 'Cd C']], 'kwargs': {'sites1': s1, 'sites2': s2}})
            k += 1
            sh = rng.choice([None, rng.sample(range(L), rng.randint(2, L))])
            cases.append({'sites': [spec('FermionSite', conserve=cons)] * L, 'seed': ctx.seed * 1000 + k,
                          'pairs': [['Cd', 'C'], ['C', 'Cd'], ['N', 'N'], ['Cd C', 'N']],
                          'kwargs': dict({'hermitian': True}, **({} if sh is None else {'sites1': sh, 'sites2': sh[::-1]}))})
    for (cn, cs) in [('N', 'Sz'), ('parity', 'None')]:
        k += 1
        cases.append({'sites': [spec('SpinHalfFermionSite', cons_N=cn, cons_Sz=cs)] * 3, 'seed': ctx.seed * 1000 + k,
                      'pairs': [['Cdu', 'Cu'], ['Cd', 'Cdd'], ['Sp', 'Sm']], 'kwargs': {'hermitian': True}})
    for cons in ['N', 'None']:
        L = 5
        k += 1
        # hermitian=True with sites1 != sites2: the flag can not be used (warning branch), the values must not change
        cases.append({'sites': [spec('FermionSite', conserve=cons)] * L, 'seed': ctx.seed * 1000 + k, 'pairs': [['Cd', 'C'], ['C', 'Cd']],
                      'kwargs': {'hermitian': True, 'sites1': [0, 1, 3], 'sites2': [1, 2, 4]}})
        k += 1
        # many sites1 left of few sites2 (the branch that warns about the inefficient evaluation); operators given as arrays
        cases.append({'sites': [spec('FermionSite', conserve=cons)] * L, 'seed': ctx.seed * 1000 + k, 'pairs': [['Cd', 'C'], ['C', 'C'], ['N', 'dN']],
                      'kwargs': {'sites1': [0, 1, 2, 3], 'sites2': [4]}})
        k += 1
        cases.append({'sites': [spec('FermionSite', conserve=cons)] * L, 'seed': ctx.seed * 1000 + k, 'pairs': [['N', 'dN'], ['Cd C', 'N']], 'arrays': True,
                      'kwargs': {'sites1': rng.sample(range(L), 3), 'sites2': L}})
    k += 1
    het = ['FermionSite', 'SpinHalfFermionSite', 'FermionSite', 'SpinHalfHoleSite']
    cases.append({'sites': [none_spec(c) for c in het], 'seed': ctx.seed * 1000 + k, 'oplists': True,
                  'pairs': [[['Cd', 'Cdu', 'C', 'Cdd'], ['C', 'Cu', 'Cd', 'Cd']], [['N', 'Ntot', 'dN', 'Sz'], ['N', 'Sp Sm', 'N', 'Nd']],
                            [['C', 'Cd'], ['Cd', 'Cdu', 'C', 'Cu']]],
                  'kwargs': {'sites1': rng.sample(range(4), rng.randint(1, 4)), 'sites2': rng.randint(1, 4)}})
    return cases


def chunked(cases, n):
    n = max(1, min(n, len(cases)))
    return [cases[i::n] for i in range(n)]


TRACES = {}


def run_chunks(ctx, kind, cases, n=None, trace_all=False, force=()):
    """returns list of results aligned with cases (None for runner failures, which are recorded).  Every runner process records the
    executed lines of the anchored source files (sys.monitoring, each location once: coverage table, c12_cov).
    kind='mixed': every case names its own runner in case['_kind']."""
    n = max(1, min(n or common.NPROC, len(cases)))
    groups = [list(range(i, len(cases), n)) for i in range(n)]
    traced = set(range(n))
    res = common.run_impl_parallel('c12_impl.py', [dict({'kind': kind, 'cases': [cases[i] for i in g]}, **({'trace': True} if gi in traced else {}))
                                                   for gi, g in enumerate(groups)], timeout=1500)
    out = [None] * len(cases)
    for g, (r, err) in zip(groups, res):
        if err:
            ctx.fail('correspondence', '%s runner failed: %s' % (kind, err[-500:]), None)
            continue
        if isinstance(r, dict) and 'trace' in r:
            tr = TRACES.setdefault(kind, {})
            for f, ls in r['trace'].items():
                tr.setdefault(f, set()).update(ls)
            r = r['results']
        for i, x in zip(g, r):
            out[i] = x
    return out


import time as _time


def _tick(ctx, name, t0=[None]):
    now = _time.time()
    if t0[0] is not None:
        ctx.notes.append('stage %s: %.0fs' % (name, now - t0[0]))
    t0[0] = now


def main(ctx):
    rng = ctx.rng
    _tick(ctx, 'start')
    ctx.proof = common.check_proofs('C12')
    _tick(ctx, 'proofs')
    boost = 1 if ctx.proof.ok else 3          # intensified search when an obligation is broken
    hist = {}

    # ------------------------------------------------------------------ tables
    cfgs = parse_g_sites(os.path.join(common.COQ, 'Gen', 'G_sites.v'))
    if cfgs is None:
        ctx.fail('correspondence', 'coq/Gen/G_sites.v has no table (exporter failed closed): %s' % '; '.join(ctx.proof.problems[:3]), None)
        cfgs = []
    tcases = [{'class': c['class'], 'kwargs': kwargs_of(c), 'from_table': idx} for idx, c in enumerate(cfgs)]
    # beyond the exported table (oracle only): non-dyadic fillings, larger parameters
    extra = [{'class': 'FermionSite', 'kwargs': {'conserve': 'N', 'filling': 1. / 3}},
             {'class': 'BosonSite', 'kwargs': {'Nmax': 5, 'conserve': 'parity', 'filling': 0.3}},
             {'class': 'SpinHalfFermionSite', 'kwargs': {'cons_N': 'N', 'cons_Sz': 'parity', 'filling': 0.7}},
             {'class': 'SpinHalfHoleSite', 'kwargs': {'cons_N': 'parity', 'cons_Sz': 'Sz', 'filling': 0.9}},
             {'class': 'ClockSite', 'kwargs': {'q': 6, 'conserve': 'Z'}}, {'class': 'ClockSite', 'kwargs': {'q': 7, 'conserve': 'None'}},
             {'class': 'SpinSite', 'kwargs': {'S': 3.5, 'conserve': 'parity'}}, {'class': 'SpinSite', 'kwargs': {'S': 4.0, 'conserve': 'Sz'}}]
    if not cfgs:
        # no table: still run the oracle over the full parameter space
        for cls, conss in [('SpinHalfSite', ['Sz', 'parity', 'None']), ('FermionSite', ['N', 'parity', 'None'])]:
            extra += [{'class': cls, 'kwargs': {'conserve': c}} for c in conss]
        for S in [0.5, 1., 1.5, 2., 2.5, 3.]:
            extra += [{'class': 'SpinSite', 'kwargs': {'S': S, 'conserve': c}} for c in ['dipole', 'Sz', 'parity', 'None']]
        for cls in ['SpinHalfFermionSite', 'SpinHalfHoleSite']:
            extra += [{'class': cls, 'kwargs': {'cons_N': a, 'cons_Sz': b}} for a in ['N', 'parity', 'None'] for b in ['Sz', 'parity', 'None']]
        for n in [1, 2, 3, 4]:
            extra += [{'class': 'BosonSite', 'kwargs': {'Nmax': n, 'conserve': c}} for c in ['dipole', 'N', 'parity', 'None']]
        for q in [2, 3, 4, 5]:
            extra += [{'class': 'ClockSite', 'kwargs': {'q': q, 'conserve': c}} for c in ['Z', 'None']]
    tcases += extra
    for k_, c_ in enumerate(tcases):
        c_.update({'api': True, 'seed': ctx.seed * 1000 + k_, 'nwords': ctx.pick(6, 40)})
    cc = ctor_cases()
    flat = []
    for case, exp in cc:
        flat.append(dict(case, _kind='ctor'))
        if 'same_as' in exp:
            flat.append({'class': case['class'], 'kwargs': exp['same_as'], '_kind': 'ctor'})
    scases = species_cases(rng, ctx)
    allres = run_chunks(ctx, 'mixed', [dict(c_, _kind='table') for c_ in tcases] + flat + [dict(c_, _kind='species') for c_ in scases],
                        force=list(range(len(tcases), len(tcases) + len(flat) + 2)))
    tres, cres, sres = allres[:len(tcases)], allres[len(tcases):len(tcases) + len(flat)], allres[len(tcases) + len(flat):]
    n_guard = 0
    for case, r in zip(tcases, tres):
        if r is None:
            continue
        tag = '%s(%s)' % (case['class'], ', '.join('%s=%r' % kv for kv in sorted(case['kwargs'].items())))
        if 'runner_error' in r:
            ctx.fail('oracle', 'constructing %s raised: %s' % (tag, r['runner_error'][-300:]), {'stream': 'table', 'case': case},
                     match_key='C12:table:constructor-raises')
            continue
        probs = oracle_site(case['class'], case['kwargs'], r)
        if 'api_problems' not in r:
            ctx.fail('correspondence', 'table runner did not verify the accessors of %s' % tag, {'stream': 'table', 'case': case})
        elif r['api_problems']:
            ctx.fail('oracle', '%s: %s' % (tag, '; '.join(r['api_problems'][:3])), {'stream': 'table', 'case': case},
                     match_key='C12:table:accessors:' + case['class'])
        ctx.count('table', tag, nontrivial=True, sample={'site': tag, 'ops': sorted(r['ops']), 'perm': r['perm']})
        hist[case['class']] = hist.get(case['class'], 0) + 1
        if probs:
            ctx.fail('oracle', '%s: %s' % (tag, '; '.join(probs[:4])), {'stream': 'table', 'case': case, 'impl_perm': r['perm']},
                     match_key='C12:table:' + case['class'])
        if 'from_table' in case:
            c = cfgs[case['from_table']]
            bad = []
            if c['perm'] != r['perm'] or c['labels'] != r['labels'] or c['mod'] != r['mod'] or sorted(c['need_JW']) != r['need_JW'] \
                    or c['hc'] != r['hc'] or [list(x) for x in c['charges']] != [list(x) for x in r['charges']]:
                bad.append('perm/labels/charges/need_JW/hc_ops')
            if c['jw'] != [int(round(abs(x))) for x in r['jw_exp']]:
                bad.append('JW_exponent')
            if set(c['ops']) != set(r['ops']):
                bad.append('operator names')
            for n in set(c['ops']) & set(r['ops']):
                tol = 0.0 if c['ops'][n]['kind'] == 0 else 1e-12
                if np.max(np.abs(table_matrix(c, c['ops'][n]) - jmat(r['ops'][n]['m']))) > tol or c['ops'][n]['q'] != r['ops'][n]['q']:
                    bad.append('operator ' + n)
            n_guard += 1
            if bad:
                ctx.fail('correspondence', 'exported table G_sites.v of %s [%s] differs from the implementation: %s'
                         % (c['key'], c['cons'], ', '.join(bad[:5])), {'stream': 'table', 'case': case})
    ctx.cov['tables_reimported'] = n_guard
    # ------------------------------------------------------------------ constructor options outside the table
    pos = 0
    for case, exp in cc:
        r = cres[pos]
        r2 = cres[pos + 1] if 'same_as' in exp else None
        pos += 2 if 'same_as' in exp else 1
        tag = '%s(%s)' % (case['class'], ', '.join('%s=%r' % kv for kv in sorted(case['kwargs'].items())))
        if r is None or 'runner_error' in r or (r2 is not None and 'runner_error' in r2):
            ctx.fail('correspondence', 'ctor runner failed on %s: %s' % (tag, (r or {}).get('runner_error', '')[-300:]), {'stream': 'ctor', 'case': case})
            continue
        ctx.count('ctor', tag, nontrivial=True)
        if 'raises' in exp:
            if r['raised'] != exp['raises']:
                ctx.fail('oracle', '%s: documented to be refused with %s, got %s' % (tag, exp['raises'], r['raised'] or 'a site'),
                         {'stream': 'ctor', 'case': case}, match_key='C12:ctor:refusal:' + case['class'])
        elif r['raised'] or r2['raised']:
            ctx.fail('oracle', '%s raised %s: %s' % (tag, r['raised'] or r2['raised'], r.get('msg') or r2.get('msg')), {'stream': 'ctor', 'case': case},
                     match_key='C12:ctor:raises:' + case['class'])
        elif r != r2:
            dd = [k_ for k_ in r if r[k_] != r2.get(k_)]
            ctx.fail('oracle', '%s differs from the documented equivalent %s in %s' % (tag, exp['same_as'], dd), {'stream': 'ctor', 'case': case},
                     match_key='C12:ctor:equivalent:' + case['class'])
    # ------------------------------------------------------------------ spin_half_species
    nf122 = 0
    for case, r in zip(scases, sres):
        if r is None:
            continue
        tag = [case['cons_N'], case['cons_Sz'], case['as_class'], case['kwargs']]
        ctx.count('species', tag, nontrivial=True)
        if 'runner_error' in r:
            ctx.fail('correspondence', 'species runner failed: ' + r['runner_error'][-400:], {'stream': 'species', 'case': case})
        elif 'error' in r:
            key = 'C12:species:raises'
            if case['cons_Sz'] == 'parity' and r['error'].startswith('ValueError: charges invalid for ChargeInfo') \
                    and 'LegCharge.test_sanity' in (r.get('tb') or ''):
                key = F122_KEY          # N_up - N_down = -1 is not reduced modulo 4
                nf122 += 1
            ctx.fail('oracle', 'spin_half_species(FermionSite, %r, %r) raised %s' % (case['cons_N'], case['cons_Sz'], r['error']),
                     {'stream': 'species', 'case': case, 'traceback': r.get('tb')}, match_key=key)
        elif r['problems']:
            ctx.fail('oracle', 'spin_half_species(FermionSite, %r, %r%s): %s' % (case['cons_N'], case['cons_Sz'], ''.join(', %s=%r' % kv for kv in case['kwargs'].items()),
                                                                                  '; '.join(r['problems'][:3])),
                     {'stream': 'species', 'case': case}, match_key='C12:species:sites')
    _tick(ctx, 'tables')

    # ------------------------------------------------------------------ terms: model <-> implementation, dense oracle
    nterms = ctx.pick(1600, 16000) * boost
    cases = [gen_term_case(rng, ctx.thorough()) for _ in range(nterms)]
    for _ in range(ctx.pick(1, 4)):
        # more than 100 operators: the branch of order_combine_term that warns (number operators keep the product non-zero)
        Ll = rng.randint(2, 3)
        tl = [[rng.choice(['C', 'Cd', 'N', 'N', 'Id']), rng.randrange(Ll)] for _ in range(rng.randint(101, 120))]
        cases.append({'sites': [none_spec('FermionSite')] * Ll, 'term': tl, 'dense': True})
    res = run_chunks(ctx, 'terms', cases)
    coq_cases, coq_idx = [], []
    nodd = 0
    for idx, (case, r) in enumerate(zip(cases, res)):
        if r is None:
            continue
        if 'runner_error' in r:
            ctx.fail('oracle', 'order_combine_term / handle_JW raised on a valid term: ' + r['runner_error'][-300:],
                     {'stream': 'terms', 'case': case}, match_key='C12:terms:raises')
            continue
        docs = [orc.doc_site(*s) for s in case['sites']]
        flags = [docs[i % len(docs)].needs_JW(op) for op, i in case['term']]
        if flags != r['flags']:
            ctx.fail('oracle', 'op_needs_JW %s, documentation %s for term %s' % (r['flags'], flags, case['term']),
                     {'stream': 'terms', 'case': case}, match_key='C12:terms:op_needs_JW')
        odd = sum(flags) % 2 == 1
        nodd += odd
        if 'multi' in r and (('error' in r['multi']) != odd):
            ctx.fail('oracle', 'multi_coupling_term_handle_JW %s for a term with %s fermion parity: %s'
                     % ('raised' if 'error' in r['multi'] else 'accepted', 'odd' if odd else 'even', case['term']),
                     {'stream': 'terms', 'case': case, 'impl': r}, match_key='C12:terms:parity')
        if 'dense_diff' in r and r['dense_diff'] > TOL:
            ctx.fail('oracle', 'sign * (ordered operators with JW strings) differs from the product of the term %s: max diff %.2e; impl=%s'
                     % (case['term'], r['dense_diff'], {k: r[k] for k in ('combined', 'sign', 'multi')}),
                     {'stream': 'terms', 'case': case, 'impl': r}, match_key='C12:terms:dense')
        for pp in r.get('opstring_problems', [])[:1]:
            ctx.fail('oracle', 'term %s: %s' % (case['term'], pp), {'stream': 'terms', 'case': case}, match_key='C12:terms:op_string')
        if 'opstring_problems' not in r:
            ctx.fail('correspondence', 'terms runner did not exercise the op_string option', {'stream': 'terms', 'case': case})
        if 'coupling' in r and 'multi' in r and 'error' not in r['coupling'] and 'error' not in r['multi']:
            cp, mu = r['coupling'], r['multi']
            if [cp['op_i'], cp['op_j']] != mu['ops'] or [cp['opstr']] != mu['opstr']:
                ctx.fail('oracle', 'coupling_term_handle_JW %s and multi_coupling_term_handle_JW %s disagree' % (cp, mu),
                         {'stream': 'terms', 'case': case}, match_key='C12:terms:coupling')
        lit = term_coq_case(case, r)
        ctx.count('terms', case['term'], nontrivial=len(case['term']) > 1 and sum(flags) >= 2 and r.get('dense_norm', 1) > 0,
                  sample={'term': case['term'], 'combined': r['combined'], 'sign': r['sign'], 'multi': r.get('multi')})
        if lit is None:
            ctx.fail('correspondence', 'output of order_combine_term/handle_JW has an unexpected shape: %s' % r, {'stream': 'terms', 'case': case})
            continue
        coq_cases.append(lit)
        coq_idx.append(idx)
    bad, err = common.coq_failing_indices('cases_c12', ['Base.Prelude', 'Model.JW'], 'check_term_case', coq_cases)
    if err:
        ctx.fail('correspondence', 'model evaluation failed: ' + err[-600:], None)
    for b in bad[:5]:
        ctx.fail('correspondence', 'Model/JW.v and terms.order_combine_term / multi_coupling_term_handle_JW disagree',
                 {'stream': 'terms', 'case': cases[coq_idx[b]], 'impl': res[coq_idx[b]]})
    ctx.cov['traces_validated_against_impl'] = len(coq_cases)
    hist['terms_odd_parity'] = nodd
    # two-site handler CouplingTerms.coupling_term_handle_JW  vs  Model/JW.v coupling_term_handle_JW (theorem T12_coupling_JW)
    cpl_cases, cpl_idx = [], []
    for idx, (case, r) in enumerate(zip(cases, res)):
        if r is None or 'coupling' not in r or len(r.get('combined', [])) != 2 or len(r.get('comb_flags', [])) != 2:
            continue
        cp = r['coupling']
        (op_i, i), (op_j, j) = r['combined']
        if 'error' in cp:
            outc = None
        elif (cp['op_j'] != op_j or cp['i'] != i or cp['j'] != j or cp['opstr'] not in ('JW', 'Id')
              or cp['op_i'] not in (op_i, op_i + ' JW')):
            ctx.fail('correspondence', 'output of coupling_term_handle_JW has an unexpected shape: %s' % cp, {'stream': 'terms', 'case': case})
            continue
        else:
            outc = Some((cp['op_i'] != op_i, cp['opstr'] == 'JW'))
        cpl_cases.append(coq_lit((bool(r['comb_flags'][0]), bool(r['comb_flags'][1]), outc)))
        cpl_idx.append(idx)
    if cpl_cases:
        bad, err = common.coq_failing_indices('cases_c12_cpl', ['Base.Prelude', 'Model.JW', 'Model.JW2'], 'check_coupling_case', cpl_cases)
        if err:
            ctx.fail('correspondence', 'model evaluation failed (coupling): ' + err[-600:], None)
        for b in bad[:5]:
            ctx.fail('correspondence', 'Model/JW.v and terms.coupling_term_handle_JW disagree',
                     {'stream': 'terms', 'case': cases[cpl_idx[b]], 'impl': res[cpl_idx[b]]})
    hist['coupling_handler_cases'] = len(cpl_cases)
    _tick(ctx, 'terms')

    # ------------------------------------------------------------------ MPO: dense anticommutators
    mcases = mpo_cases(rng, ctx)
    mres = run_chunks(ctx, 'mpo', mcases, n=len(mcases))
    for case, r in zip(mcases, mres):
        if r is None:
            continue
        if isinstance(r, dict) and 'runner_error' in r:
            ctx.fail('correspondence', 'mpo runner failed: ' + r['runner_error'][-400:], {'stream': 'mpo', 'case': case['tag']})
            continue
        for term, x in zip(case['terms'], r):
            ctx.count('mpo', [case['tag'], term], nontrivial=x.get('norm', 0) > 0)
            if 'error' in x:
                ctx.fail('oracle', 'TermList -> MPO raised %s for term %s on %s' % (x['error'], term, case['tag']),
                         {'stream': 'mpo', 'sites': case['sites'], 'term': term}, match_key='C12:mpo:raises')
            elif x.get('g', 1.0) != 1.0:
                ctx.fail('oracle', 'TermList/MPO construction for term %s on %s wrote into the caller\'s strength array (1.0 became %r): '
                         'later terms built from the same array get the wrong sign' % (term, case['tag'], x['g']),
                         {'stream': 'mpo', 'sites': case['sites'], 'term': term}, match_key='C12:mpo:strength-array-mutated')
            elif x['diff'] > TOL:
                ctx.fail('oracle', 'dense MPO of term %s on %s differs from the product of Jordan-Wigner operators (max diff %.2e)'
                         % (term, case['tag'], x['diff']), {'stream': 'mpo', 'sites': case['sites'], 'term': term}, match_key='C12:mpo:dense')
            elif x.get('anti_diff', 0) > TOL:
                ctx.fail('oracle', 'anticommutator of %s through the MPO machinery on %s is wrong (max diff %.2e)'
                         % (term, case['tag'], x['anti_diff']), {'stream': 'mpo', 'sites': case['sites'], 'term': term}, match_key='C12:mpo:car')

    _tick(ctx, 'mpo')
    # ------------------------------------------------------------------ GroupedSite
    gcases = grouped_cases(rng, ctx) + grouped_cases_bookkeeping(rng, ctx)
    for k_, c_ in enumerate(gcases):
        c_['seed'] = ctx.seed * 100000 + k_
    gres = run_chunks(ctx, 'grouped', gcases)
    nf17 = nf18 = 0
    hist['grouped_cases_with_kron'] = sum(1 for r in gres if r and r.get('kron'))
    for case, r in zip(gcases, gres):
        if r is None:
            continue
        dims = [orc.doc_site(*s).dim for s in case['sites']]
        tag = [[s[0], s[1]] for s in case['sites']] + [case['charges'], bool(case.get('share'))]
        if 'runner_error' in r:
            ctx.fail('correspondence', 'grouped runner failed: ' + r['runner_error'][-400:], {'stream': 'grouped', 'case': case})
            continue
        if 'error' in r and case['charges'] == 'same' and r['error'] == 'ValueError' and 'different `mod` nature' in r.get('msg', ''):
            ctx.count('grouped', tag, nontrivial=False)      # no common charge exists for these sites: documented error
            continue
        ctx.count('grouped', tag, nontrivial='error' not in r and len(set(s[0] for s in case['sites'])) > 1)
        if 'error' in r:
            key = 'C12:GroupedSite:raises'
            if case['charges'] == 'drop' and len(set(dims)) > 1 and r['error'] == 'IndexError':
                key = F17_KEY
                nf17 += 1
            if case['charges'] == 'same' and r.get('used_common') and r['error'] == 'TypeError' and "'bool' object is not iterable" in r.get('msg', '') \
                    and 'c2JWps' in r.get('tb', ''):
                key = F18_KEY
                nf18 += 1
            ctx.fail('oracle', 'GroupedSite(%s, charges=%r) raised %s: %s' % ([s[0] for s in case['sites']], case['charges'], r['error'], r.get('msg', '')),
                     {'stream': 'grouped', 'case': case, 'traceback': r.get('tb', '')}, match_key=key)
        elif r['problems']:
            ctx.fail('oracle', 'GroupedSite(%s%s, charges=%r): %s'
                     % (['%s(%s)' % (s[0], ', '.join('%s=%r' % kv for kv in sorted(s[1].items()))) for s in case['sites']],
                        ' [equal entries = the same Site object]' if case.get('share') else '', case['charges'], '; '.join(r['problems'][:4])),
                     {'stream': 'grouped', 'case': case}, match_key='C12:GroupedSite:operators')
    hist['grouped_drop_heterogeneous_IndexError'] = nf17
    hist['grouped_same_after_set_common_charges_TypeError'] = nf18

    _tick(ctx, 'grouped')
    # ------------------------------------------------------------------ basis bookkeeping through sequences of site-transforming calls
    bcases = book_cases(rng, ctx, ctx.pick(260, 2600) * boost)
    bres = run_chunks(ctx, 'book', bcases)
    nperm = nf121 = nf123 = 0
    kinds = {}
    optc = {}
    for case, r in zip(bcases, bres):
        if r is None:
            continue
        if 'runner_error' in r:
            ctx.fail('correspondence', 'book runner failed: ' + r['runner_error'][-400:], {'stream': 'book', 'case': case})
            continue
        applied = r.get('applied', [])
        for st_, a in zip(case['steps'], applied):
            if a == 'ok':
                kinds[st_[0]] = kinds.get(st_[0], 0) + 1
                # the option values actually applied
                if st_[0] == 'bad_call':
                    k_ = 'bad_call#%d' % (st_[2] % 15)
                elif st_[0] == 'add_op':
                    k_ = 'add_op hc=%s arr=%s' % (st_[5]['hc'], st_[5]['arr'] or ('dense_perm' if st_[4] else 'dense_noperm'))
                elif st_[0] == 'set_common':
                    k_ = 'set_common %s sort=%s' % (st_[2], st_[3]) + ''.join(' ' + o for o in sorted(st_[4]) if st_[4][o] and st_[2] in ('sum', 'diff'))
                elif st_[0] == 'sort_charge':
                    k_ = 'sort_charge bunch=%s' % st_[2]
                else:
                    continue
                optc[k_] = optc.get(k_, 0) + 1
        nperm += bool(r.get('permuted'))
        ctx.count('book', [case['sites'], case['steps']], nontrivial=bool(r.get('permuted')) or applied.count('ok') >= 2,
                  sample={'sites': [[s_[0], s_[1]] for s_ in case['sites']], 'steps': case['steps'], 'applied': applied, 'sites_verified': r.get('verified')})
        if 'error' in r:
            e = r['error']
            key = 'C12:book:raises:' + str(e['op'][0])
            if e['op'][0] == 'set_common' and e['op'][3] is False and e['error'] == 'UnboundLocalError' and "'leg'" in e['msg'] \
                    and 'site.change_charge(leg, perm_flat)' in e.get('tb', ''):
                key = F121_KEY
                nf121 += 1
            if e['op'][0] in ('set_common', 'group', 'group_sites') and e['error'] == 'ValueError' and e['msg'].startswith('charges invalid for ChargeInfo') \
                    and 'in set_common_charges' in e.get('tb', '') and 'LegCharge.from_qflat(new_chinfo, new_qflat' in e.get('tb', ''):
                # the new charge values (explicit new_mod, a negative factor, or several charges of one site merged by name) are handed to
                # LegCharge.from_qflat without being reduced modulo the new mod
                key = F122_KEY
                nf122 += 1
            ctx.fail('oracle', 'site-transforming call %s (step %d of %s on %s) raised %s: %s'
                     % (e['op'], e['step'], case['steps'], [s_[0] for s_ in case['sites']], e['error'], e['msg']),
                     {'stream': 'book', 'case': {'sites': case['sites'], 'steps': case['steps'][:e['step'] + 1], 'seed': case['seed']},
                      'traceback': e.get('tb', '')[-700:]}, match_key=key)
        for pr in r.get('problems', [])[:1]:
            key = 'C12:book:' + (pr['op'][0] if isinstance(pr['op'], list) else str(pr['op']))
            if isinstance(pr['op'], list) and pr['op'][0] == 'remove_op' and pr['op'][-1] == 'hc_ops asymmetric before' \
                    and any('hc_ops mentions' in x and 'which is not an operator' in x for x in pr['probs']):
                key = F123_KEY
                nf123 += 1
            ctx.fail('oracle', ('after %s (step %d) the site #%d = %s no longer is what the documentation says (read through its state labels): %s'
                                % (pr['op'], pr['step'], pr['site'], pr['tag'], '; '.join(pr['probs']))) if pr['site'] >= 0 else
                     ('%s (step %d on %s): %s' % (pr['op'], pr['step'], [s_[0] for s_ in case['sites']], '; '.join(pr['probs']))),
                     {'stream': 'book', 'case': {'sites': case['sites'], 'steps': case['steps'][:pr['step'] + 1], 'seed': case['seed']}},
                     match_key=key)
    hist['book_steps_applied'] = kinds
    hist['book_options_applied'] = dict(sorted(optc.items()))
    for k_ in ['bad_call#%d' % i for i in range(15)] + ['sort_charge bunch=False', 'sort_charge bunch=True'] \
            + ['add_op hc=%s arr=%s' % (h, a) for h in ('False', 'auto', 'str') for a in ('dense_default', 'npc')]:
        if not optc.get(k_):
            ctx.fail('correspondence', 'book stream: the option value %r was never applied (stratification of the generator broken)' % k_, None)
    hist['set_common_charges_sort_charge_False_UnboundLocalError'] = nf121
    hist['set_common_charges_charges_not_reduced_modulo_new_mod'] = nf122
    hist['remove_op_dangling_hc_ops_entry'] = nf123
    hist['book_cases_with_relabelled_basis'] = nperm
    _tick(ctx, 'book')
    # ------------------------------------------------------------------ correlation_function(autoJW)
    ccases = corr_cases(rng, ctx)
    cres = run_chunks(ctx, 'corr', ccases)
    for case, r in zip(ccases, cres):
        if r is None:
            continue
        if isinstance(r, dict) and 'runner_error' in r:
            ctx.fail('correspondence', 'corr runner failed: ' + r['runner_error'][-400:], {'stream': 'corr', 'case': case})
            continue
        for x in r:
            ctx.count('corr', [case['sites'], x['a'], x['b'], case['seed'], case.get('kwargs')], nontrivial=x.get('norm', 0) > 1e-8)
            if 'error' in x:
                ctx.fail('oracle', 'correlation_function(%r, %r) raised %s' % (x['a'], x['b'], x['error']), {'stream': 'corr', 'case': case},
                         match_key='C12:corr:raises')
            elif x['diff'] > TOL:
                ctx.fail('oracle', 'correlation_function(%r, %r%s)[%s] differs from dense <psi|A_i B_j|psi> with Jordan-Wigner strings by %.2e'
                         % (x['a'], x['b'], ''.join(', %s=%r' % kv for kv in case.get('kwargs', {}).items()), x['arg'], x['diff']),
                         {'stream': 'corr', 'case': case, 'pair': [x['a'], x['b']]}, match_key='C12:corr:dense')
            elif x.get('not_refused'):
                ctx.fail('oracle', 'correlation_function(%r, ..) accepted the documented refusal case %s' % (x['a'], x['not_refused']),
                         {'stream': 'corr', 'case': case, 'pair': [x['a'], x['b']]}, match_key='C12:corr:refusal')
            elif x.get('opstr_diff', 0) > TOL:
                ctx.fail('oracle', "correlation_function(%r, %r, opstr='JW') differs from the autoJW result by %.2e" % (x['a'], x['b'], x['opstr_diff']),
                         {'stream': 'corr', 'case': case, 'pair': [x['a'], x['b']]}, match_key='C12:corr:opstr')
    _tick(ctx, 'corr')
    # ------------------------------------------------------------------ MPS-level consumers of _term_to_ops_list
    pcases = mpsterm_cases(rng, ctx) * 1
    pres = run_chunks(ctx, 'mpsterm', pcases, n=min(len(pcases), common.NPROC))
    tol_cases, tol_src = [], []
    fcount = {}
    for case, rr in zip(pcases, pres):
        if rr is None:
            continue
        if isinstance(rr, dict):
            ctx.fail('correspondence', 'mpsterm runner failed: ' + rr.get('runner_error', '')[-400:], {'stream': 'mpsterm', 'sites': case['sites']})
            continue
        docs = [orc.doc_site(*s_) for s_ in case['sites']]
        charged = all(any(v not in ('None', None) for k_, v in s_[1].items() if k_.startswith('cons')) for s_ in case['sites'])
        for job, x in zip(case['jobs'], rr):
            f = job['f']
            rep = {'stream': 'mpsterm', 'sites': case['sites'], 'seed': case['seed'], 'job': job}
            err = x.get('error')
            if err is not None and not err.startswith('ValueError') and not (f in ('apply', 'apply_op') and x.get('want_norm', 1.0) < 1e-10):
                ctx.count('mpsterm', [case['sites'], case['seed'], job], nontrivial=True)
                ctx.fail('oracle', '%s raised %s on %s' % (f, err, job), dict(rep, traceback=x.get('tb')), match_key='C12:mpsterm:raises:' + f)
                continue
            if f == 'ops_list':
                ctx.count('mpsterm', [case['sites'], job], nontrivial=len(job['term']) > 1)
                if err:
                    ctx.fail('oracle', '_term_to_ops_list raised %s on %s' % (err, job), rep, match_key='C12:mpsterm:raises:ops_list')
                    continue
                fcount[f] = fcount.get(f, 0) + 1
                if x.get('dense_diff', 0.0) > TOL:
                    ctx.fail('oracle', '_term_to_ops_list(%s, autoJW=True, 0, JW_from_right=%s) returned ops=%s, i_min=%d, has_extra_JW=%s: as dense '
                             'operators (JW string to the left iff has_extra_JW%s) this is not the Jordan-Wigner product of the term (max diff %.2e)'
                             % (job['term'], job['jfr'], x['ops'], x['imin'], x['extra'],
                                ', JW_from_right := the returned flag' if job['jfr'] is None else '', x['dense_diff']), rep,
                             match_key='C12:mpsterm:ops_list:dense')
                tol_cases.append(ops_list_coq_case(docs, job, x))
                tol_src.append((case, job, x))
                continue
            odd = bool(x.get('parity', 0))
            if f in ('ev_term', 'tcf_right', 'tcf_left', 'terms_sum', 'tlcf_right'):
                if err:
                    # documented: an odd total number of Jordan-Wigner operators is refused
                    ctx.count('mpsterm', [case['sites'], case['seed'], job], nontrivial=False)
                    if not (odd and f in ('ev_term', 'tcf_right', 'tcf_left')):
                        ctx.fail('oracle', '%s refused %s: %s' % (f, job, err), rep, match_key='C12:mpsterm:refused:' + f)
                    continue
                got, want = np.array([complex(*z) for z in x['got']]), np.array([complex(*z) for z in x['want']])
                ctx.count('mpsterm', [case['sites'], case['seed'], job], nontrivial=bool(np.max(np.abs(want)) > 1e-8))
                fcount[f] = fcount.get(f, 0) + 1
                if odd and f in ('ev_term', 'tcf_right', 'tcf_left'):
                    ctx.fail('oracle', '%s accepted a term with an odd number of Jordan-Wigner operators: %s' % (f, job), rep,
                             match_key='C12:mpsterm:parity:' + f)
                elif got.shape != want.shape or np.max(np.abs(got - want)) > TOL:
                    ctx.fail('oracle', '%s on %s with %s: got %s, the dense Jordan-Wigner operators give %s'
                             % (f, [s_[0] for s_ in case['sites']] + [case['sites'][0][1]], {k_: v for k_, v in job.items() if k_ != 'f'},
                                [complex(np.round(z, 10)) for z in got], [complex(np.round(z, 10)) for z in want]), rep,
                             match_key='C12:mpsterm:dense:' + f)
            elif f in ('apply', 'apply_op'):
                ctx.count('mpsterm', [case['sites'], case['seed'], job], nontrivial=x.get('want_norm', 0) > 1e-8 and not err)
                if err:
                    # the term annihilates the state (locally: documented ValueError; only globally: the renormalisation fails), or an
                    # open string on a chain without fermion-parity charges
                    ok = x.get('want_norm', 1.0) < 1e-10 or (odd and not charged and 'JW' in err)
                    if not ok:
                        ctx.fail('oracle', '%s refused %s: %s' % ('apply_local_term' if f == 'apply' else 'apply_local_op', job, err), rep,
                                 match_key='C12:mpsterm:refused:' + f)
                    continue
                fcount[f] = fcount.get(f, 0) + 1
                if x['diff'] > 1e-9:
                    ctx.fail('oracle', '%s(%s): the resulting state differs from (dense Jordan-Wigner operator of the term)|psi> by %.2e'
                             % ('apply_local_term' if f == 'apply' else 'apply_local_op', job.get('term', [job.get('op'), job.get('i')]), x['diff']), rep,
                             match_key='C12:mpsterm:dense:' + f)
    bad, err = common.coq_failing_indices('cases_c12_tol', ['Base.Prelude', 'Model.JW', 'Model.JW2'], 'check_tol_case', tol_cases)
    if err:
        ctx.fail('correspondence', 'model evaluation failed (ops_list): ' + err[-600:], None)
    for b in bad[:5]:
        case, job, x = tol_src[b]
        ctx.fail('correspondence', 'Model/JW.v term_to_ops_list and MPS._term_to_ops_list disagree on %s: impl %s' % (job, x),
                 {'stream': 'mpsterm', 'sites': case['sites'], 'job': job, 'impl': x})
    ctx.cov['traces_validated_against_impl'] += len(tol_cases)
    hist['mpsterm_calls'] = fcount
    _tick(ctx, 'mpsterm')
    ctx.cov['input_distribution'] = hist
    # ------------------------------------------------------------------ coverage table of the anchored source
    items, cprobs = c12_cov.anchored_items(common.REPO)
    for pp in cprobs:
        ctx.fail('correspondence', 'coverage table: ' + pp, None)
    rows, missing, (nreach, ntot) = c12_cov.table(items, {k_: {f: sorted(v) for f, v in tr.items()} for k_, tr in TRACES.items()})
    ctx.cov['anchored_code'] = {'items': len(items), 'executable_lines': ntot, 'lines_reached_in_traced_chunks': nreach,
                                'excluded': {k_: v for k_, v in c12_cov.EXCLUDED.items() if k_ in rows},
                                'not_quantified_here': c12_cov.OUTSIDE, 'table': rows}
    for name in missing:
        ctx.fail('correspondence', 'coverage table: %s of the anchored source is neither executed by any stream nor classified as excluded '
                 '(harness/c12_cov.py EXCLUDED): extend the generators' % name, None)
    ctx.assumptions += [
        'C12 tables: irrational entries (sqrt, roots of unity) are exported as squared entries / exponents after checking that the float '
        'value is within 1e-9 (squares) / 1e-13 (roots) of the exact value; algebra theorems for those operators are certificates over '
        'the squared entries (coq/Model/SiteTab.v)',
        'C12 JW model: operator names are abstract ids with a need_JW flag; multiplication of names on one site is list concatenation',
        'C12 not in Coq: GroupedSite, set_common_charges, change_charge, MPOGraph construction and the contractions of correlation_function / term_(list_)correlation_function (dense oracle only)',
        'C12 charge values (book, grouped, species): the charges of a freshly constructed predefined site are taken from the site (their consistency with '
        'the operators is what the table stream and T12_charges_consistent check); every later call (set_common_charges with each policy / list form / '
        'new_names / new_mod, change_charge, GroupedSite per policy, spin_half_species) is predicted from the documentation and compared per site as the '
        'set of (name, mod, values over the labelled states): the ORDER of the charges is not compared (not documented for new_charges="same")',
        'C12 add_op(hc=None): no prediction when the conjugate is determined only numerically (max difference between 1e-15 and 1e-12); operators whose only '
        'conjugate candidates carry the other need_JW flag are added with hc=False (such a declaration would be inconsistent as operators with strings)',
        'C12 coverage table: anchored but not quantified here: ' + '; '.join('%s (%s)' % kv for kv in c12_cov.OUTSIDE.items()),
    ]
    return ctx.finish(RULE, 'theorems of coq/Props/C12.v over the regenerated site table and for all terms; Model/JW.v run against '
                      'order_combine_term / handle_JW on every generated term; dense numpy oracle from the documentation for tables, terms, '
                      'MPOs, grouped sites and fermionic correlation functions')


RULE = ('table: every configuration of G_sites.v + extra parameters (one case per site class x parameters x conserve), each also with every '
        'documented state-label alias and the accessors state_index(-ices) / get_op / op_needs_JW / valid_opname / get_hc_op_name / multiply_op_names / '
        'multiply_operators on random products of 1-3 operator names, onsite_ops, charge_to_JW_signs; ctor: 5 falsy / 12 invalid / 8 default '
        'constructor calls; species: 4 x 4 option values of spin_half_species + 2 invalid; '
        'terms: random terms of 1-8 operators on heterogeneous chains of 1-6 sites (repeated sites, indices outside the unit cell, odd and '
        'even fermion parity), non-trivial when >= 2 operators need JW and the product is non-zero; mpo: all ordered pairs of fermionic '
        'operators on chains of 2-6 sites + random quadruples; grouped: all pairs + random triples of 10 heterogeneous sites x 3 charge '
        'policies (+ sort_charge=False sites, [site]*n; kron(group=True/False) and kroneckerproduct of random operators when the sites share a '
        'ChargeInfo), non-trivial when heterogeneous; book: random sequences of 2-6 site-transforming calls '
        'on 1-3 sites of 21 configurations (5 with sort_charge=False) with their documented options (set_common_charges: policy / list form with '
        'names, new_mod, index by name, float factors, two charges, sort_charge; sort_charge(bunch) on a scrambled basis; add_op hc=False/None/name x '
        'dense permuted / unpermuted / default / npc.Array; 15 refused or no-op calls, each applied at least once), non-trivial when some state '
        'labels changed or >= 2 calls applied; after every call operators, ALL state labels, hc_ops entries, the charge VALUES predicted from '
        'the documentation and the returned permutations are checked; '
        'corr: fermionic pairs on random entangled states; mpsterm: 6 ops_list triples + 17 calls of the MPS-level term functions per chain '
        '(18 chains, odd-odd / even-even / mixed parities), non-trivial when the dense value is non-zero.  distinct = distinct canonical inputs.')
