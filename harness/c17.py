"""C17 - saving and loading reproduces an equal object.

proof gate (coq/Props/C17.v: memoised DFS copy of any heap is an isomorphism, LegCharge encodings, regenerated
__getstate__/__setstate__ and save_hdf5/from_hdf5 tables)
+ reflection: every class of the tenpy package that offers HDF5 export must be produced by a generator of
  harness/impl/c17_gen.py (a class without one is a broken correspondence)
+ correspondence: canonical heap (DFS numbering, identity pattern) of what the implementation loaded == canonical form
  of Model/Heap.v's round trip of the original heap, evaluated inside Coq
+ correspondence `pipe-reinit`: LegPipe(legs, qconj, sort, bunch) of the real code -> Hdf5Saver -> the h5py file read raw
  (attrs sorted/bunched/qconj, chinfo, legs, slices/charges) == Model/PipeReinit.v:pipe_save; the pipe rebuilt by
  LegPipe.from_hdf5 and the unpickled pipe (charges, slices, q_map, q_map_slices, _perm, _strides, sorted, bunched, legs,
  qconj) == pipe_load; the constructed pipe == pipe_construct (Model/PipeReinitCheck.v:check_pipe_reinit, vm_compute)
+ oracle: independent deep comparison original <-> loaded (types, values, dtypes, identity pattern both ways; the
  COMPLETE __dict__ of every instance: an attribute present before saving and absent after loading - or the reverse -
  is a difference, only the *values* of the three declared lattice caches are not compared),
  dense-level observations (to_ndarray, qflat, overlaps, MPO.is_equal), interface-level observations of every lattice
  met anywhere in the object (N_sites, Ls, bc_MPS, boundary_conditions, order, segment_first_last read as the segment
  simulations read it, mps2lat_idx / lat2mps_idx, mps_sites, position, pairs, and what the properties reciprocal_basis and
  BZ return: shape and exact values) and test_sanity() of every loaded object,
  for HDF5 in every LegCharge format, pickle and copy.deepcopy.
  Every generator is run once more WRAPPED (the same object referenced from 7 places - dict, general dict, list, tuple, two attributes
  of an instance - inside containers on reference cycles: all references must come back as ONE object of the same type).
+ coverage streams (harness/c17_cover.py): `leaves` - every type Hdf5Saver dispatches on (reflection) x boundary values x {alone, shared,
  on cycles} with a strict oracle (type identity, dtype / byte order, bit patterns, masks and fill values, hard links, documented type tags);
  `api` - documented options of save / load / save_to_hdf5 / load_from_hdf5 / Hdf5Saver / Hdf5Loader (file endings, mode, path, partial
  loading, exclude, ignore_unknown, format_selection, error cases); `reduce` - every position of the pickle-protocol reduce tuple;
  `coverage` - line coverage (sys.monitoring in every runner process) of all functions of hdf5_io.py and all save_hdf5 / from_hdf5 /
  __getstate__ / __setstate__ / __reduce__ of the package: an anchored function / public name / line that is neither reached nor
  classified with a reason is a correspondence failure.
  Segments are generated for every lattice class (lattice_segment:<class> x {finite 0..N-1, infinite enlarge=k,
  defaults, first>0, first=0 and last<N-1}), for models (model_segment), MPS and MPO (first = 0 included).
"""
import os
import re
import sys

import common
from common import CoqRaw
import c17_cover

sys.path.insert(0, os.path.join(common.VERIF, 'translator'))

METHODS = ['hdf5:blocks', 'hdf5:compact', 'hdf5:flat', 'pickle', 'deepcopy']
# generators whose root object has its own __getstate__ / __setstate__ (also used by the shallow copy.copy)
STATE_CLASSES = ('chinfo', 'dipolar_chinfo', 'legcharge', 'legpipe', 'array')

# classes that cannot be instantiated themselves (abstract hooks); covered through every concrete subclass
ABSTRACT = {
    'tenpy.models.model.CouplingMPOModel': 'init_sites/init_terms are abstract; every concrete model derives from it',
    'tenpy.models.mixed_xk.MixedXKModel': 'init_terms is abstract; SpinlessMixedXKSquare/HubbardMixedXKSquare are generated',
}


# ------------------------------------------------------------------------------------------------
# known-defect classification: (generator, method, outcome) -> specific match key
# ------------------------------------------------------------------------------------------------

def classify_error(method, out):
    err, msg, where = out.get('error'), out.get('message', ''), out.get('where', '')
    chain = out.get('where_chain', [])
    hdf5 = method.startswith('hdf5')
    if hdf5 and err == 'TypeError' and 'DipolarChargeInfo.__setstate__() takes 2 positional arguments but 3 were given' in msg \
            and where == 'charges.py:from_hdf5':
        return 'C17:DipolarChargeInfo.from_hdf5:setstate-arity'
    if method == 'hdf5:flat' and err == 'Hdf5ImportError' and "missing attribute 'sorted'" in msg and 'charges.py:from_hdf5' in chain:
        return 'C17:LegPipe.from_hdf5:flat-format-sorted-not-written'
    if method == 'hdf5:flat' and err in ('AssertionError', 'ValueError') and where == 'np_conserved.py:test_sanity' \
            and 'np_conserved.py:from_hdf5' in chain:
        return 'C17:Array.from_hdf5:flat-format-legs-lose-block-structure'
    if hdf5 and err == 'AttributeError' and "'UniformMPS' object has no attribute 'unit_cell_width'" in msg \
            and 'uniform_mps.py:from_hdf5' in chain:
        return 'C17:UniformMPS.from_hdf5:unit_cell_width-not-saved'
    if hdf5 and err == 'AttributeError' and "'HelicalLattice' object has no attribute '_N_cells'" in msg and where == 'lattice.py:_set_Ls':
        return 'C17:HelicalLattice.from_hdf5:_N_cells-used-before-set'
    if hdf5 and err == 'TypeError' and "'NoneType' object is not subscriptable" in msg and where == 'lattice.py:save_hdf5':
        return 'C17:IrregularLattice.save_hdf5:add-is-None'
    # a leg without any block (block_number == 0, e.g. after project() with an all-False mask): blockcharges has shape (0, 2 + qnumber)
    if method == 'hdf5:compact' and err == 'IndexError' and 'index -1 is out of bounds for axis 0 with size 0' in msg and where == 'charges.py:from_hdf5':
        return 'C17:LegCharge.from_hdf5:compact-format-empty-leg'
    return None


def classify_problem(method, p):
    # same root cause as the sanity failure: blocks/block_inds refer to the original blocks, the flat legs have one per index
    if method == 'hdf5:flat' and ('Array.to_ndarray() differs' in p or 'MPO.is_equal' in p or 'MPS overlap' in p):
        return 'C17:Array.from_hdf5:flat-format-legs-lose-block-structure'
    if method.startswith('hdf5') and "attributes of MultiSpeciesLattice: lost ['N_species', 'simple_Lu', 'simple_lattice', 'species_names'], gained []" in p:
        return 'C17:MultiSpeciesLattice:hdf5-drops-species-attributes'
    # (reached only when the UniformMPS inside can be loaded, i.e. once F17.3 is repaired)
    if method.startswith('hdf5') and "attributes of MomentumMPS: lost ['dtype'], gained []" in p:
        return 'C17:MomentumMPS.from_hdf5:dtype-not-set'
    # Ladder.__init__ stores a reciprocal vector embedded in the 2D plotting space; Lattice.from_hdf5 (basis setter) resets the
    # cache and the lazy recomputation for dim == 1 returns shape (1, 1)
    # Lattice.save_hdf5 does not write mps_unit_cell_width, from_hdf5 sets it to Ls[0]: wrong for lat.with_grouped_sites(...) / model.group_sites(n)
    if method.startswith('hdf5') and re.search(r"\.?mps_unit_cell_width: value \d+ became \d+$", p):
        return 'C17:Lattice.from_hdf5:mps_unit_cell_width-not-saved'
    # Config.copy(share_unused=True): the set `unused` is shared by the copy and the original; it is stored as an HDF5 attribute of each
    if method.startswith('hdf5') and re.search(r"\.unused: object shared by reference before saving is a different object after loading \(set\)$", p):
        return 'C17:Config.from_hdf5:shared-unused-set-not-shared'
    if method.startswith('hdf5') and re.search(r"lattice observation reciprocal_basis of Ladder: \('array', \(1, 2\), .* became \('array', \(1, 1\), ", p):
        return 'C17:Ladder.from_hdf5:reciprocal_basis-2d-embedding-lost'
    return None


# ------------------------------------------------------------------------------------------------
# Coq literals of heaps
# ------------------------------------------------------------------------------------------------

def nat(i):
    return '%d%%nat' % i


def coq_node(nd):
    k = nd[0]
    if k == 'L':
        return 'Leaf (%d)%%Z' % nd[1]
    if k in ('l', 't', 's'):
        return '%s [%s]' % ({'l': 'NList', 't': 'NTuple', 's': 'NSet'}[k], '; '.join(nat(c) for c in nd[1]))
    if k == 'd':
        return 'NDict [%s]' % '; '.join('(%s, %s)' % (nat(a), nat(b)) for a, b in nd[1])
    if k == 'O':
        return 'NObj (%d)%%Z [%s]' % (nd[1], '; '.join('((%d)%%Z, %s)' % (a, nat(b)) for a, b in nd[2]))
    raise ValueError(nd)


def coq_heap(nodes):
    return '[' + '; '.join(coq_node(n) for n in nodes) + ']'


def coq_case(shape):
    return '(%s, %s, %s, %s)' % (coq_heap(shape['orig']), nat(shape['orig_root']), coq_heap(shape['loaded']), nat(shape['loaded_root']))


# ------------------------------------------------------------------------------------------------
# random abstract heaps
# ------------------------------------------------------------------------------------------------

LEAF_POOL = [('int', 0), ('int', -7), ('int', 123456789), ('bigint', 2 ** 64 + 5), ('bigint', -2 ** 70), ('float', 2.5),
             ('float', -0.0), ('complex', (1.5, -2.0)), ('str', 'five'), ('str', ''), ('str', 'uni ä'), ('none', None),
             ('bool', True), ('bool', False), ('np', ('int64', -3)), ('np', ('float64', 3.25)), ('np', ('int32', 5)),
             ('np', ('float32', 0.5)), ('npc', ('complex128', 1.0, 2.0)), ('npc', ('complex64', 2.0, -1.0)),
             ('dtype', 'int64'), ('dtype', 'complex128'), ('range', (2, 8, 3)), ('bytes', 'abc')]
STR_KEYS = ['a', 'b', 'c', 'data', 'x1', 'keys', 'values', 'len', 'Zz']
GEN_KEYS = [('int', 1), ('int', -2), ('int', 30), ('str', 'k'), ('str', 'a/b'), ('float', 2.5), ('none', None), ('str', '.')]
ATTR_NAMES = ['a', 'b', 'c', 'data', 'x1', '_hidden']


def gen_heap(rng, allow_tuple_cycles=False):
    n = rng.choice([1, 2, 3, 3, 4, 5, 6, 8, 10])
    kinds = [rng.choice(['l', 'l', 't', 'd', 'd', 'O', 's']) for _ in range(n)]
    if kinds[0] == 's':
        kinds[0] = 'l'
    nodes = [[k] for k in kinds]

    def new_leaf(spec=None):
        nodes.append(['L', list(spec or rng.choice(LEAF_POOL))])
        return len(nodes) - 1

    def pick_child(i, k):
        """child of container i: a fresh leaf or a reference to a container (sharing / cycles / self reference)"""
        if rng.random() < 0.45:
            return new_leaf()
        j = rng.randrange(n)
        if kinds[j] == 's' and rng.random() < 0.5:
            return new_leaf()
        if k == 't' and kinds[j] == 't' and j >= i:     # python builds a tuple from existing tuples only
            return new_leaf()
        return j
    for i, k in enumerate(kinds):
        m = rng.choice([0, 1, 2, 2, 3, 4])
        if k in ('l', 't'):
            nodes[i].append([pick_child(i, k) for _ in range(m)])
        elif k == 's':
            vals = rng.sample([('int', 1), ('int', 2), ('str', 'a'), ('str', 'b'), ('float', 2.5), ('none', None)], min(m, 4))
            nodes[i].append([new_leaf(v) for v in vals])
        elif k == 'd':
            if rng.random() < 0.55:
                keys = [('str', s) for s in rng.sample(STR_KEYS, m)]
            else:
                keys = rng.sample(GEN_KEYS, m)
            nodes[i].append([[new_leaf(kk), pick_child(i, k)] for kk in keys])
        else:
            nodes[i].append(rng.randrange(3))
            nodes[i].append([[a, pick_child(i, k)] for a in rng.sample(ATTR_NAMES, m)])
    return {'nodes': nodes, 'root': 0}


def children_of(nd):
    k = nd[0]
    if k in ('l', 't', 's'):
        return list(nd[1])
    if k == 'd':
        return [a for a, _ in nd[1]] + [b for _, b in nd[1]]
    if k == 'O':
        return [b for _, b in nd[2]]
    return []


def tuple_on_cycle(case):
    nodes = case['nodes']
    for i, nd in enumerate(nodes):
        if nd[0] != 't':
            continue
        seen, todo = set(), list(children_of(nd))
        while todo:
            x = todo.pop()
            if x == i:
                return True
            if x in seen:
                continue
            seen.add(x)
            todo.extend(children_of(nodes[x]))
    return False


def heap_stats(case):
    nodes = case['nodes']
    reach, todo = set(), [case['root']]
    while todo:
        x = todo.pop()
        if x in reach:
            continue
        reach.add(x)
        todo.extend(children_of(nodes[x]))
    indeg = {}
    for x in reach:
        for c in children_of(nodes[x]):
            if nodes[c][0] != 'L':
                indeg[c] = indeg.get(c, 0) + 1
    shared = sum(1 for v in indeg.values() if v > 1)
    # cycle: some container reaches itself

    def reaches_self(i):
        seen, td = set(), list(children_of(nodes[i]))
        while td:
            x = td.pop()
            if x == i:
                return True
            if x in seen:
                continue
            seen.add(x)
            td.extend(children_of(nodes[x]))
        return False
    cyc = any(reaches_self(i) for i in reach if nodes[i][0] != 'L')
    return {'reachable': len(reach), 'shared': shared, 'cyclic': cyc}


FIXED_TUPLE_CYCLES = [
    # t = (l,), l = [t]  saved from t / from l / from an outer list
    {'nodes': [['t', [1]], ['l', [0]]], 'root': 0},
    {'nodes': [['l', [1]], ['t', [0]]], 'root': 0},
    {'nodes': [['l', [1, 1]], ['t', [2]], ['d', [[3, 1]]], ['L', ['str', 'a']]], 'root': 0},
    {'nodes': [['t', [1, 2]], ['l', [0]], ['L', ['int', 5]]], 'root': 0},
]


# ------------------------------------------------------------------------------------------------

def static_tables(ctx):
    """the regenerated tables, evaluated in python as well, to name the known defects among the excepted entries"""
    import importlib
    import export_c17_states
    importlib.reload(export_c17_states)
    st, hd, calls, problems = export_c17_states.analyse(common.REPO)
    for c, f, written, read in hd:
        missing = [x for x in read if x not in written]
        ctx.count('static-tables', ['hdf5', c, f], nontrivial=True)
        if missing:
            key = 'C17:LegPipe.from_hdf5:flat-format-sorted-not-written' if (c, f) == ('LegPipe', 'flat') and \
                set(missing) <= {'@sorted', '@bunched'} else None
            ctx.fail('correspondence', '%s.from_hdf5 reads %s which save_hdf5 (format %r) does not write' % (c, missing, f),
                     {'stream': 'static-tables', 'class': c, 'format': f, 'written': written, 'read': read}, match_key=key)
    for c, m, given, expected in calls:
        ctx.count('static-tables', ['call', c, m], nontrivial=True)
        if given != expected:
            key = 'C17:DipolarChargeInfo.from_hdf5:setstate-arity' if (c, m, given) == ('DipolarChargeInfo', 'from_hdf5', 2) else None
            ctx.fail('correspondence', '%s.%s calls __setstate__ with %d state arguments, %d expected' % (c, m, given, expected),
                     {'stream': 'static-tables', 'class': c, 'method': m}, match_key=key)
    for c, produced, consumed in st:
        ctx.count('static-tables', ['state', c], nontrivial=True, sample={'class': c, 'produced': produced, 'consumed': consumed})
        if produced != consumed:
            ctx.fail('correspondence', '%s.__getstate__ produces %s but __setstate__ consumes %s' % (c, produced, consumed),
                     {'stream': 'static-tables', 'class': c})
    return len(st), len(hd), len(calls)


# ------------------------------------------------------------------------------------------------
# LegPipe re-initialisation: Model/PipeReinit.v <-> LegPipe.save_hdf5 / from_hdf5 / pickle
# ------------------------------------------------------------------------------------------------

PIPE_MODS = [[], [1], [2], [3], [1, 1], [1, 2], [3, 1], [2, 3], [1], [1]]
PIPE_REC_KEYS = ['charges', 'slices', 'q_map', 'q_map_slices', 'perm', 'strides', 'sorted', 'bunched', 'legs', 'qconj']


def gen_pipe_inputs(rng):
    """(mods, legs, qconj): 1..3 legs of 1..3 blocks (sizes 0..2), valid charges, qconj of legs and pipe +-1"""
    mods = rng.choice(PIPE_MODS)
    n = rng.choice([1, 2, 2, 2, 3])
    legs = []
    for _ in range(n):
        b = rng.randint(1, 3)
        ch = [[x if m == 1 else x % m for m, x in zip(mods, [rng.randint(-2, 2) for _ in mods])] for _ in range(b)]
        legs.append([[rng.choice([0, 1, 1, 2, 2]) for _ in range(b)], ch, rng.choice([1, -1])])
    if rng.random() < 0.15:      # single-block legs: fast path of LegPipe.__init__ (sorted = bunched = True whatever the arguments)
        legs = [[l[0][:1], l[1][:1], l[2]] for l in legs]
    return mods, legs, rng.choice([1, -1])


def _zl(xs):
    return '(@nil Z)' if not xs else '[' + '; '.join('(%d)' % x for x in xs) + ']'


def _zll(xss):
    return '(@nil (list Z))' if not xss else '[' + '; '.join(_zl(x) for x in xss) + ']'


def _bl(b):
    assert isinstance(b, bool)
    return 'true' if b else 'false'


def _legs_lit(legs):
    def blocks(sizes, charges):
        assert len(sizes) == len(charges)
        return '(@nil (Z * list Z))' if not sizes else '[' + '; '.join('((%d), %s)' % (sz, _zl(c)) for sz, c in zip(sizes, charges)) + ']'
    if not legs:
        return '(@nil (list (Z * list Z) * Z))'
    return '[' + '; '.join('(%s, (%d))' % (blocks(l[0], l[1]), l[2]) for l in legs) + ']'


def _pipe_rec_lit(r):
    perm = '(@None (list Z))' if r['perm'] is None else '(Some %s)' % _zl(r['perm'])
    return '(%s, %s, %s, %s, %s, %s, %s, %s, %s, (%d))' % (
        _zll(r['charges']), _zl(r['slices']), _zll(r['q_map']), _zl(r['q_map_slices']), perm, _zl(r['strides']),
        _bl(r['sorted']), _bl(r['bunched']), _legs_lit(r['legs']), r['qconj'])


def pipe_reinit_lit(case, x):
    f = x['file']
    file_lit = '(%s, %s, (%d), %s, %s, %s, %s)' % (_bl(f['sorted']), _bl(f['bunched']), f['qconj'], _zl(f['mods']), _legs_lit(f['legs']),
                                                   _zll(f['charges']), _zl(f['slices']))
    return '(%s, %s, (%d), %s, %s, %s, %s, %s, %s)' % (
        _zl(case['mods']), _legs_lit(case['legs']), case['qconj'], _bl(case['sort']), _bl(case['bunch']), file_lit,
        _pipe_rec_lit(x['orig']), _pipe_rec_lit(x['h5']), _pipe_rec_lit(x['pickle']))


def pipe_reinit_stream(ctx, rng, intens, replay, tm):
    """stream `pipe-reinit`: ties Model/PipeReinit.v (attr_sorted / attr_bunched, pipe_save, pipe_load) to the code"""
    import time
    t0 = time.time()
    cases = []
    if replay is not None:
        if replay.get('stream') == 'pipe-reinit':
            cases = [dict(replay['case'])]
    else:
        ninp = ctx.pick(60, 300) * intens
        for i in range(ninp):
            mods, legs, qconj = gen_pipe_inputs(rng)
            for srt in (True, False):
                for bun in (True, False):
                    cases.append({'mods': mods, 'legs': legs, 'qconj': qconj, 'sort': srt, 'bunch': bun,
                                  'format': ['blocks', 'compact'][(i + srt) % 2]})
    if not cases:
        return
    nchunk = min(common.NPROC, 8)
    chunks = [cases[i::nchunk] for i in range(nchunk)]
    res = common.run_impl_parallel('c17_impl.py', [c17_cover.P({'kind': 'pipe_reinit', 'cases': ch}) for ch in chunks if ch], optimize0=True, timeout=600)
    lits, meta = [], []
    hist = {'cases': 0, 'single_block_fast_path': 0, 'qnumber0': 0, 'flags_differ_from_arguments': 0, 'with_perm': 0,
            'saved(sorted,bunched)': {}}
    for ci, (r, err) in enumerate(res):
        if err:
            ctx.fail('correspondence', 'pipe-reinit runner failed: ' + err[-800:], None)
            continue
        for c, x in zip([ch for ch in chunks if ch][ci], r):
            case = {'stream': 'pipe-reinit', 'case': c}
            single = all(len(l[0]) == 1 for l in c['legs'])
            nblocks = 1
            for l in c['legs']:
                nblocks *= len(l[0])
            ctx.count('pipe-reinit', [c['mods'], c['legs'], c['qconj'], c['sort'], c['bunch'], c['format']], nontrivial=nblocks > 1,
                      sample={'case': c, 'file': x.get('file'), 'loaded_sorted_bunched': [x.get('h5', {}).get('sorted'), x.get('h5', {}).get('bunched')]})
            if 'error' in x:
                ctx.fail('correspondence', 'pipe-reinit: LegPipe through HDF5/pickle raised %s: %s [%s]' % (x['error'], x['message'][:200], x['where']), case)
                continue
            hist['cases'] += 1
            hist['single_block_fast_path'] += single
            hist['qnumber0'] += not c['mods']
            hist['flags_differ_from_arguments'] += (x['file']['sorted'], x['file']['bunched']) != (c['sort'], c['bunch'])
            hist['with_perm'] += x['h5']['perm'] is not None
            k = '%s,%s' % (x['file']['sorted'], x['file']['bunched'])
            hist['saved(sorted,bunched)'][k] = hist['saved(sorted,bunched)'].get(k, 0) + 1
            # oracle (property text): the loaded pipe is observationally equal to the saved one, documented attributes + private caches
            for how in ('h5', 'pickle'):
                diff = [a for a in PIPE_REC_KEYS + ['mods', 'nlegs', 'subshape', 'subqshape', 'ind_len', 'block_number'] if x[how][a] != x['orig'][a]]
                if diff:
                    ctx.fail('oracle', 'LegPipe(sort=%s, bunch=%s) through %s (%s): attributes %s of the loaded pipe differ from the saved pipe'
                             % (c['sort'], c['bunch'], how, c['format'], diff), case, match_key='C17:pipe-reinit:%s:differs' % how)
            lits.append(pipe_reinit_lit(c, x))
            meta.append((case, x))
    bad, err = common.coq_failing_indices('pipe_reinit_c17', ['Base.Prelude', 'Model.ChargeL', 'Model.Leg', 'Model.Pipe', 'Model.PipeCase',
                                                              'Model.PipeReinit', 'Model.PipeReinitCheck'], 'check_pipe_reinit', lits, shard=80)
    if err:
        ctx.fail('correspondence', 'pipe-reinit: model evaluation failed: ' + err[-600:], None)
    for b in bad[:5]:
        case, x = meta[b]
        ctx.fail('correspondence', 'Model/PipeReinit.v (pipe_save / pipe_load / pipe_construct) and LegPipe save_hdf5 / from_hdf5 / pickle disagree '
                 '(sort=%s, bunch=%s, format %s): file sorted=%s bunched=%s, loaded sorted=%s bunched=%s'
                 % (case['case']['sort'], case['case']['bunch'], case['case']['format'], x['file']['sorted'], x['file']['bunched'],
                    x['h5']['sorted'], x['h5']['bunched']), dict(case, recorded={k: x[k] for k in ('file', 'orig', 'h5', 'pickle')}))
    hist['model_disagreements'] = len(bad)
    ctx.cov['pipe_reinit_distribution'] = hist
    tm['pipe_reinit'] = round(time.time() - t0, 1)


def main(ctx):
    import time
    rng = ctx.rng
    tm = {}
    t0 = time.time()
    ctx.proof = common.check_proofs('C17', extra_targets=['Model/PipeReinitCheck.vo'])
    tm['proofs'] = round(time.time() - t0, 1)
    ctx.cov['phase_seconds'] = tm
    intens = 1 if ctx.proof.ok else 3
    replay = None
    if ctx.replay_in:           # ./check C17 --replay <file>: rerun exactly the recorded input
        import json
        replay = json.load(open(ctx.replay_in)).get('input') or {}
        intens = 1
    c17_cover.start(ctx, replay)
    try:
        static_tables(ctx)
    except Exception as e:
        ctx.fail('correspondence', 'static table extraction failed: %r' % (e,), None)

    # ---- LegPipe re-initialisation: Model/PipeReinit.v executed against save_hdf5 / from_hdf5 / pickle
    try:
        pipe_reinit_stream(ctx, rng, intens, replay, tm)
    except Exception as e:
        ctx.fail('correspondence', 'pipe-reinit stream crashed: %r' % (e,), None)

    # ---- reflection
    (disc, err), (gl, err2) = common.run_impl_parallel('c17_impl.py', [{'kind': 'discover'}, {'kind': 'list_generators'}])
    if err or err2:
        ctx.fail('correspondence', 'runner failed: ' + (err or err2)[-600:], None)
        return ctx.finish(RULE)
    for e in disc['import_errors']:
        ctx.fail('correspondence', 'module of the package cannot be imported: ' + e, None)
    discovered = disc['classes']
    gens = gl['generators']

    # ---- coverage streams: leaf types by reflection, documented options, pickle-protocol fallback, line coverage table
    try:
        c17_cover.run(ctx, rng, replay, tm)
    except Exception as e:
        import traceback
        ctx.fail('correspondence', 'coverage streams crashed: %r %s' % (e, traceback.format_exc()[-600:]), None)

    # ---- objects
    specs = []
    reps = ctx.pick(1, 3) * intens
    for name in sorted(gens):
        for v in range(gens[name]):
            for rep in range(reps):
                # quick tier: shapes for one HDF5 format and for pickle; thorough: every repetition
                # quick tier: the second variant of every model class skips hdf5:compact and deepcopy (the first has all five)
                light = (not ctx.thorough()) and intens == 1 and name.startswith('model:') and v % 2 == 1
                specs.append({'gen': name, 'args': {'variant': v} if gens[name] > 1 else {}, 'seed': ctx.seed * 1000 + rep * 97 + v,
                              'methods': ['hdf5:blocks', 'hdf5:flat', 'pickle'] if light else METHODS + (['copy'] if name.startswith(STATE_CLASSES) else []),
                              # canonical heaps for the Coq comparison: first repetition; of the five segment modes of every
                              # lattice class the quick tier sends two (the oracle sees all five)
                              'shape': rep == 0 and (ctx.thorough() or not (name.startswith('lattice_segment:') and v >= 2)),
                              'max_nodes': ctx.pick(400, 600),
                              'shape_methods': ctx.pick(['hdf5:blocks', 'pickle'], ['hdf5:blocks', 'hdf5:compact', 'pickle', 'deepcopy'])})
    # every generator also WRAPPED: the same object referenced from 7 places (dict / general dict / list / tuple / instance attributes)
    # inside containers that lie on reference cycles (quick tier: one variant per generator, thorough: every variant)
    byname = {}
    for sp in specs:
        byname.setdefault(sp['gen'], []).append(sp)
    for name in sorted(byname):
        for k, sp in enumerate(byname[name] if ctx.thorough() else [rng.choice(byname[name])]):
            fmt = ['hdf5:blocks', 'hdf5:compact'][(k + len(name)) % 2]
            sp['wrap_methods'] = ctx.pick([fmt, 'pickle'], ['hdf5:blocks', 'hdf5:compact', 'pickle', 'deepcopy'])
    rng.shuffle(specs)
    if replay is not None:
        specs = []
        if replay.get('stream') == 'objects':
            wr = replay['method'].startswith('wrapped+')
            specs = [{'gen': replay['gen'], 'args': replay.get('args', {}), 'seed': replay.get('seed', 0),
                      'methods': [] if wr else [replay['method']], 'wrap_methods': [replay['method'].split('+')[-1]] if wr else [],
                      'shape': True, 'max_nodes': 1500}]
    nchunk = common.NPROC
    chunks = [specs[i::nchunk] for i in range(nchunk)]
    t0 = time.time()
    res = common.run_impl_parallel('c17_impl.py', [c17_cover.P({'kind': 'objects', 'specs': ch}) for ch in chunks if ch], timeout=1500)
    tm['objects'] = round(time.time() - t0, 1)
    covered = set()
    coq_cases, coq_meta = [], []
    hist = {'objects': 0, 'roundtrips': 0, 'with_sharing': 0, 'shape_cases': 0, 'shape_overflow': 0}
    for ci, (r, err) in enumerate(res):
        if err:
            ctx.fail('correspondence', 'objects runner failed: ' + err[-800:], None)
            continue
        for spec, x in zip(chunks[ci], r):
            case0 = {'stream': 'objects', 'gen': spec['gen'], 'args': spec['args'], 'seed': spec['seed']}
            hist['wrapped'] = hist.get('wrapped', 0) + bool(spec.get('wrap_methods'))
            if 'gen_error' in x:
                ctx.fail('correspondence', 'generator %s failed: %s' % (spec['gen'], x['gen_error'][-500:]), case0)
                continue
            hist['objects'] += 1
            ok_methods = 0
            for method_full, o in x['methods'].items():
                case = dict(case0, method=method_full)
                method = method_full.split('+')[-1]
                hist['roundtrips'] += 1
                ctx.count('objects', [spec['gen'], spec['args'], spec['seed'], method_full], nontrivial=o.get('compared', 0) > 1,
                          sample={'gen': spec['gen'], 'args': spec['args'], 'method': method_full, 'root_class': x.get('root_class'),
                                  'values_compared': o.get('compared'), 'shared_references': o.get('shared'),
                                  'test_sanity_calls': o.get('sanity_n'), 'lattices_observed': o.get('lattices')})
                if 'runner_error' in o:
                    ctx.fail('correspondence', 'comparison crashed for %s/%s: %s' % (spec['gen'], method, o['runner_error'][-500:]), case)
                    continue
                if 'error' in o:
                    ctx.fail('oracle', '%s of %s (%s) raised %s: %s [%s]' % (method, x.get('root_class'), spec['gen'], o['error'],
                                                                             o['message'][:200], o['where']),
                             case, match_key=classify_error(method, o) or 'C17:%s:%s:%s' % (spec['gen'], method, o['error']))
                    continue
                bad = False
                for p in o['problems']:
                    bad = True
                    ctx.fail('oracle', '%s of %s (%s): loaded object differs: %s' % (method, x.get('root_class'), spec['gen'], p),
                             case, match_key=classify_problem(method, p) or 'C17:%s:%s:differs' % (spec['gen'], method))
                for p in o['sanity_bad']:
                    bad = True
                    ctx.fail('oracle', '%s of %s (%s): sanity check of the loaded object fails: %s' % (method, x.get('root_class'), spec['gen'], p),
                             case, match_key='C17:%s:%s:sanity' % (spec['gen'], method))
                if o.get('shared', 0) > 0:
                    hist['with_sharing'] += 1
                if not bad:
                    ok_methods += 1
                sh = o.get('shape')
                if sh is not None and not bad:
                    if sh['overflow']:
                        hist['shape_overflow'] += 1
                    else:
                        coq_cases.append(coq_case(sh))
                        coq_meta.append((case, sh))
                        if sh['orig'] != sh['loaded'] or sh['orig_root'] != sh['loaded_root']:
                            ctx.fail('oracle', '%s of %s: canonical heap (identity pattern) of the loaded object differs from the original'
                                     % (method, spec['gen']), case, match_key='C17:%s:%s:shape' % (spec['gen'], method))
            # a class counts as covered when an instance went through at least one HDF5 round trip attempt
            covered.update(x.get('classes', []))
    ctx.cov['input_distribution'] = hist
    for cls in sorted(discovered) if replay is None else []:
        ctx.count('reflection', cls, nontrivial=True)
        if cls in covered:
            continue
        if cls in ABSTRACT:
            subs = [c for c in covered if cls in discovered.get(c, {}).get('bases', [])]
            if subs:
                continue
            ctx.fail('correspondence', 'abstract class %s: no concrete subclass was generated' % cls, {'class': cls})
            continue
        ctx.fail('correspondence', 'class %s offers HDF5 export (found by reflection) but no generator of harness/impl/c17_gen.py '
                 'produces an instance: the property is not checked for it' % cls, {'class': cls})
    ctx.cov['classes_discovered'] = len(discovered)
    ctx.cov['classes_covered'] = len([c for c in discovered if c in covered])

    # ---- graphs: random heaps with sharing and cycles
    ng = ctx.pick(300, 1500) * intens
    gcases = [c['case'] for c in common.corpus_cases('C17') if c.get('stream') == 'graphs']
    gcases += [dict(c) for c in FIXED_TUPLE_CYCLES]
    gcases += [gen_heap(rng) for _ in range(ng)]
    if replay is not None:
        gcases = [dict(replay['case'])] if replay.get('stream') == 'graphs' else []
    for c in gcases:
        c['methods'] = ['hdf5:default', 'pickle', 'deepcopy'] if replay is None else [replay['method']]
        c['tuple_on_cycle'] = tuple_on_cycle(c)
    chunks = [gcases[i::nchunk] for i in range(nchunk)]
    t0 = time.time()
    res = common.run_impl_parallel('c17_impl.py', [c17_cover.P({'kind': 'graphs', 'cases': ch}) for ch in chunks if ch], timeout=1200)
    tm['graphs'] = round(time.time() - t0, 1)
    gh = {'cases': 0, 'cyclic': 0, 'shared': 0, 'tuple_on_cycle': 0}
    for ci, (r, err) in enumerate(res):
        if err:
            ctx.fail('correspondence', 'graphs runner failed: ' + err[-800:], None)
            continue
        for c, x in zip(chunks[ci], r):
            case0 = {'stream': 'graphs', 'case': {'nodes': c['nodes'], 'root': c['root']}}
            if 'build_error' in x:
                ctx.fail('correspondence', 'cannot build graph: ' + x['build_error'][-300:], case0)
                continue
            st = heap_stats(c)
            gh['cases'] += 1
            gh['cyclic'] += st['cyclic']
            gh['shared'] += st['shared'] > 0
            gh['tuple_on_cycle'] += c['tuple_on_cycle']
            for method, o in x.items():
                case = dict(case0, method=method)
                ctx.count('graphs', [c['nodes'], method], nontrivial=st['reachable'] > 1, sample=dict(case, stats=st))
                known = 'C17:Hdf5Loader.load_tuple:tuple-on-cycle' if (c['tuple_on_cycle'] and method.startswith('hdf5')) else None
                if 'runner_error' in o:
                    ctx.fail('correspondence', 'graph comparison crashed: ' + o['runner_error'][-400:], case)
                    continue
                if 'error' in o:
                    ctx.fail('oracle', '%s of a container graph raised %s: %s' % (method, o['error'], o.get('message', '')[:200]),
                             case, match_key=known or 'C17:graphs:%s:%s' % (method, o['error']))
                    continue
                sh = o['shape']
                differs = sh['orig'] != sh['loaded'] or sh['orig_root'] != sh['loaded_root']
                if o['problems'] or differs:
                    ctx.fail('oracle', '%s of a container graph: %s' % (method, '; '.join(o['problems'][:3]) or 'identity pattern differs'),
                             case, match_key=known or 'C17:graphs:%s:differs' % method)
                    continue
                if not sh['overflow'] and (method != 'deepcopy' or ctx.thorough()):
                    coq_cases.append(coq_case(sh))
                    coq_meta.append((case, sh))
    ctx.cov['graph_distribution'] = gh

    # ---- model <-> implementation inside Coq
    hist['shape_cases'] = len(coq_cases)
    t0 = time.time()
    bad, err = common.coq_failing_indices('cases_c17', ['Base.Prelude', 'Model.Heap'], 'check_case', coq_cases, shard=ctx.pick(120, 60))
    tm['coq_cases'] = round(time.time() - t0, 1)
    if err:
        ctx.fail('correspondence', 'model evaluation failed: ' + err[-600:], None)
    for b in bad[:5]:
        case, sh = coq_meta[b]
        ctx.fail('correspondence', 'Model/Heap.v round trip and the implementation disagree on the loaded heap', dict(case, shape=sh))
    ctx.cov['traces_validated_against_impl'] = len(coq_cases)

    # ---- pickle-protocol fallback of the HDF5 saver (F13) and run-time state facts
    (rr, err), (rs, err2) = common.run_impl_parallel('c17_impl.py', [c17_cover.P({'kind': 'reduce'}), c17_cover.P({'kind': 'states'})])
    if err or err2:
        ctx.fail('correspondence', 'reduce/states runner failed: ' + (err or err2)[-600:], None)
    else:
        for name, o in sorted(rr.items()):
            for method in ('hdf5:default', 'pickle'):
                m = o.get(method, {})
                ctx.count('reduce', [name, method], nontrivial=True, sample={'object': name, 'method': method, 'result': m})
                case = {'stream': 'reduce', 'object': name, 'method': method}
                key = None
                if method.startswith('hdf5') and (o.get('has_listitems') or o.get('has_dictitems')):
                    key = 'C17:Hdf5Saver.save_reduce:listitems-dictitems-saved-as-state'
                if method.startswith('hdf5') and name == 'reduce_returns_str':
                    key = 'C17:Hdf5Saver.save:reduce-returns-str:save_global-arity'
                if 'error' in m:
                    ctx.fail('oracle', '%s of %s (pickle-protocol fallback) raised %s: %s' % (method, name, m['error'], m.get('message', '')[:200]),
                             case, match_key=key or 'C17:reduce:%s:%s' % (name, method))
                elif not m.get('equal'):
                    ctx.fail('oracle', '%s of %s: loaded %s, original %s' % (method, name, m.get('loaded'), m.get('orig')),
                             case, match_key=key or 'C17:reduce:%s:%s' % (name, method))
        for name, o in sorted(rs.items()):
            ctx.count('states', name, nontrivial=True, sample=o)
            if not o['setstate_ok']:
                ctx.fail('oracle', '%s.__setstate__(obj.__getstate__()) does not reproduce the object: %s' % (o['class'], o['problems'][:2]),
                         {'stream': 'states', 'class': o['class']})
    try:
        c17_cover.finish(ctx)
    except Exception as e:
        ctx.fail('correspondence', 'coverage table crashed: %r' % (e,), None)
    ctx.assumptions += [
        'C17 model: object graphs abstracted to heaps (leaf values by type+repr/bytes hash; arrays and tuples inside tenpy instances are '
        'values without identity; python/numpy scalars of one kind identified for instance attributes; lazily recomputed lattice caches ignored)',
        'C17 not modelled: the h5py/HDF5 library and pickle themselves, dataset dtype conversions (oracle-checked only); '
        'bytes with embedded NUL and class objects with a metaclass other than `type` are outside the generated inputs',
        'C17 leaves: values h5py itself refuses to store (arrays of dtype object / unicode / datetime, str and bytes with embedded NUL, numpy scalars whose '
        'pickled bytes contain NUL) are not generated: saving fails with the error of h5py, which the format documents as allowed ("provided that the save did '
        'not fail with an error"); bool and np.bool_ share the one documented representation `bool`; the hidden data of a masked array under its mask, '
        'hard_mask / shrink flags and the order of the keys of a dictionary with string keys (HDF5 lists members by name) are not compared; '
        'Hdf5Ignored is by documentation neither saved nor loaded; Config options are assumed to have str keys (Config.warn_unused sorts them)',
        'C17 coverage: lines classified as unreachable for files written by the current saver (branches for files of older tenpy / h5py versions, defensive errors) '
        'are listed with their reason in coverage_table.items; the test_sanity of a loaded object is only required to pass where the saved object passes it',
    ]
    return ctx.finish(RULE, 'T17_* of coq/Props/C17.v (memoised DFS copy of any finite heap is an isomorphism onto the copy: sharing and cycles '
                      'survive; LegCharge encodings; regenerated state/attribute tables) + reflective coverage of every exporting class + '
                      'deep comparison and canonical-heap correspondence of HDF5 (3 leg formats), pickle and deepcopy round trips + '
                      'Model/PipeReinit.v (pipe_save / pipe_load) executed against LegPipe.save_hdf5 (raw file content) / from_hdf5 / pickle')


RULE = ('leaves: every key of Hdf5Saver.dispatch_save / TYPES_FOR_HDF5_DATASETS (reflection) x value space with boundary values (ints around 2^31 / 2^63 / 2^64, '
        '-0.0 / nan / inf / denormal floats, empty / unicode / long strings, arrays of every numeric dtype incl. non-native byte order, 0-d, zero-size, '
        'non-contiguous, structured; masked arrays dtype x mask pattern {nomask, all False, some, all True} x fill_value {default, occurring unmasked, equal '
        'to all data, nan}; one instance of every numpy dtype class incl. swapped byte order, strings, structured, sub-array; containers, ranges, globals) x '
        '{alone at /x, a deep path (and / for groups); shared by 7 references; inside self-referential list / dict / general dict / tuple}: quick tier all values '
        'alone + a stratified sample shared / cycle, thorough all.  api: 6 scenarios of documented options.  coverage: one case per anchored function, '
        'dispatched type, type tag and public name.  '
        'objects: every generator of c17_gen.py (one per exporting class found by reflection, all variants: charge structures, leg styles, '
        'pipes, tensors, all predefined sites, MPS finite/infinite/segment, UniformMPS from_MPS and plain constructor (unit_cell_width != L), MPO, all lattices (HelicalLattice with 1- and 2-site unit cells), segments of all lattices (first = 0: finite 0..N-1, '
        'enlarge=k, defaults; first > 0; last < N-1), segment models / MPS / MPO, all models, terms, errors, configs, container zoo) '
        'x {hdf5 blocks/compact/flat, pickle, deepcopy} + the same object wrapped (7 references, surrounding cycles) x {hdf5 blocks|compact, pickle} '
        '(quick: one variant per generator, thorough: all; boundary instances: legs without blocks, tensors projected to nothing, MPS / MPO with unit_cell_width != L, '
        'grouped sites, explicit_plus_hc, non-canonical forms, grouped models (mps_unit_cell_width != Ls[0]), configs on cycles / sharing a sub-config / sharing `unused`, '
        'results of a simulation run); non-trivial when more than one value was compared; distinct = (generator, variant, seed, method). '
        'graphs: random heaps of 1-10 containers (list/tuple/set/dict simple+general keys/instances) with sharing, self references and cycles x '
        '{hdf5, pickle, deepcopy}; non-trivial when more than one node is reachable.  reflection: one case per discovered class.  '
        'pipe-reinit: random LegPipes (1-3 incoming legs of 1-3 blocks with sizes 0-2, qconj +-1, chinfo none / U(1) / Z_2 / Z_3 / two charges, '
        '15% single-block legs) x all four (sort, bunch) x LegCharge format blocks/compact; non-trivial when the pipe has more than one incoming block tuple.')
