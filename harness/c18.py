"""C18 - results on disk survive a crash; a resumed run equals an uninterrupted one.

proof gate (coq/Props/C18.v: crash model of the result files, protocol model of measurements, the body
of Simulation.save_results regenerated from the source)
 + fault enumeration on the implementation (harness/impl/c18_impl.py, c18_helpers.FaultFS): histories
   (run, crash, resume)* with a crash before every primitive path operation and inside every write,
   each history compared step by step and state by state with the Coq model (vm_compute)
 + the name choice of Simulation.fix_output_filenames (Skip / ValueError / out[_i].ext) on generated directory contents,
   compared with Model/FixNames.v `fix_name` (stream fix-name, checker Model/FixNamesCheck.v)
 + resume equivalence over the simulation options that interact with a resume (stream real-resume-options: engine class, output
   format, group_sites, measure_initial, save_every_x_seconds, save_psi / save_resume_data), with psi.grouped and the lengths of psi
   and model observed after every group_sites_for_algorithm / group_split and compared with Model/ResumeProto.v g_enter / g_split
   (check_group); the grouping guard also called directly on pre-grouped states (stream group-guard); the algorithm_params of these runs
   drawn too (draw_algorithm_params: start_time with a checkpoint exactly at evolved_time == 0.0, complex dt, start_trunc_err, chi_list) and
   the counters of the engine re-created from every checkpoint compared with the resume data of the file (oracle, exact) and with p_resume of
   Model/ResumeProto.v (Model/ResumeProtoCheck.v check_restore); the resume protocol of the engines called directly (stream engine-restore)
 + resume equivalence over the state of the DMRG engine besides psi and the environments (stream real-resume-dmrg, oracle only): mixer
   (active / just deactivated / deactivated at the checkpoint) and convergence history (min_sweeps = sweeps of the last checkpoint)
 + oracles written from the property text (a loadable file of the last completed checkpoint exists after
   every crash; resumed runs finish with the results of the plain run; none lost, none duplicated).
"""
import json
import math
import random

import common
from common import coq_lit, Nat, CoqRaw, Some

K_F11 = 'C18:save_results:resume-with-partial-output:backup-unlinked-before-write'
K_F12 = 'C18:TimeEvolutionAlgorithm.get_resume_data:trunc_err-not-restored'
K_F18 = 'C18:DMRGEngine.is_converged:IndexError-on-empty-sweep_stats-after-resume'
K_F18_2 = 'C18:DMRGEngine.is_converged:nan-Delta_E-after-resume-at-min_sweeps:extra-sweeps'
K_F18_3 = 'C18:DMRGEngine.run_iteration:ValueError-entropy-of-nondiagonal-S-after-resume-with-mixer'
K_F18_4 = 'C18:IterativeSweeps.pre_run_initialize:mixer-reactivated-on-resume'

IMPORTS = ['Base.Prelude', 'Model.Fs', 'Model.ResumeProto']
RESTORE_IMPORTS = ['Base.Prelude', 'Model.ResumeProto', 'Model.ResumeProtoCheck']


# ----------------------------------------------------------------------------------------------
# Coq literals
# ----------------------------------------------------------------------------------------------

class Unrepresentable(Exception):
    pass


def c_fname(n):
    if n == 'out':
        return 'Out'
    if n == 'bak':
        return 'Bak'
    raise Unrepresentable('operation on an unexpected file %r' % (n,))


def c_fstate(x):
    if x[0] == 'A':
        return 'Absent'
    if x[0] == 'M':
        return 'Marker'
    if x[0] == 'P':
        return '(Partial 0%nat)'      # the model's comparison ignores which write was torn
    return '(%s %d%%nat)' % ('Partial' if x[0] == 'P' else 'Complete', x[1])


def c_fs(d):
    return '(mkFs %s %s)' % (c_fstate(d['out']), c_fstate(d['bak']))


def c_op(o):
    if o[0] == 'E':
        return '(OpExists %s %s)' % (c_fname(o[1]), 'true' if o[2] else 'false')
    if o[0] == 'U':
        return '(OpUnlink %s)' % c_fname(o[1])
    if o[0] == 'R':
        return '(OpRename %s %s)' % (c_fname(o[1]), c_fname(o[2]))
    if o[0] == 'W':
        return '(OpWrite %s %d%%nat)' % (c_fname(o[1]), o[2])
    if o[0] == 'M':
        return '(OpMarker %s)' % c_fname(o[1])
    raise Unrepresentable('unknown op %r' % (o,))


def c_ops(ops):
    return '[' + '; '.join(c_op(o) for o in ops) + ']'


def c_crash(h):
    return 'None' if h is None else '(Some (%d%%nat, %s))' % (h[0], 'true' if h[1] else 'false')


def history_literal(rec, safe, nsteps):
    segs = []
    for h, sg in zip(rec['hist'], rec['segs']):
        if sg['outcome'] == 'skip' and not sg['ops']:
            continue        # the loaded file is a finished run: resume_from_checkpoint refuses before touching anything
        if sg.get('extra'):
            raise Unrepresentable('unexpected files in the directory: %r' % (sg['extra'],))
        if sg['loaded'] is None:
            ld, k0 = 'None', 0
        else:
            ld, k0 = '(Some (%s, %d%%nat))' % (c_fname(sg['loaded'][0]), sg['loaded'][1]), sg['loaded'][1]
        segs.append('(mkSeg %s %d%%nat %s %s %s)' % (ld, nsteps + 1 - k0, c_crash(h), c_ops(sg['ops']), c_fs(sg['disk'])))
    return '(%s, [%s])' % ('true' if safe else 'false', '; '.join(segs))


# ----------------------------------------------------------------------------------------------
# oracle for histories (from the property text, independent of the model)
# ----------------------------------------------------------------------------------------------

def history_oracle(rec, nsteps):
    """Returns list of (what, match_key)."""
    bad = []
    completed = 0
    segs = rec['segs']
    for i, sg in enumerate(segs):
        oc = sg['outcome']
        if oc.startswith('error'):
            bad.append(('segment %d raised instead of running: %s' % (i, oc[:300]), 'C18:history:exception'))
        if oc == 'skip' and not (sg['loaded'] and sg['loaded'][1] == nsteps + 1):
            bad.append(('segment %d skipped although the loaded checkpoint is not a finished run' % i, 'C18:history:skip'))
        done_here = [o[2] for o in sg['ops'] if o[0] == 'W']
        completed = max([completed] + done_here)
        disk = sg['disk']
        comp = [v[1] for v in disk.values() if v[0] == 'C']
        if completed >= 1 and completed not in comp:
            part = [n for n, v in disk.items() if v[0] == 'P']
            what = ('after the crash of segment %d (history %s) the last completed checkpoint %d is not loadable: disk = %s%s'
                    % (i, rec['hist'], completed, disk, ' - only partial file(s) left' if part and not comp else ''))
            f11 = (i >= 1 and sg['loaded'] is not None and sg['loaded'][0] == 'bak' and segs[i - 1]['disk']['out'][0] == 'P'
                   and not done_here and not comp)
            bad.append((what, K_F11 if f11 else 'C18:history:checkpoint-lost'))
    if 'final' in rec:
        f = rec['final']
        exp_steps = list(range(nsteps + 1)) + [nsteps]
        if not f['finished']:
            bad.append(('run returned but finished_run is False', 'C18:history:not-finished'))
        if f['step'] != exp_steps or f['measurement_index'] != list(range(nsteps + 2)) or f['lens'] != [nsteps + 2]:
            bad.append(('measurements after history %s: step=%s index=%s lengths=%s, uninterrupted run gives step=%s (none lost, none duplicated)'
                        % (rec['hist'], f['step'], f['measurement_index'], f['lens'], exp_steps), 'C18:history:measurements'))
        last = segs[-1]['disk']
        if last['out'] != ['C', nsteps + 1] or last['bak'] != ['A']:
            bad.append(('after a finished run the disk is %s (expected the finished results and no backup)' % last,
                        'C18:history:final-disk'))
    return bad


def eval_histories(ctx, stream, recs, safe, nsteps, fmt, coq_cases, coq_meta):
    for rec in recs:
        case = {'stream': stream, 'fmt': fmt, 'safe': safe, 'nsteps': nsteps, 'hist': rec['hist']}
        depth = len(rec['hist'])
        crashed_inside = any(h is not None and h[1] for h in rec['hist'])
        ctx.count(stream, [fmt, safe, nsteps, rec['hist']], nontrivial=depth >= 2 or crashed_inside,
                  sample={'hist': rec['hist'], 'disk': [s['disk'] for s in rec['segs']]})
        if safe:
            for what, key in history_oracle(rec, nsteps):
                ctx.fail('oracle', what, dict(case, observed=rec['segs']), match_key=key)
        try:
            coq_cases.append(history_literal(rec, safe, nsteps))
            coq_meta.append(dict(case, observed=rec['segs']))
        except Unrepresentable as e:
            ctx.fail('correspondence', 'history not representable in the model: %s' % e, dict(case, observed=rec['segs']))


# ----------------------------------------------------------------------------------------------
# real simulations
# ----------------------------------------------------------------------------------------------

def close(a, b, tol):
    if isinstance(a, dict) and isinstance(b, dict):
        return a.keys() == b.keys() and all(close(a[k], b[k], tol) for k in a)
    if isinstance(a, list) and isinstance(b, list):
        return len(a) == len(b) and all(close(x, y, tol) for x, y in zip(a, b))
    if isinstance(a, (int, float)) and isinstance(b, (int, float)):
        return abs(a - b) <= tol * max(1., abs(a), abs(b))
    return a == b


def group_stack(before):
    """grouping stack of a psi as run()/resume_run() meets it: ungrouped or grouped once (checkpoint)."""
    return [] if before == 1 else [before]


def group_literal(loaded, gs, stack, enter, split):
    """Coq literal of Model/ResumeProto.v check_group for one observed group_sites_for_algorithm (+ group_split)."""
    return coq_lit((bool(loaded), Nat(gs), [Nat(x) for x in stack] or CoqRaw('(@nil nat)'), (Nat(enter['L_psi']), Nat(enter['L_model'])),
                    (Nat(enter['after']), Nat(enter['L_psi_after']), Nat(enter['L_model_after'])),
                    None if split is None else Some(Nat(split['after']))))


def group_events(ctx, what, events, gs_opt, loaded, case, coq_group, meta_group):
    """Oracle + model case for the grouping events of one process life time (fresh run or resume).
    Oracle (docs of the option group_sites: psi and model are coarse-grained by group_sites for the algorithm and
    split again at the end): after group_sites_for_algorithm psi and model have the same length, psi.grouped ==
    group_sites; after group_split psi is ungrouped."""
    enters = [e for e in events if e['what'] == 'enter']
    splits = [e for e in events if e['what'] == 'split']
    probs = []
    if len(enters) != 1:
        probs.append('%d calls of group_sites_for_algorithm' % len(enters))
    for e in enters:
        if e['loaded'] != loaded or e['gs'] != gs_opt:
            probs.append('group_sites_for_algorithm ran with loaded_from_checkpoint=%s group_sites=%s' % (e['loaded'], e['gs']))
        if e['after'] != gs_opt or e['L_psi_after'] != e['L_model_after']:
            probs.append('after group_sites_for_algorithm (loaded_from_checkpoint=%s, group_sites=%d, psi.grouped before=%d): '
                         'psi.grouped=%d, psi.L=%d but the model has %d sites'
                         % (e['loaded'], gs_opt, e['before'], e['after'], e['L_psi_after'], e['L_model_after']))
    for e in splits:
        if e['after'] != 1 or e['sim_grouped'] != 1:
            probs.append('after group_split psi.grouped=%d, sim.grouped=%d' % (e['after'], e['sim_grouped']))
    if probs:
        ctx.fail('oracle', '%s: ' % what + '; '.join(probs)[:700], dict(case, group_events=events), match_key='C18:real:grouping')
    if len(enters) == 1:
        coq_group.append(group_literal(loaded, gs_opt, group_stack(enters[0]['before']), enters[0], splits[0] if splits else None))
        meta_group.append(dict(case, group_events=events))


def re_of(t):
    """real part of a time as the runner returns it: float | {'re': .., 'im': ..} | [re, im]"""
    if isinstance(t, dict):
        return float(t['re'])
    if isinstance(t, list):
        return float(t[0])
    return float(t)


def time_list(v):
    """the measured times as a list: the runner returns a complex array as {'re': [..], 'im': [..]}"""
    if isinstance(v, dict):
        return [[a, b] for a, b in zip(v['re'], v['im'])]
    return list(v)


def restored_counters(ctx, rec, case, spec, minit, units, restores):
    """Oracle + model case for the counters an engine is re-created with (what 'resuming from a checkpoint' means for the
    algorithm state): evolved_time / sweeps / trunc_err / number of sweep_stats entries of the engine right after
    Simulation.init_algorithm of the resumed process == the values stored in resume_data of the loaded file (exactly,
    whatever the values are: 0, 0.0, empty, equal to a default or not); the resumed simulation starts with the records
    of the file."""
    cc, ei = rec.get('ckpt_counters'), rec.get('engine_init') or []
    if cc is None or not ei:
        return                      # no resume data in the file / the resume failed before the engine existed
    e = ei[0]
    diffs = ['%s = %s, the checkpoint holds %s' % (k, e.get(k), cc[k]) for k in sorted(cc) if e.get(k) != cc[k]]
    if len(ei) != 1:
        diffs.append('%d engines created during the resume' % len(ei))
    if e.get('n_records') != rec['ckpt_measurements']:
        diffs.append('the resumed simulation starts with %s measurement records, the file holds %d' % (e.get('n_records'), rec['ckpt_measurements']))
    if not e.get('loaded'):
        diffs.append('loaded_from_checkpoint is False')
    if diffs:
        ctx.fail('oracle', 'engine %s re-created from checkpoint %d (%s; algorithm options start_time=%s, start_trunc_err=%s): '
                 % (spec['alg'], rec['at'], rec['mode'], spec.get('start_time'), spec.get('start_trunc_err')) + '; '.join(diffs)[:600],
                 dict(case, ckpt_counters=cc, engine_init=ei), match_key='C18:real:restored-counter')
    tk = 'evolved_time' if 'evolved_time' in cc else 'sweeps'
    k_snap = rec['ckpt_measurements'] - (1 if minit else 0) - 1
    if tk in cc and tk in e and k_snap >= 0:
        sv, rv = (units(cc[tk]), units(e[tk])) if tk == 'evolved_time' else (cc[tk], e[tk])
        if min(sv, rv) < 0 or max(sv, rv) >= 5000:
            ctx.fail('correspondence', '%s of the checkpoint / the re-created engine (%s / %s) lies before the start of the run: not a time of the model'
                     % (tk, cc[tk], e[tk]), dict(case, ckpt_counters=cc, engine_init=ei))
        else:
            restores.append((Nat(k_snap), Nat(sv), Nat(rv), Nat(int(e.get('n_records') or 0))))


def real_oracle(ctx, out, coq_cases, coq_meta, coq_group=None, meta_group=None, coq_restore=None, meta_restore=None):
    coq_group = [] if coq_group is None else coq_group
    meta_group = [] if meta_group is None else meta_group
    spec = out['spec']
    stream = spec.get('stream', 'real-resume')
    is_te = spec['sim'] == 'RealTimeEvolution'
    sp = spec.get('sim_params', {})
    minit = bool(sp.get('measure_initial', True))
    gs_opt = int(sp.get('group_sites', 1))
    save_psi = bool(sp.get('save_psi', True))
    resumable = save_psi or bool(sp.get('save_resume_data', save_psi))
    plain = out['plain']
    pm = plain['measurements'] = {k: time_list(v) for k, v in plain['measurements'].items()}
    nrec = len(pm['measurement_index'])
    base = {'stream': stream, 'spec': spec}
    if not out['plain_file_equal'] or not plain['finished']:
        ctx.fail('oracle', 'plain run: file on disk differs from the returned results / not finished', base, match_key='C18:real:plain')
    if plain.get('has_psi') != save_psi or (save_psi and abs(out.get('plain_file_overlap', 0) - 1) > 1e-9):
        ctx.fail('oracle', 'plain run: save_psi=%s but results %s psi (overlap of the saved psi with the final state: %r)'
                 % (save_psi, 'contain' if plain.get('has_psi') else 'do not contain', out.get('plain_file_overlap')),
                 base, match_key='C18:real:plain-psi')
    if pm['measurement_index'] != list(range(nrec)):
        ctx.fail('oracle', 'plain run: measurement_index %s' % pm['measurement_index'], base, match_key='C18:real:plain-index')
    if plain.get('psi_grouped', 1) != 1:
        ctx.fail('oracle', 'plain run: final state has psi.grouped = %s' % plain.get('psi_grouped'), base, match_key='C18:real:grouping')
    group_events(ctx, 'plain run', plain.get('group', []), gs_opt, False, dict(base, at=None), coq_group, meta_group)
    tkey = 'evolved_time' if is_te else 'sweeps'
    # model time = number of time steps since the option start_time (real parts; Model/ResumeProto.v starts its clock at 0)
    unit = re_of(spec.get('dt', 0.05)) if is_te else 1
    t0 = float(spec.get('start_time', 0.)) if is_te else 0
    units = lambda t: int(round((re_of(t) - t0) / unit))  # noqa: E731
    ptimes = [units(t) for t in time_list(pm[tkey])]
    ints = []
    restores = []
    # the engine of the uninterrupted run starts from the documented initial values of its counters
    pe = plain.get('engine_init') or []
    exp0 = ({'evolved_time': [t0, 0.], 'trunc_err': [float(x) for x in spec.get('start_trunc_err', [0., 1.])]} if is_te
            else {'sweeps': 0, 'n_sweep_stats': [0]})
    if len(pe) != 1 or any(pe[0].get(k) != v for k, v in exp0.items()) or pe[0].get('loaded'):
        ctx.fail('oracle', 'plain run: the engine starts with %s, expected %s (options start_time / start_trunc_err; a fresh engine)'
                 % (pe, exp0), base, match_key='C18:real:plain-engine')
    for rec in out['interrupted']:
        c, mode = rec['at'], rec['mode']
        case = dict(base, at=c, mode=mode)
        ctx.count(stream, [spec, c, mode], nontrivial=True,
                  sample={'spec': spec, 'at': c, 'mode': mode, 'disk': rec.get('disk'), 'loaded': rec.get('loaded')})
        # the property: the file of the last COMPLETED save must be loadable (saves = number of measurement records the
        # results held at each completed save_results call of the interrupted process); with save_every_x_seconds = 0
        # a save happens at every checkpoint: c-th checkpoint <-> initial record + one record per checkpoint
        saves = rec.get('saves', [])
        if 'error' in rec and 'ckpt_measurements' not in rec:
            ctx.fail('oracle', rec['error'][:400], case, match_key='C18:real:interrupt')
            continue
        if not spec.get('clock') and sp.get('save_every_x_seconds', 0.) == 0.:
            exp_saves = [(1 if minit else 0) + i for i in range(1, (c if mode == 'listener' else c - 1) + 1)]
            if saves != exp_saves:
                ctx.fail('oracle', 'save_every_x_seconds=0: completed saves before the stop at checkpoint %d (%s) held %s records, '
                         'expected %s' % (c, mode, saves, exp_saves), case, match_key='C18:real:save-schedule')
        if rec.get('loaded') is None:
            if saves:
                ctx.fail('oracle', 'no loadable file after stopping at checkpoint %d (%s) although %d save(s) had completed: disk %s'
                         % (c, mode, len(saves), rec['disk']), case, match_key='C18:real:checkpoint-lost')
            continue
        if not saves or rec['ckpt_measurements'] != saves[-1]:
            ctx.fail('oracle', 'file loaded after stopping at checkpoint %d (%s) holds %d measurement records, the last completed '
                     'save held %s' % (c, mode, rec['ckpt_measurements'], saves[-1:] or 'none'), case, match_key='C18:real:stale-checkpoint')
        group_events(ctx, 'interrupted run', rec.get('group_first', []), gs_opt, False, case, [], [])
        if not resumable:
            # neither psi nor resume data in the file: the documented refusal, and the files stay as they are
            e = rec.get('error', '')
            if "ValueError: psi not saved in the results: can't resume!" not in e:
                ctx.fail('oracle', 'save_psi=False, save_resume_data=False: resume did not refuse with the documented ValueError: %s'
                         % (e[:300] or 'it finished'), case, match_key='C18:real:resume-without-state')
            continue
        restored_counters(ctx, rec, case, spec, minit, units, restores)
        if 'error' in rec:
            e = rec['error']
            key = 'C18:real:resume-raises'
            if (spec['sim'] == 'GroundStateSearch' and 'IndexError' in e and 'is_converged' in e and "sweep_stats['E'][-1]" in e):
                key = K_F18
            if (spec['sim'] == 'GroundStateSearch' and spec.get('mixer') and 'ValueError: entropy with non-diagonal schmidt values' in e
                    and 'S_old = np.mean(self.psi.entanglement_entropy())' in e):
                # the checkpoint was written while (or right after) a mixer was active: its psi has non-diagonal Schmidt values,
                # and the resumed engine treats its first iteration as the first of the run (sweep_stats is empty)
                key = K_F18_3
            ctx.fail('oracle', 'resume from checkpoint %d (%s) of %s/%s (%s): %s' % (c, mode, spec['sim'], spec['alg'], sp, e[:300]),
                     dict(case, group_events=rec.get('group_resume')), match_key=key)
            group_events(ctx, 'resumed run', rec.get('group_resume', []), gs_opt, True, case, coq_group, meta_group)
            continue
        group_events(ctx, 'resumed run', rec.get('group_resume', []), gs_opt, True, case, coq_group, meta_group)
        exp_records = rec['ckpt_measurements']
        rs = rec['resumed']
        rm = rs['measurements'] = {k: time_list(v) for k, v in rs['measurements'].items()}
        probs = []
        vprobs = []         # differences of values only (same number of records): energy, state, measured numbers
        if not rs['finished']:
            probs.append('resumed run not finished')
        if 'energy' in plain and abs(plain['energy'] - rs.get('energy', 1e99)) > 1e-10 * max(1, abs(plain['energy'])):
            vprobs.append('final energy %.15g, plain run %.15g' % (rs.get('energy', float('nan')), plain['energy']))
        if rec['overlap'] is None or abs(rec['overlap'] - 1) > 1e-9 or abs(rec['norm_ratio'] - 1) > 1e-9:
            vprobs.append('final state differs: |<plain|resumed>| = %r, norm ratio %r' % (rec['overlap'], rec['norm_ratio']))
        if rs.get('psi_grouped', 1) != 1 or rs.get('psi_L') != plain.get('psi_L'):
            probs.append('final state has psi.grouped=%s, L=%s (plain run: 1, %s)' % (rs.get('psi_grouped'), rs.get('psi_L'), plain.get('psi_L')))
        if rs.get('has_psi') != save_psi:
            probs.append('save_psi=%s but the results %s psi' % (save_psi, 'contain' if rs.get('has_psi') else 'do not contain'))
        elif save_psi and abs(rec.get('file_overlap', 0) - 1) > 1e-9:
            vprobs.append('overlap of the psi in the file with the plain final state %r' % (rec.get('file_overlap'),))
        if sorted(rm) != sorted(pm):
            probs.append('measurement keys %s, plain run %s' % (sorted(rm), sorted(pm)))
        if not rec.get('file_equal') or rec['disk_after']['out'][0] != 'C' or rec['disk_after']['bak'] != ['A']:
            probs.append('file written by the resumed run differs from its results / backup left: %s' % rec['disk_after'])
        f12 = []
        for k in sorted(set(rm) & set(pm)):
            if len(rm[k]) != len(pm[k]):
                probs.append('%s: %d records, plain run %d (lost or duplicated)' % (k, len(rm[k]), len(pm[k])))
            elif not close(rm[k], pm[k], 1e-9):
                i0 = exp_records - 1     # index of the last record contained in the loaded checkpoint
                if is_te and k == 'eps_error' and close(rm[k], [v if i <= i0 else v - pm[k][i0] for i, v in enumerate(pm[k])], 1e-9):
                    f12.append(k)
                elif is_te and k == 'ov_error' and close(rm[k], [v if i <= i0 else v / pm[k][i0] for i, v in enumerate(pm[k])], 1e-9):
                    f12.append(k)
                else:
                    vprobs.append('%s: %s, plain run %s' % (k, rm[k], pm[k]))
        # attribution of a difference to the state of the DMRG engine that is not carried across the resume (observed at the
        # start of every optimizing sweep: sweeps done, active mixer [class, amplitude] | None, entries of sweep_stats)
        key, why = 'C18:real:resumed-differs', ''
        ptrace = {t[0]: t for t in plain.get('sweep_trace', [])}
        rtrace = rec.get('sweep_trace', [])
        if spec['sim'] == 'GroundStateSearch' and rtrace and (probs or vprobs):
            mixdiff = [(t[0], t[1], ptrace[t[0]][1]) for t in rtrace if t[0] in ptrace and not close(t[1], ptrace[t[0]][1], 1e-12)]
            min_sw = out.get('min_sweeps', spec.get('alg_params', {}).get('min_sweeps'))
            if mixdiff and not probs and spec.get('mixer') and rtrace[0][0] > 0 and ptrace.get(0, [0, None])[1] is not None \
                    and close(rtrace[0][1], ptrace[0][1], 1e-12):
                # only numbers differ, and the resumed engine starts its first sweep with the mixer of sweep 0
                key = K_F18_4
                why = (' [the resumed engine starts sweep %d with the mixer %s of sweep 0, the uninterrupted run does that sweep with %s]'
                       % (mixdiff[0][0], mixdiff[0][1], mixdiff[0][2]))
            elif (not mixdiff and min_sw is not None and rec.get('ckpt_sweeps') == min_sw and rtrace[0][0] == min_sw and rtrace[0][2] == 0
                  and ptrace and rtrace[-1][0] > max(ptrace)):
                # resumed with exactly min_sweeps sweeps done and an empty sweep_stats: Delta_E of the next sweep is nan, the
                # convergence test that stops the uninterrupted run fails, the resumed run goes on sweeping
                key = K_F18_2
                why = (' [resumed at sweeps = min_sweeps = %d with empty sweep_stats: it optimizes sweeps %s, the uninterrupted run stops after sweep %d]'
                       % (min_sw, [t[0] + 1 for t in rtrace], max(ptrace) + 1))
        if probs or vprobs:
            ctx.fail('oracle', 'stopped at checkpoint %d (%s) and resumed %s/%s (%s, %s): ' % (c, mode, spec['sim'], spec['alg'], spec['fmt'], sp)
                     + '; '.join(probs + vprobs)[:900] + why, dict(case, resumed=rs, plain=plain, sweep_trace=rtrace), match_key=key)
        if f12:
            ctx.fail('oracle', 'stopped at checkpoint %d and resumed %s: %s restart from the initial truncation error '
                     '(resumed %s, plain %s)' % (c, spec['alg'], '/'.join(f12), rm[f12[0]], pm[f12[0]]),
                     dict(case, resumed=rm[f12[0]], plain=pm[f12[0]]), match_key=K_F12)
        if tkey in rm:
            # index of the snapshot the loaded file holds = number of its records made at checkpoints - 1
            k_snap = rec['ckpt_measurements'] - (1 if minit else 0) - 1
            ck_g = [g for g in rec.get('ckpt_psi_grouped', []) if g is not None]
            if k_snap >= 0 and ck_g and len(set(ck_g)) == 1:
                rtimes = time_list(rm[tkey])
                if not rtimes or min(units(t) for t in rtimes) < 0 or max(units(t) for t in rtimes) >= 5000:
                    ctx.fail('correspondence', 'resumed run measured at %s %s before the start of the run (%s): not a time of the model'
                             % (tkey, rm[tkey], t0), case)
                    continue
                ints.append(((Nat(k_snap), Nat(ck_g[0])), [Nat(units(t)) for t in rtimes], Nat(rs.get('psi_grouped', 1))))
            elif len(set(ck_g)) > 1:
                ctx.fail('oracle', "results['psi'] and resume_data['psi'] of the checkpoint have different grouping %s" % ck_g, case,
                         match_key='C18:real:grouping')
    # the loop runs while evolved_time < final_time: final_time need not be a multiple of the time step
    T = int(math.ceil((spec.get('final_time', 0.4) - t0) / unit - 1.e-6)) if is_te else spec.get('max_sweeps', 3)
    N = spec.get('N_steps', 2) if is_te else spec.get('N_sweeps_check', 1)
    if spec.get('protocol_model', True) and restores and coq_restore is not None:
        coq_restore.append(coq_lit((is_te, Nat(T), Nat(N), minit, Nat(gs_opt), restores)))
        meta_restore.append(dict(base, restores=[[x.v for x in r] for r in restores],
                                 restores_are='(snapshot index, counter in the file, counter of the re-created engine, records) in model units'))
    if spec.get('protocol_model', True):
        coq_cases.append(coq_lit((is_te, Nat(T), Nat(N), minit, Nat(gs_opt), [Nat(t) for t in ptimes], Nat(plain.get('psi_grouped', 1)),
                                  [((k, t), g) for (k, t, g) in ints])))
        coq_meta.append(dict(base, plain_times=ptimes))


def real_specs(ctx):
    rng = ctx.rng
    specs = []
    fmts = ['pkl', 'h5']
    # ground-state searches: stop by max_sweeps (the convergence criterion is never consulted)
    for i, alg in enumerate(['TwoSiteDMRGEngine', 'SingleSiteDMRGEngine']):
        specs.append({'sim': 'GroundStateSearch', 'alg': alg, 'fmt': fmts[i % 2], 'L': rng.choice([4, 6]),
                      'chi': rng.choice([3, 4, 6]), 'max_sweeps': rng.choice([2, 3]), 'N_sweeps_check': 1})
    specs.append({'sim': 'GroundStateSearch', 'alg': 'TwoSiteDMRGEngine', 'fmt': 'pkl', 'L': 4, 'chi': 4, 'max_sweeps': 4,
                  'N_sweeps_check': 2, 'model': 'TFIChain', 'model_params': {'g': 1.3}})
    # ground-state search with the default stopping criterion (min_sweeps default): convergence decides
    specs.append({'sim': 'GroundStateSearch', 'alg': 'TwoSiteDMRGEngine', 'fmt': 'pkl', 'L': 6, 'chi': 6, 'max_sweeps': 20,
                  'alg_params': {'min_sweeps': 1, 'max_E_err': 1.e-8, 'max_S_err': 1.e-4}, 'protocol_model': False})
    # time evolutions
    specs.append({'sim': 'RealTimeEvolution', 'alg': 'TEBDEngine', 'fmt': 'h5', 'L': rng.choice([4, 6]), 'chi': 3,
                  'dt': 0.1, 'N_steps': 2, 'final_time': 0.6, 'order': 2})
    specs.append({'sim': 'RealTimeEvolution', 'alg': 'TEBDEngine', 'fmt': 'pkl', 'L': 6, 'chi': rng.choice([2, 3]),
                  'dt': 0.05, 'N_steps': rng.choice([1, 3]), 'final_time': 0.3, 'order': 4})
    specs.append({'sim': 'RealTimeEvolution', 'alg': 'TwoSiteTDVPEngine', 'fmt': 'pkl', 'L': 6, 'chi': 3,
                  'dt': 0.1, 'N_steps': 1, 'final_time': 0.4})
    specs.append({'sim': 'RealTimeEvolution', 'alg': 'SingleSiteTDVPEngine', 'fmt': 'h5', 'L': 4, 'chi': 4,
                  'dt': 0.1, 'N_steps': 2, 'final_time': 0.5})
    if ctx.thorough():
        for alg in ['TwoSiteDMRGEngine', 'SingleSiteDMRGEngine']:
            for fmt in fmts:
                specs.append({'sim': 'GroundStateSearch', 'alg': alg, 'fmt': fmt, 'L': rng.choice([4, 6, 8]),
                              'chi': rng.choice([2, 4, 8]), 'max_sweeps': rng.choice([3, 5]), 'N_sweeps_check': rng.choice([1, 2])})
        for alg in ['TEBDEngine', 'TwoSiteTDVPEngine', 'SingleSiteTDVPEngine', 'ExpMPOEvolution']:
            for fmt in fmts:
                specs.append({'sim': 'RealTimeEvolution', 'alg': alg, 'fmt': fmt, 'L': rng.choice([4, 6]),
                              'chi': rng.choice([2, 3, 4]), 'dt': 0.05, 'N_steps': rng.choice([1, 2, 3]),
                              'final_time': rng.choice([0.3, 0.35, 0.5]),
                              'alg_params': {'compression_method': 'SVD'} if alg == 'ExpMPOEvolution' else {}})
    return specs


def option_specs(ctx):
    """Resume-equivalence over the simulation options that interact with a resume (stream real-resume-options):
    simulation/algorithm class x output format x group_sites in {1,2} (+ group_to_NearestNeighborModel for TEBD) x
    measure_initial x save at every checkpoint / every few checkpoints (save_every_x_seconds > 0 under a deterministic
    clock, incl. its adaptive increase) x (save_psi, save_resume_data) in {(T,T), (F,T), (F,F)}.  Not drawn:
    save_psi=True with save_resume_data=False (the file then lacks the algorithm's state - evolved time / sweep counter -
    and tenpy restarts the algorithm from the stored psi: outside 'resuming from a checkpoint')."""
    rng = ctx.rng
    algs = [('RealTimeEvolution', 'TEBDEngine'), ('GroundStateSearch', 'TwoSiteDMRGEngine'), ('RealTimeEvolution', 'TwoSiteTDVPEngine'),
            ('GroundStateSearch', 'SingleSiteDMRGEngine'), ('RealTimeEvolution', 'SingleSiteTDVPEngine'),
            ('RealTimeEvolution', 'ExpMPOEvolution'), ('RealTimeEvolution', 'TEBDEngine')]
    rng.shuffle(algs)
    n = 6
    if ctx.thorough() or not ctx.proof.ok:      # a broken proof obligation: search more of the option space
        more = list(algs)
        rng.shuffle(more)
        algs = algs + more
        n = len(algs)
    specs = []
    for i, (sim, alg) in enumerate(algs[:n]):
        gs = 2 if (i % 3 != 2) else 1                       # two of three specs use grouping
        is_te = sim == 'RealTimeEvolution'
        sp = {}
        if gs > 1:
            sp['group_sites'] = gs
        elif rng.random() < 0.3:
            sp['group_sites'] = 1                           # the default, given explicitly
        if rng.random() < 0.5:
            sp['measure_initial'] = False
        r = rng.random()
        if r < 0.35:
            sp.update(save_psi=False, save_resume_data=True)
        elif r < 0.45 and gs == 1:
            sp.update(save_psi=False)                       # nothing to resume from: documented refusal
        elif r < 0.6:
            sp.update(save_resume_data=True)
        spec = {'stream': 'real-resume-options', 'sim': sim, 'alg': alg, 'fmt': rng.choice(['pkl', 'h5']),
                'L': 8 if (gs > 1 and alg != 'TwoSiteDMRGEngine') else 6, 'chi': rng.choice([3, 4, 6])}
        if rng.random() < 0.4:
            spec['clock'] = 1.0
            sp['save_every_x_seconds'] = rng.choice([5., 9.])
        if is_te:
            nst = rng.choice([1, 2])
            spec.update(dt=0.05, N_steps=nst, final_time=0.05 * nst * rng.choice([3, 4]))
            if alg == 'TEBDEngine':
                spec['order'] = rng.choice([1, 2, 4])
                if gs > 1 and rng.random() < 0.5:
                    sp['group_to_NearestNeighborModel'] = True
                    spec.update(model='SpinChainNNN2', model_params={'Jxp': 0.3, 'Jyp': 0.3, 'Jzp': 0.2, 'sort_charge': None})
            if alg == 'ExpMPOEvolution':
                spec['alg_params'] = {'compression_method': 'SVD'}
        else:
            spec.update(max_sweeps=rng.choice([2, 3]), N_sweeps_check=1)
        spec['sim_params'] = sp
        # every checkpoint is stopped after its save_at_checkpoint call; one of the two crash modes in addition
        spec['modes'] = ['listener', rng.choice(['write', 'rename'])] if not ctx.thorough() else ['listener', 'write', 'rename']
        specs.append(spec)
    return specs


def draw_algorithm_params(rng, specs, thorough=False):
    """The algorithm_params of the engines of stream real-resume-options, drawn from their documented option space
    (called after all other streams are generated, with a generator derived from ctx.rng).
    TimeEvolutionAlgorithm: `start_time` negative / zero / positive / absent together with dt (dyadic: all times are exact
    floats), N_steps and final_time such that the checkpoints of the run lie
      'neg-cross': before, exactly AT and after evolved_time == 0.0;   'neg-end': the last one exactly at 0.0 = final_time;
      'neg': all before 0;  'zero' / 'default': start_time 0.0 given / not given;  'pos': all after a positive start_time;
    final_time a multiple of the step or not; `dt` real or complex (evolved_time float | complex); `start_trunc_err` absent,
    equal to the default (0, 1) or not.  One time evolution of every seed (one that saves at every checkpoint) is 'neg-cross' with a real dt.
    Sweep engines (DMRG): `chi_list` absent or with an entry that takes effect at the first / a later checkpoint.
    The number of checkpoints of a spec is not changed."""
    def every_checkpoint_resumable(sp):
        o = sp.get('sim_params', {})
        return not sp.get('clock') and (o.get('save_psi', True) or o.get('save_resume_data', o.get('save_psi', True)))

    te = [sp for sp in specs if sp['sim'] == 'RealTimeEvolution']
    # the time evolution that gets a checkpoint exactly at evolved_time == 0.0 for every seed: one that saves a resumable file
    # at every checkpoint, if there is one
    forced = ([sp for sp in te if every_checkpoint_resumable(sp)] + te)[:1]
    n_te = 0
    for spec in forced + [sp for sp in specs if sp not in forced]:
        if spec['sim'] == 'RealTimeEvolution':
            nst = spec['N_steps']
            ncp = max(2, int(round(spec['final_time'] / (spec['dt'] * nst))))
            dt = rng.choice([0.0625, 0.03125, 0.125])
            step = dt * nst
            kind = 'neg-cross' if n_te == 0 else rng.choice(['neg-cross', 'neg-end', 'neg', 'zero', 'default', 'pos', 'pos'])
            if kind == 'neg-cross':
                start = -rng.randint(1, ncp - 1) * step
            elif kind == 'neg-end':
                start = -ncp * step
            elif kind == 'neg':
                start = -(ncp + rng.choice([1, 2])) * step - rng.choice([0., 0.5])
            elif kind == 'pos':
                start = rng.choice([0.5, 1.0, 0.375, step])
            else:
                start = 0.
            final = start + ncp * step
            if rng.random() < 0.25:
                final -= 0.5 * step             # the run goes beyond final_time
            spec.update(dt=dt, final_time=final, start_kind=kind)
            if kind != 'default':
                spec['start_time'] = start
            if n_te > 0 and rng.random() < 0.35:
                spec['dt'] = [dt, -rng.choice([0.5, 0.25]) * dt]        # complex time step
            r = rng.random()
            if r < 0.3:
                spec['start_trunc_err'] = [rng.choice([1.e-3, 0.25, 0.]), rng.choice([0.99, 0.5])]
            elif r < 0.4:
                spec['start_trunc_err'] = [0., 1.]                      # the default, given explicitly
            n_te += 1
        else:
            if rng.random() < (0.7 if thorough else 0.5):
                chi = spec.get('chi', 4)
                spec['chi_list'] = [[0, 2], [rng.choice([1, 2]), chi]]
    return specs


def restore_cases(rng, thorough=False):
    """Stream engine-restore: the documented resume protocol of an engine without a Simulation around it,
    `eng2 = AlgorithmClass(psi, model, options, resume_data=eng.get_resume_data()); eng2.resume_run()`, incl. resume data
    that no checkpoint of a simulation holds (taken from an engine that did not run yet: sweeps 0, empty sweep_stats,
    evolved_time == start_time, trunc_err == start_trunc_err).  Time evolutions: engine x runs before the save 0..2 x N_steps x
    dyadic dt (real / complex) x start_time ('at-zero': = -runs*N_steps*dt, the saved evolved_time is exactly 0.0; negative;
    positive; absent) x start_trunc_err.  DMRG: runs = 0, max_sweeps 2, chi_list absent / present."""
    cases = []
    te = ['TEBDEngine', 'TwoSiteTDVPEngine', 'SingleSiteTDVPEngine', 'ExpMPOEvolution']
    n_te = 16 if thorough else 8
    for i in range(n_te):
        alg = te[i % 4]
        runs = [1, 2, 0, 1][i % 4] if i < 4 else rng.choice([0, 1, 2])
        nst = rng.choice([1, 2])
        dt = rng.choice([0.0625, 0.03125, 0.125])
        kind = 'at-zero' if i % 2 == 0 else rng.choice(['neg', 'pos', 'default', 'at-zero'])
        c = {'sim': 'RealTimeEvolution', 'alg': alg, 'fmt': rng.choice(['pkl', 'h5']), 'L': rng.choice([4, 6]), 'chi': rng.choice([2, 4]),
             'runs': runs, 'N_steps': nst, 'dt': dt, 'start_kind': kind}
        if kind == 'at-zero':
            c['start_time'] = -runs * nst * dt
        elif kind == 'neg':
            c['start_time'] = -rng.choice([0.5, 1., 3 * nst * dt])
        elif kind == 'pos':
            c['start_time'] = rng.choice([0.5, 1., nst * dt])
        if kind != 'at-zero' and rng.random() < 0.4:
            c['dt'] = [dt, -0.5 * dt]
        r = rng.random()
        if r < 0.35:
            c['start_trunc_err'] = [rng.choice([1.e-3, 0.25, 0.]), rng.choice([0.99, 0.5])]
        elif r < 0.45:
            c['start_trunc_err'] = [0., 1.]
        if alg == 'TEBDEngine':
            c['order'] = rng.choice([1, 2, 4])
        if alg == 'ExpMPOEvolution':
            c['alg_params'] = {'compression_method': 'SVD'}
        cases.append(c)
    for i, alg in enumerate(['TwoSiteDMRGEngine', 'SingleSiteDMRGEngine']):
        c = {'sim': 'GroundStateSearch', 'alg': alg, 'fmt': ['pkl', 'h5'][i], 'L': rng.choice([4, 6]), 'chi': 4, 'runs': 0,
             'max_sweeps': 2, 'N_sweeps_check': 1}
        if rng.random() < 0.5:
            c['chi_list'] = [[0, 2], [1, 4]]
        cases.append(c)
    return cases


def restore_eval(ctx, cases, results):
    for c, r in zip(cases, results):
        case = {'stream': 'engine-restore', 'case': c}
        is_te = c['sim'] == 'RealTimeEvolution'
        sv = r.get('saved') or {}
        boundary = (sv.get('evolved_time') == [0., 0.] and c.get('start_time', 0.) != 0.) or sv.get('sweeps') == 0
        ctx.count('engine-restore', c, nontrivial=bool(boundary) or c['runs'] > 0,
                  sample={'case': c, 'saved': sv, 'restored': r.get('restored')})
        if r.get('outcome') != 'ok':
            ctx.fail('oracle', 'AlgorithmClass(psi, model, options, resume_data=engine.get_resume_data()) + resume_run of %s raised: %s'
                     % (c['alg'], str(r.get('outcome'))[:400]), dict(case, observed=r), match_key='C18:engine-restore:raises')
            continue
        probs = []
        t0 = float(c.get('start_time', 0.))
        exp0 = ({'evolved_time': [t0, 0.], 'trunc_err': [float(x) for x in c.get('start_trunc_err', [0., 1.])]} if is_te
                else {'sweeps': 0, 'n_sweep_stats': [0]})
        if any(r['fresh'].get(k) != v for k, v in exp0.items()):
            probs.append('a fresh engine starts with %s, expected %s' % (r['fresh'], exp0))
        for k in sorted(sv):
            if r['engine_at_save'].get(k) != sv[k]:
                probs.append('get_resume_data stores %s = %s, the engine has %s' % (k, sv[k], r['engine_at_save'].get(k)))
            if r['restored'].get(k) != sv[k]:
                probs.append('engine re-created from resume_data has %s = %s, resume_data holds %s' % (k, r['restored'].get(k), sv[k]))
        for k in ('evolved_time', 'trunc_err') if is_te else ('sweeps', 'n_sweep_stats'):
            if k not in sv:
                probs.append('resume_data holds no %s' % k)
        a, b = r['after']
        if not close(a, b, 1e-10):
            probs.append('after one more run() / resume_run(): engine %s, re-created engine %s' % (a, b))
        if r['overlap'] is None or abs(r['overlap'] - 1) > 1e-9 or abs(r['norm_ratio'] - 1) > 1e-9:
            probs.append('states differ: overlap %r, norm ratio %r' % (r['overlap'], r['norm_ratio']))
        if 'energies' in r and not close(r['energies'][0], r['energies'][1], 1e-10):
            probs.append('energies %s' % r['energies'])
        if probs:
            ctx.fail('oracle', 'engine-restore %s (runs before the save: %d, options start_time=%s dt=%s N_steps=%s start_trunc_err=%s): '
                     % (c['alg'], c['runs'], c.get('start_time'), c.get('dt'), c.get('N_steps'), c.get('start_trunc_err'))
                     + '; '.join(probs)[:800], dict(case, observed=r), match_key='C18:engine-restore:differs')


def dmrg_state_specs(ctx):
    """Resume equivalence over the state of the DMRG engine besides psi and the environments (stream real-resume-dmrg):
    the mixer (class default of the engine; amplitude, decay and disable_after drawn so that checkpoints with an active
    mixer, the checkpoint right after its deactivation and checkpoints after it all occur) and the convergence history
    (the stopping criterion decides, with min_sweeps = the last checkpoint of the uninterrupted run)."""
    rng = ctx.rng
    specs = []
    algs = ['TwoSiteDMRGEngine', 'SingleSiteDMRGEngine']
    rng.shuffle(algs)
    # (a) mixer with the default parameters of the engine: active at every checkpoint of a short run
    specs.append({'sim': 'GroundStateSearch', 'alg': algs[0], 'fmt': rng.choice(['pkl', 'h5']), 'L': 8, 'chi': 4,
                  'max_sweeps': rng.choice([2, 3]), 'N_sweeps_check': 1, 'mixer': True})
    # (b) mixer that is switched off after disable_after sweeps, before the run ends
    da = rng.choice([1, 2])
    specs.append({'sim': 'GroundStateSearch', 'alg': algs[1], 'fmt': 'pkl', 'L': 8, 'chi': 4, 'max_sweeps': da + rng.choice([1, 2]),
                  'N_sweeps_check': 1, 'mixer': True,
                  'alg_params': {'mixer_params': {'amplitude': rng.choice([1.e-2, 1.e-3]), 'decay': rng.choice([1.5, 2.]), 'disable_after': da}}})
    if ctx.thorough() or not ctx.proof.ok:
        for alg in algs:
            da = rng.choice([1, 2, 3])
            specs.append({'sim': 'GroundStateSearch', 'alg': alg, 'fmt': rng.choice(['pkl', 'h5']), 'L': rng.choice([6, 8]), 'chi': 4,
                          'max_sweeps': da + 2, 'N_sweeps_check': rng.choice([1, 2]), 'mixer': rng.choice([True, 'DensityMatrixMixer', 'SubspaceExpansion']),
                          'alg_params': {'mixer_params': {'amplitude': 1.e-2, 'decay': 2., 'disable_after': da}}})
    # (c) the convergence criterion decides and min_sweeps is the number of sweeps of the last checkpoint
    specs.append({'sim': 'GroundStateSearch', 'alg': 'TwoSiteDMRGEngine', 'fmt': 'pkl', 'L': 6, 'chi': rng.choice([6, 8]), 'max_sweeps': 20,
                  'min_sweeps_auto': True, 'alg_params': {'max_E_err': 1.e-8, 'max_S_err': 1.e-4}, 'protocol_model': False})
    for sp in specs:
        sp['stream'] = 'real-resume-dmrg'
    return specs


def guard_cases(ctx):
    """Simulation.group_sites_for_algorithm + group_split called directly: psi pre-grouped (stack of factors) x option
    group_sites x loaded_from_checkpoint (x group_to_NearestNeighborModel), incl. the states a run cannot reach."""
    rng = ctx.rng
    cases = []
    for stack in ([], [2], [3], [4], [2, 2]):
        before = 1
        for x in stack:
            before *= x
        for gs in (0, 1, 2, 3, 4):
            for loaded in (False, True):
                if before * max(gs, 1) > 8:
                    continue
                cases.append({'L': rng.choice([12, 12, 10, 13]) if before == 1 else 12, 'stack': stack, 'before': before, 'gs': gs,
                              'loaded': loaded, 'to_NN': rng.random() < 0.25})
    return cases


def guard_eval(ctx, cases, results, coq_group, meta_group):
    for c, r in zip(cases, results):
        case = {'stream': 'group-guard', 'case': c}
        ctx.count('group-guard', c, nontrivial=c['gs'] > 1, sample={'case': c, 'observed': r.get('group')})
        ev = r.get('group', [])
        enters = [e for e in ev if e['what'] == 'enter']
        splits = [e for e in ev if e['what'] == 'split']
        if c['gs'] < 1:
            if not r['outcome'].startswith('raise: ValueError') or (enters and enters[0]['after'] != c['before']):
                ctx.fail('oracle', 'group_sites=%d is invalid but group_sites_for_algorithm gave: %s' % (c['gs'], r['outcome'][:200]),
                         dict(case, observed=r), match_key='C18:guard:invalid')
            continue
        if r['outcome'] != 'ok' or len(enters) != 1 or len(splits) != 1:
            ctx.fail('correspondence', 'group_sites_for_algorithm/group_split on a psi grouped %s with group_sites=%d, loaded=%s: %s'
                     % (c['stack'], c['gs'], c['loaded'], r['outcome'][:300]), dict(case, observed=r))
            continue
        e = enters[0]
        # oracle from the documentation, where it speaks: a run that is not loaded from a checkpoint groups psi by
        # group_sites; a psi loaded from a checkpoint that is already grouped group_sites times is left alone; the model
        # is always grouped by group_sites; to_NN gives a NearestNeighborModel; group_split restores the model
        probs = []
        L = c['L']
        if e['L_model_after'] != (-(-L // c['gs'])):
            probs.append('model has %d sites, expected ceil(%d/%d)' % (e['L_model_after'], L, c['gs']))
        if c['gs'] > 1 and not c['loaded'] and e['after'] != c['before'] * c['gs']:
            probs.append('fresh run: psi.grouped %d -> %d' % (c['before'], e['after']))
        if c['gs'] > 1 and c['loaded'] and c['before'] == c['gs'] and e['after'] != c['gs']:
            probs.append('loaded psi already grouped %d times was grouped again: psi.grouped = %d' % (c['gs'], e['after']))
        if c['gs'] > 1 and c['loaded'] and c['before'] == 1 and e['after'] != c['gs']:
            probs.append('loaded ungrouped psi: psi.grouped = %d' % e['after'])
        if c['gs'] == 1 and (e['after'] != c['before'] or r.get('has_ungrouped')):
            probs.append('group_sites=1 changed the grouping: %d -> %d' % (c['before'], e['after']))
        if c['gs'] > 1 and c.get('to_NN') != (r.get('model_class') == 'NearestNeighborModel'):
            probs.append('group_to_NearestNeighborModel=%s but the model is a %s' % (c.get('to_NN'), r.get('model_class')))
        if splits[0]['sim_grouped'] != 1 or splits[0]['L_model_after'] != L:
            probs.append('after group_split: sim.grouped=%d, model has %d sites' % (splits[0]['sim_grouped'], splits[0]['L_model_after']))
        if probs:
            ctx.fail('oracle', 'group_sites_for_algorithm (psi grouped %s, group_sites=%d, loaded_from_checkpoint=%s): '
                     % (c['stack'], c['gs'], c['loaded']) + '; '.join(probs), dict(case, observed=r), match_key='C18:guard:grouping')
        coq_group.append(group_literal(c['loaded'], c['gs'], list(reversed(c['stack'])), e, splits[0]))
        meta_group.append(dict(case, observed=r))


# ----------------------------------------------------------------------------------------------
# save_results / fix_output_filenames from arbitrary disk states
# ----------------------------------------------------------------------------------------------

def fstates(k):
    return [['A'], ['M'], ['P', k], ['C', k]]


def direct_cases(ctx):
    cases = []
    fmts = ['pkl', 'h5'] if ctx.thorough() else ['pkl']
    for fmt in fmts:
        for safe in (True, False):
            for o in fstates(3):
                for b in fstates(2):
                    if not safe and b[0] != 'A' and ctx.rng.random() < 0.5 and not ctx.thorough():
                        continue
                    base = {'what': 'save', 'fmt': fmt, 'safe': safe, 'out': o, 'bak': b, 'k': 5}
                    cases.append(dict(base, crash=None))
                    for s in range(7):
                        cases.append(dict(base, crash=s, partial=None))
                        cases.append(dict(base, crash=s, partial=0.5))
            for o in fstates(3):
                for b in fstates(2):
                    for loaded in (True, False):
                        for ow in (True, False):
                            cases.append({'what': 'init', 'fmt': fmt, 'safe': safe, 'out': o, 'bak': b, 'loaded': loaded,
                                          'overwrite': ow,
                                          'n_taken': ctx.rng.choice([0, 0, 1, 3]) if (not loaded and not ow and o[0] != 'A') else 0})
    if not ctx.thorough():     # one HDF5 sample in the quick tier
        for o in fstates(3):
            base = {'what': 'save', 'fmt': 'h5', 'safe': True, 'out': o, 'bak': ['C', 2], 'k': 5}
            cases.append(dict(base, crash=None))
            cases.append(dict(base, crash=4, partial=0.3))
    return cases


def direct_eval(ctx, cases, results, coq_save, meta_save, coq_init, meta_init):
    for c, r in zip(cases, results):
        fmt = c['fmt']
        case = {'stream': 'save-direct', 'case': c}
        if r['outcome'].startswith('error'):
            ctx.fail('oracle', '%s from disk state out=%s bak=%s raised: %s' % (c['what'], c['out'], c['bak'], r['outcome'][:200]),
                     dict(case, observed=r), match_key='C18:direct:exception')
            continue
        if c['what'] == 'save':
            crashed = r['outcome'] == 'crash'
            if c.get('crash') is not None and not crashed:
                continue                     # crash index beyond the trace: nothing new
            ctx.count('save-direct', c, nontrivial=c['out'][0] != 'A', sample={'case': c, 'ops': r['ops'], 'disk': r['disk']})
            comp = [v[1] for v in r['disk'].values() if v[0] == 'C']
            # oracle (docstring of save_results: "safe overwrite"): a complete file present before is not lost
            # (a marker in the *output* name cannot arise: the marker is written into the backup name)
            had = [v[1] for v in (c['out'], c['bak']) if v[0] == 'C'] if c['out'][0] != 'M' else []
            if not crashed and r['disk']['out'] != ['C', c['k']]:
                ctx.fail('oracle', 'save_results returned but the output file is %s' % r['disk']['out'], dict(case, observed=r),
                         match_key='C18:direct:not-written')
            if not crashed and c['safe'] and r['disk']['bak'] != ['A']:
                ctx.fail('oracle', 'save_results returned but left a backup file %s' % r['disk']['bak'], dict(case, observed=r),
                         match_key='C18:direct:backup-left')
            if c['safe'] and had and not comp:
                f11 = c['out'][0] == 'P' and c['bak'][0] == 'C'
                ctx.fail('oracle', 'safe_write: disk had a complete file (out=%s, bak=%s); after a crash at step %s of save_results '
                         'nothing loadable is left: %s' % (c['out'], c['bak'], c.get('crash'), r['disk']),
                         dict(case, observed=r), match_key=K_F11 if f11 else 'C18:direct:checkpoint-lost')
            try:
                lit = '(%s, %d%%nat, %s, %s, %s, %s)' % (
                    'true' if c['safe'] else 'false', c['k'], c_fs({'out': c['out'], 'bak': c['bak']}),
                    c_crash(None if c.get('crash') is None else [c['crash'], c.get('partial') is not None]),
                    c_ops(r['ops']), c_fs(r['disk']))
                if r['extra']:
                    raise Unrepresentable('extra files %s' % r['extra'])
                coq_save.append(lit)
                meta_save.append(dict(case, observed=r))
            except Unrepresentable as e:
                ctx.fail('correspondence', 'save_results trace not representable in the model: %s' % e, dict(case, observed=r))
        else:
            renames = (not c['loaded']) and (not c['overwrite']) and c['out'][0] != 'A'
            ctx.count('init-direct', c, nontrivial=c['out'][0] != 'A' or c['bak'][0] != 'A')
            before = {'out': c['out'], 'bak': c['bak']}
            if renames:
                # oracle: a fresh run never touches existing results: it takes the first free name data_<i>.ext
                n = c.get('n_taken', 0) + 1
                exp = 'data_%d.%s' % (n, fmt)
                probs = []
                if r['names'] is None or r['names'][0] != exp:
                    probs.append('output name %s, expected %s' % (r['names'], exp))
                if r['disk'] != before:
                    probs.append('existing files changed: %s -> %s' % (before, r['disk']))
                exp_extra = sorted(['data_%d.%s' % (i, fmt) for i in range(1, n)] + (['data_%d.backup.%s' % (n, fmt)] if c['safe'] else []))
                if sorted(r['extra']) != exp_extra:
                    probs.append('files in the directory %s, expected %s' % (r['extra'], exp_extra))
                elif any(st != ['C', 0] for f, st in r['extra_states'].items() if '.backup.' not in f):
                    probs.append('older results damaged: %s' % r['extra_states'])
                if probs:
                    ctx.fail('oracle', 'fix_output_filenames (fresh run, output exists, overwrite_output=False): ' + '; '.join(probs),
                             dict(case, observed=r), match_key='C18:init:rename')
                continue
            try:
                if r['extra']:
                    raise Unrepresentable('extra files %s' % r['extra'])
                coq_init.append('(%s, %s, %s, %s)' % ('true' if c['safe'] else 'false', c_fs(before), c_ops(r['ops']), c_fs(r['disk'])))
                meta_init.append(dict(case, observed=r))
            except Unrepresentable as e:
                ctx.fail('correspondence', 'fix_output_filenames trace not representable in the model: %s' % e, dict(case, observed=r))


# ----------------------------------------------------------------------------------------------
# fix_output_filenames: choice of the output name against Model/FixNames.v `fix_name`
# ----------------------------------------------------------------------------------------------

FIX_IMPORTS = ['Base.Prelude', 'Model.FixNames', 'Model.FixNamesCheck']


def fix_cand(root, ext, i):
    return root + ext if i == 0 else '%s_%d%s' % (root, i, ext)


def fix_backup(name, ext):
    return name[:len(name) - len(ext)] + '.backup' + ext


def fix_cases(ctx):
    """<= 300 directory contents x option settings for Simulation.fix_output_filenames."""
    rng = ctx.rng
    n_total = 300 if (ctx.thorough() or not ctx.proof.ok) else 240
    cases = []

    def flags(i):
        # all 8 settings of (skip, overwrite, loaded) in turn; the fresh non-overwriting run (the one that
        # searches a free name) more often
        k = i % 12
        if k >= 8:
            return False, False, False
        return bool(k & 1), bool(k & 2), bool(k & 4)

    def noise_for(root, ext, existing):
        pool = []
        for i in rng.sample(range(0, 101), 4) + [j for j in (0, 1, 2) if rng.random() < 0.5]:
            nm = fix_cand(root, ext, i) if i <= 99 else fix_cand(root, ext, 99)
            pool += [fix_backup(nm, ext), nm + '.__old__', '__old__' + nm, nm + '.backup']
        other = '.pkl' if ext == '.h5' else '.h5'
        for i in rng.sample(range(1, 12), 3):
            pool += ['%s_%02d%s' % (root, i, ext) if i < 10 else '%s_0%d%s' % (root, i, ext),
                     '%s_%d%s' % (root, i, other), '%s_%d' % (root, i), '%s%d%s' % (root, i, ext), '%s-%d%s' % (root, i, ext)]
        pool += [root + '_0' + ext, root + '_100' + ext, root + '_' + ext, root + other, root, root + '_1_1' + ext]
        cands = set(fix_cand(root, ext, i) for i in range(0, 100))
        pool = [x for x in dict.fromkeys(pool) if x not in cands]
        return sorted(rng.sample(pool, rng.randint(0, min(8, len(pool)))))

    shapes = ['random', 'prefix', 'prefix-hole', 'prefix-hole', 'no-zero', 'sparse', 'prefix']
    big = [('full', None), ('full', None), ('upto98', None), ('full-hole', None), ('full-hole', None), ('full-no-zero', None),
           ('full', None), ('full-hole', None), ('upto98', None), ('full', None)]
    n_big = 24
    for n in range(n_total):
        root, ext = rng.choice([('out', '.h5'), ('out', '.pkl'), ('res.v2', '.h5'), ('data_7', '.pkl')])
        skip, overwrite, loaded = flags(n)
        if n < n_big:
            shape = big[n % len(big)][0]
            if shape == 'full':
                existing = list(range(100))
            elif shape == 'upto98':
                existing = list(range(99))
            elif shape == 'full-hole':
                h = rng.choice([1, 2, 50, 97, 98, 99, rng.randint(1, 99)])
                existing = [i for i in range(100) if i != h]
            else:
                existing = list(range(1, 100))
            if n % 3 != 2:
                skip, overwrite, loaded = False, False, False
        else:
            shape = shapes[n % len(shapes)]
            if shape == 'random':
                q = rng.choice([0.3, 0.6, 0.9])
                existing = [i for i in range(0, 13) if rng.random() < (0.85 if i == 0 else q)]
            elif shape == 'prefix':
                existing = list(range(rng.randint(0, 14)))
            elif shape == 'prefix-hole':
                m = rng.randint(3, 16)
                h = rng.randint(1, m - 1)
                existing = [i for i in range(m) if i != h] + [i for i in range(m + 1, m + 5) if rng.random() < 0.5]
            elif shape == 'no-zero':
                existing = [i for i in range(1, 8) if rng.random() < 0.7]
            else:
                existing = [0] + sorted(rng.sample(range(1, 100), rng.randint(0, 5)))
        cases.append({'root': root, 'ext': ext, 'existing': existing, 'noise': noise_for(root, ext, existing),
                      'skip': skip, 'overwrite': overwrite, 'loaded': loaded, 'safe': rng.random() < 0.7,
                      'via': 'init' if n % 2 == 0 else 'method',
                      'defaults': (not skip and not overwrite and rng.random() < 0.3), 'shape': shape})
    return cases


def fix_eval(ctx, cases, results, coq_cases, coq_meta):
    for c, r in zip(cases, results):
        case = {'stream': 'fix-name', 'case': c}
        root, ext = c['root'], c['ext']
        ctx.count('fix-name', c, nontrivial=0 in c['existing'],
                  sample={'existing': c['existing'], 'noise': c['noise'], 'skip': c['skip'], 'overwrite': c['overwrite'],
                          'loaded': c['loaded'], 'observed': [r.get('outcome'), r.get('name')]})
        oc = r.get('outcome') or 'error: no outcome'
        if oc.startswith('error'):
            ctx.fail('correspondence', 'fix_output_filenames raised an unexpected exception: %s' % oc[:300], dict(case, observed=r))
            continue
        if oc == 'skip':
            obs = 'FSkip'
        elif oc == 'raise':
            obs = 'FRaise'
        else:
            index = {fix_cand(root, ext, i): i for i in range(0, 130)}
            if r['name'] not in index or not r.get('dir_ok'):
                ctx.fail('correspondence', 'fix_output_filenames chose %r which is not of the form root[_i]ext in the output directory'
                         % (r['name'],), dict(case, observed=r))
                continue
            obs = '(FName %d%%nat)' % index[r['name']]
            # bookkeeping around the choice (not part of fix_name): backup name belongs to the chosen name; nothing
            # but the marker in a non-existing backup name is written; no existing file is modified
            exp_bak = fix_backup(r['name'], ext) if c['safe'] else None
            before = set(fix_cand(root, ext, i) for i in c['existing']) | set(c['noise'])
            exp_created = [exp_bak] if (exp_bak is not None and exp_bak not in before) else []
            if r['backup'] != exp_bak or r['created'] != exp_created:
                ctx.fail('correspondence', 'fix_output_filenames: backup name %r / files created %r, expected %r / %r'
                         % (r['backup'], r['created'], exp_bak, exp_created), dict(case, observed=r))
        if r['changed'] or (oc != 'name' and r['created']):
            ctx.fail('correspondence', 'fix_output_filenames modified existing files %r / created %r'
                     % (r['changed'], r['created']), dict(case, observed=r))
        b = lambda x: 'true' if x else 'false'  # noqa: E731
        coq_cases.append('([%s], %s, %s, %s, %s)' % ('; '.join('%d%%nat' % i for i in c['existing']),
                                                    b(c['skip']), b(c['overwrite']), b(c['loaded']), obs))
        coq_meta.append(dict(case, observed=r))


# ----------------------------------------------------------------------------------------------

def run_coq(ctx, name, checker, cases, meta, what, imports=None):
    if not cases:
        return
    bad, err = common.coq_failing_indices(name, imports or IMPORTS, checker, cases)
    if err:
        ctx.fail('correspondence', 'model evaluation failed (%s): %s' % (name, err[-600:]), None)
    for b in bad[:5]:
        ctx.fail('correspondence', what, meta[b])
    ctx.cov['traces_validated_against_impl'] = ctx.cov.get('traces_validated_against_impl', 0) + len(cases)


def main(ctx):
    ctx.proof = common.check_proofs('C18', extra_targets=['Model/FixNamesCheck.vo', 'Model/ResumeProtoCheck.vo'])
    intens = not ctx.proof.ok
    NP = common.NPROC
    # ---- replay of a single recorded input
    if ctx.replay_in:
        doc = json.load(open(ctx.replay_in))
        inp = doc.get('input') or {}
        if inp.get('stream', '').startswith('fs-history'):
            (res, err), = common.run_impl_parallel('c18_impl.py', [dict(kind='fs_single', fmt=inp['fmt'], safe=inp['safe'],
                                                                         nsteps=inp['nsteps'], hist=inp['hist'])])
            cc, cm = [], []
            if err or isinstance(res, dict):
                ctx.fail('correspondence', 'runner failed: %s' % (err or res)[-400:], None)
            else:
                eval_histories(ctx, inp['stream'], res, inp['safe'], inp['nsteps'], inp['fmt'], cc, cm)
                run_coq(ctx, 'c18_replay', 'check_history', cc, cm, 'Model/Fs.v and the implementation disagree on this history')
            return ctx.finish(RULE, 'replay of one recorded history')
        if inp.get('stream') in ('real-resume', 'real-resume-options', 'real-resume-dmrg'):
            (res, err), = common.run_impl_parallel('c18_impl.py', [dict(kind='real', spec=inp['spec'], modes=[inp.get('mode') or 'listener'],
                                                                         checkpoints=[inp['at']] if inp.get('at') else None)])
            cc, cm, cg, mg, cr, mr = [], [], [], [], [], []
            if err or 'runner_error' in res:
                ctx.fail('correspondence', 'runner failed: %s' % (err or res['runner_error'])[-400:], None)
            else:
                real_oracle(ctx, res, cc, cm, cg, mg, cr, mr)
                run_coq(ctx, 'c18_replay_g', 'check_group', cg, mg, 'Model/ResumeProto.v g_enter/g_split and the implementation disagree')
                run_coq(ctx, 'c18_replay_r', 'check_restore', cr, mr, 'Model/ResumeProto.v p_resume and the implementation disagree on the '
                        'restored counter', imports=RESTORE_IMPORTS)
            return ctx.finish(RULE, 'replay of one recorded resume')
        if inp.get('stream') == 'engine-restore':
            (res, err), = common.run_impl_parallel('c18_impl.py', [dict(kind='engine_restore', cases=[inp['case']])])
            if err or isinstance(res, dict):
                ctx.fail('correspondence', 'runner failed: %s' % (err or res)[-400:], None)
            else:
                restore_eval(ctx, [inp['case']], res)
            return ctx.finish(RULE, 'replay of one engine-restore case')
        if inp.get('stream') == 'group-guard':
            (res, err), = common.run_impl_parallel('c18_impl.py', [dict(kind='group_guard', cases=[inp['case']])])
            cg, mg = [], []
            if err or isinstance(res, dict):
                ctx.fail('correspondence', 'runner failed: %s' % (err or res)[-400:], None)
            else:
                guard_eval(ctx, [inp['case']], res, cg, mg)
                run_coq(ctx, 'c18_replay_g', 'check_group', cg, mg, 'Model/ResumeProto.v g_enter/g_split and the implementation disagree')
            return ctx.finish(RULE, 'replay of one grouping-guard case')
    # ---- 1. histories of the step simulation
    jobs = []
    partial_q = [0, 1, 0.5, 0.999]

    def add(fmt, safe, nsteps, depth, window, partials, shards):
        for i in range(shards):
            jobs.append(dict(kind='fs_enum', fmt=fmt, safe=safe, nsteps=nsteps, depth=depth, window=window, partials=partials,
                             s_mod=[i, shards]))
    if ctx.thorough():
        add('pkl', True, 2, 3, 9, [0, 0.5], 8)
        add('pkl', True, 3, 2, None, partial_q, 6)
        add('pkl', True, 1, 3, None, partial_q, 2)
        add('h5', True, 2, 2, None, [0, 0.5, 0.999], 10)
        add('h5', True, 3, 2, 9, [0.5], 8)
        add('pkl', False, 2, 2, 8, [0.5], 3)
        add('pkl', True, 1, 1, None, 'all', 2)           # every byte prefix of every write
    else:
        add('pkl', True, 2, 2, None, [0, 0.5, 0.999], 4)
        add('pkl', True, 3, 2, 9, [0.5], 3)
        add('pkl', True, 1, 3, None, [0.5], 1)
        add('h5', True, 2, 2, 7, [0.5], 6)
        add('pkl', False, 2, 2, 7, [0.5], 1)
        if intens:      # a proof obligation is broken: search deeper (three process life times)
            add('pkl', True, 2, 3, 8, [0.5], 8)
            add('pkl', True, 3, 2, None, [0, 0.5], 4)
    # the witness of T18_crash_safe_resumed_refuted, replayed literally on the real code
    jobs.append(dict(kind='fs_single', fmt='pkl', safe=True, nsteps=1, hist=[[10, True, 0.5], [5, False, None]], witness=True))
    # ---- 2. save_results / fix_output_filenames from arbitrary states
    dcases = direct_cases(ctx)
    dchunks = [dcases[i::4] for i in range(4)]
    djobs = [dict(kind='save_direct', cases=ch) for ch in dchunks]
    # ---- 3. real simulations
    specs = real_specs(ctx)
    rjobs = [dict(kind='real', spec=s, modes=['listener', 'write', 'rename'] if (s['fmt'] == 'pkl' or ctx.thorough()) else ['listener', 'write'])
             for s in specs]
    # ---- 4. fix_output_filenames: choice of the name (generated last: the other streams keep their inputs)
    fcases = fix_cases(ctx)
    fchunks = [fcases[i::3] for i in range(3)]
    fjobs = [dict(kind='fix_names', cases=ch) for ch in fchunks]
    # ---- 5. resume equivalence over the option space; the grouping guard directly (generated after all other streams)
    ospecs = option_specs(ctx)
    ojobs = [dict(kind='real', spec=sp, modes=sp['modes']) for sp in ospecs]
    gcases = guard_cases(ctx)
    gjobs = [dict(kind='group_guard', cases=gcases)]
    # ---- 6. resume equivalence over the engine state of DMRG that is not psi: mixer, convergence history (generated last)
    mjobs = [dict(kind='real', spec=sp, modes=['listener'] if not ctx.thorough() else ['listener', 'write']) for sp in dmrg_state_specs(ctx)]
    rng2 = random.Random(ctx.rng.getrandbits(64))      # after all other draws from ctx.rng: the older streams keep their inputs
    draw_algorithm_params(rng2, ospecs, ctx.thorough())
    # ---- 7. the resume protocol of the engines called directly (generated last)
    ecases = restore_cases(rng2, ctx.thorough() or intens)
    ejobs = [dict(kind='engine_restore', cases=ecases)]
    rjobs = ojobs + rjobs + mjobs   # the longest jobs first
    allres = common.run_impl_parallel('c18_impl.py', rjobs + ejobs + jobs + djobs + fjobs + gjobs, maxpar=NP)
    (eres, eerr), = allres[len(rjobs):len(rjobs) + 1]
    allres = allres[:len(rjobs)] + allres[len(rjobs) + 1:]
    rres, jres = allres[:len(rjobs)], allres[len(rjobs):len(rjobs) + len(jobs)]
    dres = allres[len(rjobs) + len(jobs):len(rjobs) + len(jobs) + len(djobs)]
    fres = allres[len(rjobs) + len(jobs) + len(djobs):len(rjobs) + len(jobs) + len(djobs) + len(fjobs)]
    gres = allres[len(rjobs) + len(jobs) + len(djobs) + len(fjobs):]

    coq_cases, coq_meta = [], []
    for job, (res, err) in zip(jobs, jres):
        if err or isinstance(res, dict):
            ctx.fail('correspondence', 'history runner failed: %s' % (err or res.get('runner_error', ''))[-500:], {'job': job})
            continue
        stream = 'fs-history-%s%s' % (job['fmt'], '' if job['safe'] else '-unsafe')
        if job.get('witness'):
            stream = 'fs-history-witness'
            sg = res[0]['segs']
            if not (len(sg) == 2 and sg[1]['disk'] == {'out': ['P', 2], 'bak': ['A']} and res[0].get('unloadable')):
                ctx.fail('correspondence', 'the witness history of T18_crash_safe_resumed_refuted does not reproduce on the '
                         'implementation: observed %s' % [s['disk'] for s in sg], {'stream': stream, 'observed': sg})
        eval_histories(ctx, stream, res, job['safe'], job['nsteps'], job['fmt'], coq_cases, coq_meta)
    run_coq(ctx, 'c18_hist', 'check_history', coq_cases, coq_meta,
            'Model/Fs.v and the implementation disagree on the trace of path operations or the disk state of a history')

    coq_save, meta_save, coq_init, meta_init = [], [], [], []
    for ch, (res, err) in zip(dchunks, dres):
        if err or isinstance(res, dict):
            ctx.fail('correspondence', 'save_direct runner failed: %s' % (err or res.get('runner_error', ''))[-500:], None)
            continue
        direct_eval(ctx, ch, res, coq_save, meta_save, coq_init, meta_init)
    run_coq(ctx, 'c18_save', 'check_save', coq_save, meta_save, 'Model/Fs.v save_ops and Simulation.save_results disagree')
    run_coq(ctx, 'c18_init', 'check_init', coq_init, meta_init, 'Model/Fs.v init_ops and Simulation.fix_output_filenames disagree')

    coq_fix, meta_fix = [], []
    for ch, (res, err) in zip(fchunks, fres):
        if err or isinstance(res, dict):
            ctx.fail('correspondence', 'fix_names runner failed: %s' % (err or res.get('runner_error', ''))[-500:], None)
            continue
        fix_eval(ctx, ch, res, coq_fix, meta_fix)
    run_coq(ctx, 'c18_fixname', 'check_fix_name', coq_fix, meta_fix,
            'Model/FixNames.v fix_name and Simulation.fix_output_filenames disagree on the chosen output name / Skip / ValueError',
            imports=FIX_IMPORTS)

    coq_proto, meta_proto, coq_group, meta_group, coq_restore, meta_restore = [], [], [], [], [], []
    for job, (res, err) in zip(rjobs, rres):
        if err or 'runner_error' in res:
            ctx.fail('correspondence', 'real-simulation runner failed for %s: %s' % (job['spec'], (err or res['runner_error'])[-600:]),
                     {'stream': job['spec'].get('stream', 'real-resume'), 'spec': job['spec']})
            continue
        real_oracle(ctx, res, coq_proto, meta_proto, coq_group, meta_group, coq_restore, meta_restore)
    run_coq(ctx, 'c18_restore', 'check_restore', coq_restore, meta_restore,
            'Model/ResumeProto.v p_resume and the implementation disagree on the counter (evolved_time / sweeps, in time steps since start_time) '
            'stored in a checkpoint file, the counter of the engine re-created from it, or the number of records the resumed run starts with',
            imports=RESTORE_IMPORTS)
    run_coq(ctx, 'c18_proto', 'check_proto', coq_proto, meta_proto,
            'Model/ResumeProto.v and the implementation disagree on the sequence of measurement times or on psi.grouped '
            '(checkpoint file / final state; plain or resumed run)')
    if eerr or isinstance(eres, dict):
        ctx.fail('correspondence', 'engine_restore runner failed: %s' % (eerr or eres.get('runner_error', ''))[-500:], None)
    else:
        restore_eval(ctx, ecases, eres)
    for (res, err) in gres:
        if err or isinstance(res, dict):
            ctx.fail('correspondence', 'group_guard runner failed: %s' % (err or res.get('runner_error', ''))[-500:], None)
            continue
        guard_eval(ctx, gcases, res, coq_group, meta_group)
    run_coq(ctx, 'c18_group', 'check_group', coq_group, meta_group,
            'Model/ResumeProto.v g_enter/g_model/g_split and Simulation.group_sites_for_algorithm/group_split disagree on psi.grouped '
            'or the lengths of psi / model')

    ctx.assumptions += [
        'C18 A-fs: rename and unlink are atomic and durable in program order, only a write can be torn (prefix of the bytes); no fsync reordering, no lost directory entries',
        'C18 fault injection is in-process: os.rename/replace/unlink/remove, Path.exists/open, os.path.exists and tenpy.tools.hdf5_io.save are wrapped; a crash is an exception derived from BaseException; a torn write leaves a byte prefix of the file the real writer produces',
        'C18 not modelled in Coq (oracle-checked only, stream real-resume-dmrg): the mixer and the convergence history (sweep_stats) of DMRG across a resume; not covered: handle_abort_signal timing, sequential simulations, log files',
        'C18 resume is exercised for files that contain resume_data, and for save_psi=False, save_resume_data=False (refusal). Not drawn: save_psi=True with save_resume_data=False. '
        'doc/intro/simulations.rst (Checkpoints for resuming a simulation) requires both save_psi and save_resume_data for a checkpoint that can be resumed; without resume_data '
        'tenpy restarts the algorithm from results["psi"] with a fresh engine (sweeps / evolved_time restart at 0, documented for DMRG as "roughly equivalent to starting a new '
        'simulation with the initial state loaded"), so such a file is not a checkpoint in the sense of the property. Observed on the unchanged tree (not a finding of C18): a '
        'RealTimeEvolution resumed this way repeats the evolution and appends records with evolved_time restarting at dt instead of refusing',
        'C18 stream real-resume-dmrg measures at the algorithm checkpoints without the default m_entropy: psi has non-diagonal Schmidt values while a mixer is active (documented for measure_at_algorithm_checkpoints)',
    ]
    return ctx.finish(RULE, 'Coq: crash safety of an uninterrupted run for every number of saves and crash point; of resumed histories unless a resume '
                      'starts with a partial output file (that case is refuted by a witness, reproduced on the code: F11); measurement protocol '
                      'none-lost-none-duplicated for every snapshot, every measure_initial / group_sites (error accumulator refuted: F12); the grouping guard of '
                      'group_sites_for_algorithm is idempotent on every snapshot (T18_resume_grouping). save_results regenerated from source and '
                      'proved equal to the model; model run against every enumerated history.')


RULE = ('fs-history: all crash points (before every primitive path operation, inside every write at several byte prefixes; thorough: every byte '
        'prefix) of a step simulation with 1-3 checkpoints, pickle and HDF5, followed by resume and a second (third) crash at every step of the '
        'resumed run; non-trivial = at least two process life times or a torn write; distinct = distinct (format, safe_write, steps, crash history). '
        'save-direct: save_results / fix_output_filenames from all 16 disk states x safe_write x crash point. fix-name: '
        'fix_output_filenames in directories with generated subsets of the names out, out_1 .. out_99 (+ names to be ignored) x skip_if_output_exists x '
        'overwrite_output x loaded_from_checkpoint against Model/FixNames.v fix_name; non-trivial = the configured name exists. real-resume: DMRG (1-/2-site), TEBD '
        '(order 2/4), TDVP (1-/2-site) simulations stopped at every algorithm checkpoint (after the save, inside the write, after the rename), resumed, '
        'compared with the plain run. real-resume-options: the same comparison with the simulation options drawn per seed: simulation/engine '
        'class (incl. ExpMPOEvolution) x pickle/HDF5 x group_sites 1/2 (TEBD also group_to_NearestNeighborModel on a next-nearest-neighbour chain) x '
        'measure_initial x save at every checkpoint / only every few checkpoints (save_every_x_seconds > 0 under a deterministic clock) x '
        '(save_psi, save_resume_data) in (T,T),(F,T),(F,F: documented refusal) x algorithm_params of the engine: start_time negative / 0 / positive / '
        'absent with dyadic dt, N_steps, final_time such that checkpoints lie before, exactly at and after evolved_time == 0.0 (one such run per seed; '
        'also: the last checkpoint at 0.0, all before 0, final_time not a multiple of the step), dt real / complex, start_trunc_err absent / default / other, '
        'chi_list for DMRG; stopped after every checkpoint + inside a write / after a rename; the counters of the engine re-created from the checkpoint '
        '(evolved_time, sweeps, trunc_err, entries of sweep_stats, records) are compared exactly with resume_data of the loaded file and, in time steps '
        'since start_time, with p_resume of Model/ResumeProto.v (Model/ResumeProtoCheck.v check_restore); '
        'psi.grouped and the lengths of psi and model after group_sites_for_algorithm / group_split of every process are compared with '
        'Model/ResumeProto.v (check_group), psi.grouped in the checkpoint file and of the final states with check_proto. group-guard: '
        'group_sites_for_algorithm + group_split called directly on psi pre-grouped by [], [2], [3], [4], [2,2] x group_sites 0..4 x '
        'loaded_from_checkpoint; non-trivial = group_sites > 1. real-resume-dmrg: 1-/2-site DMRG with a mixer (engine default / drawn amplitude, decay, '
        'disable_after: checkpoints with an active mixer, right after and after its deactivation) and with the convergence criterion deciding '
        '(min_sweeps = sweeps of the last checkpoint of the uninterrupted run), stopped at every checkpoint, resumed, compared with the plain run; the '
        'mixer and the length of sweep_stats at the start of every sweep are observed to attribute a difference. engine-restore: the documented protocol '
        'eng2 = AlgorithmClass(psi, model, options, resume_data=eng.get_resume_data()); eng2.resume_run() without a Simulation, the resume data written to '
        'pickle / HDF5 and loaded: TEBD, TDVP (1-/2-site), ExpMPOEvolution after 0..2 runs x N_steps x dyadic real / complex dt x start_time (such that the '
        'saved evolved_time is exactly 0.0; negative; positive; absent) x start_trunc_err, DMRG (1-/2-site) before the first sweep (sweeps 0, empty '
        'sweep_stats) x chi_list: counters of the re-created engine == saved counters, one more run() of both engines gives the same counters and state; '
        'non-trivial = the engine ran before the save or a saved counter is 0 while the corresponding option is not.')
