"""C11 - MPO algebra equals operator algebra.

proof gate (coq/Props/C11.v: MPO.__add__, dagger, plus_identity on the automaton model)
+ correspondence: W tensors of the implementation's MPOs (operands and results) are decomposed into operator names and
  denoted by the verified `denote` inside Coq: denote(A + B) = denote A + denote B, dagger, plus_identity, to_TermList;
  make_U_I (stream c11_make_U_I): W grid / IdL / IdR / chi of H.make_U_I(dt) for Gaussian-integer dt against the graded
  automaton model (Model/PropUI.v, checker Model/PropUICheck.v), exactly, inside Coq
+ oracle: every operation against the dense operators / vectors (independent numpy code).
+ coverage audit (harness/c11_ext.py, runner harness/impl/c11x_impl.py): streams ext_chain / ext_ctor / ext_evo / ext_iapply / ext_ienv /
  ext_opts reach the remaining public functions, documented options and branches of tenpy.networks.mpo and tenpy.algorithms.mpo_evolution;
  the evidence holds the table item x option -> calls / stream (C11_api_coverage by reflection on the source + a call counter in the
  runner, C11_option_coverage); a public name that is neither covered nor classified is a correspondence failure.
"""
import copy
import os

for _v in ('OMP_NUM_THREADS', 'OPENBLAS_NUM_THREADS', 'MKL_NUM_THREADS'):
    os.environ.setdefault(_v, '1')
import numpy as np  # noqa: E402

import common  # noqa: E402
import c10_oracle as O  # noqa: E402
from c10 import Lit, z, maxdiff  # noqa: E402

TOL = 1e-9
HC = {'SpinHalf': {'Sz': 'Sz', 'Sp': 'Sm', 'Sm': 'Sp', 'Sx': 'Sx', 'Sy': 'Sy', 'Id': 'Id'},
      'Fermion': {'C': 'Cd', 'Cd': 'C', 'N': 'N', 'Id': 'Id', 'JW': 'JW'}}


def cpx(rng, exact, real=False):
    if exact:
        re = rng.choice([-3, -2, -1, 1, 2, 3])
        im = 0 if (real or rng.random() < 0.6) else rng.choice([-2, -1, 1, 2])
        return [re, im]
    re = rng.uniform(-2, 2)
    im = 0.0 if (real or rng.random() < 0.5) else rng.uniform(-2, 2)
    return [re, im]


def gen_term(rng, kind, L, conserve, exact, maxrange=None, cell=None):
    """one term [(op, site), ...] of a TermList (mathematical operator order)"""
    maxrange = maxrange if maxrange is not None else L - 1
    first_max = (cell if cell is not None else L) - 1
    if kind == 'SpinHalf':
        neutral = conserve is not None
        shapes = [['Sz'], ['Sz', 'Sz'], ['Sp', 'Sm'], ['Sm', 'Sp'], ['Sz', 'Sp', 'Sm'], ['Sp', 'Sz', 'Sm'], ['Sp', 'Sm', 'Sp', 'Sm']]
        if not neutral:
            shapes += [['Sp'], ['Sp', 'Sz'], ['Sp', 'Sp'], ['Sm', 'Sz', 'Sz']]
            if not exact:
                shapes += [['Sx'], ['Sx', 'Sy'], ['Sy', 'Sz', 'Sx']]
    else:
        shapes = [['Cd', 'C'], ['C', 'Cd'], ['Cd', 'Cd', 'C', 'C'], ['Cd', 'C', 'Cd', 'C']]
        if not exact:
            shapes += [['N'], ['N', 'N'], ['Cd', 'N', 'C']]
        if conserve is None:
            shapes += [['C', 'C'], ['Cd', 'Cd']]
    for _ in range(30):
        ops = rng.choice(shapes)
        n = len(ops)
        i0 = rng.randint(0, first_max)
        span = rng.randint(0 if n == 1 else 1, max(1, maxrange)) if n > 1 else 0
        pool = list(range(i0, i0 + span + 1))
        if cell is None:
            pool = [p for p in pool if p < L]
        if len(pool) < 1:
            continue
        if n == 1:
            sites = [i0]
        else:
            if len(pool) < 2:
                continue
            # distinct sites mostly; occasionally two operators on one site (combined by order_combine_term)
            if len(pool) >= n and rng.random() < 0.85:
                sites = [i0] + rng.sample(pool[1:], n - 1) if len(pool) - 1 >= n - 1 else None
            else:
                sites = [i0] + [rng.choice(pool) for _ in range(n - 1)]
                if len(set(sites)) == 1:
                    sites = None
            if sites is None:
                continue
        term = list(zip(ops, sites))
        if kind == 'Fermion' or rng.random() < 0.3:
            rng.shuffle(term)            # any operator order (fermionic signs!)
        # a product with C C or Cd Cd on one site vanishes: avoid
        bad = False
        for s in set(sites):
            names = [o for o, k in term if k == s]
            if len(names) > 1 and kind == 'Fermion':
                bad = True
            if len(names) > 1 and kind == 'SpinHalf' and (names.count('Sp') > 1 or names.count('Sm') > 1):
                bad = True
        if bad:
            continue
        return [[o, int(k)] for o, k in term]
    return [['Sz' if kind == 'SpinHalf' else 'Cd', 0]] if kind == 'SpinHalf' else [['Cd', 0], ['C', min(1, L - 1) if cell is None else 1]]


def hc_term(kind, term, st):
    return [[HC[kind][o], k] for o, k in reversed(term)], [st[0], -st[1]]


def gen_terms(rng, kind, L, conserve, exact, hermitian, nterms, maxrange=None, cell=None):
    out = []
    for _ in range(nterms):
        t = gen_term(rng, kind, L, conserve, exact, maxrange, cell)
        st = cpx(rng, exact)
        out.append([t, st])
        if hermitian:
            ht, hs = hc_term(kind, t, st)
            if cell is not None:
                # keep the left-most site inside the first unit cell
                mn = min(k for _, k in ht)
                sh = (mn // cell) * cell
                ht = [[o, k - sh] for o, k in ht]
            out.append([ht, hs])
    return out


def perturb(rng, kind, terms, L, conserve, exact, cell=None):
    """a second term list that is either the same operator written differently, or differs in exactly one place"""
    how = rng.choice(['same-order', 'same-split', 'coefficient', 'extra-long-range', 'conjugation', 'drop'])
    B = copy.deepcopy(terms)
    same = False
    if how == 'same-order':
        rng.shuffle(B)
        same = True
    elif how == 'same-split':
        k = rng.randrange(len(B))
        t, st = B[k]
        B[k] = [t, [st[0] - 1, st[1]]]
        B.append([copy.deepcopy(t), [1, 0]])
        same = True
    elif how == 'coefficient':
        # prefer the longest-range term
        k = max(range(len(B)), key=lambda q: max(x[1] for x in B[q][0]) - min(x[1] for x in B[q][0]))
        d = 1 if exact else rng.choice([1e-3, 0.1, 1.0])
        B[k] = [B[k][0], [B[k][1][0] + d, B[k][1][1]]]
    elif how == 'extra-long-range':
        if kind == 'SpinHalf':
            B.append([[['Sz', 0], ['Sz', (L - 1) if cell is None else (2 * cell - 1)]], [1, 0] if exact else [rng.choice([1e-3, 0.5]), 0]])
        else:
            j = (L - 1) if cell is None else (2 * cell - 1)
            B.append([[['Cd', 0], ['C', j]], [1, 0]])
            B.append([[['Cd', j], ['C', 0]], [1, 0]])
    elif how == 'conjugation':
        ks = [q for q in range(len(B)) if B[q][1][1] != 0]
        if not ks:
            k = rng.randrange(len(B))
            B[k] = [B[k][0], [B[k][1][0], B[k][1][1] + (1 if exact else 0.3)]]
        else:
            k = rng.choice(ks)
            B[k] = [B[k][0], [B[k][1][0], -B[k][1][1]]]
    else:
        if len(B) > 1:
            B.pop(rng.randrange(len(B)))
        else:
            B[0] = [B[0][0], [B[0][1][0] * 2, B[0][1][1]]]
    return B, how, same


def gen_grid(rng, kind, L, exact, markers, triangular):
    """explicit W grids: index 0 = IdL, last = IdR on every bond (possibly swapped positions), entries = lists of (op, strength)"""
    ops = ['Sz', 'Sp', 'Sm'] if kind == 'SpinHalf' else ['C', 'Cd', 'JW']
    chis = [2] + [rng.choice([2, 3, 4]) for _ in range(L - 1)] + [2]
    grids = []
    for i in range(L):
        cl, cr = chis[i], chis[i + 1]
        G = [[None] * cr for _ in range(cl)]
        for a in range(cl):
            for b in range(cr):
                if a == 0 and b == 0:
                    G[a][b] = [['Id', [1, 0]]]
                    continue
                if a == cl - 1 and b == cr - 1:
                    G[a][b] = [['Id', [1, 0]]]
                    continue
                if triangular:
                    # standard sum form: nothing returns to IdL, nothing leaves IdR
                    if b == 0 or a == cl - 1:
                        continue
                if rng.random() < (0.45 if triangular else 0.35):
                    ent = [[rng.choice(ops), cpx(rng, exact)]]
                    if rng.random() < 0.2:
                        ent.append([rng.choice(ops + ['Id']), cpx(rng, exact)])
                    G[a][b] = ent
        # MPO.from_grids derives the leg charges only without dangling ends: every state is entered and left
        for b in range(1, cr):
            if all(G[a][b] is None for a in range(cl)) or (i == 0 and G[0][b] is None):
                G[0][b] = [[rng.choice(ops), cpx(rng, exact)]]
        for a in range(0, cl - 1):
            if all(G[a][b] is None for b in range(cr)):
                G[a][cr - 1] = [[rng.choice(ops), cpx(rng, exact)]]
        grids.append(G)
    IdL = [0] * (L + 1)
    IdR = [-1] * (L + 1)
    if not markers:
        IdL = [0] + [None] * L
        IdR = [None] * L + [-1]
    return {'grids': grids, 'IdL': IdL, 'IdR': IdR, 'max_range': None, 'triangular': triangular, 'markers': markers, 'chis': chis}


def gen_algebra(rng, idx):
    kind = rng.choice(['SpinHalf', 'SpinHalf', 'Fermion'])
    L = rng.choice([2, 3, 4, 4, 5])
    exact = rng.random() < 0.55
    conserve = rng.choice([None, None, 'Sz' if kind == 'SpinHalf' else 'N'])
    hermitian = rng.random() < 0.5
    case = {'kind': 'algebra', 'site': {'type': kind, 'conserve': conserve}, 'L': L, 'seed': 1000 + idx, 'exact': exact}
    src = rng.random()
    if src < 0.7:
        nt = rng.randint(1, 4)
        A = gen_terms(rng, kind, L, conserve, exact, hermitian, nt)
        case['A'] = {'terms': A, 'insert_all_id': True}
        if rng.random() < 0.7:
            B, how, same = perturb(rng, kind, A, L, conserve, exact)
            case['pair'] = {'how': how, 'same': same}
        else:
            B = gen_terms(rng, kind, L, conserve, exact, rng.random() < 0.5, rng.randint(1, 3))
            case['pair'] = {'how': 'independent', 'same': None}
        case['B'] = {'terms': B, 'insert_all_id': True}
        case['to_TermList'] = True
        # prefactors of operator strings: the words of some terms on distinct ascending sites, and one absent string
        prefs = []
        for t, st in A[:3]:
            sites_ = [k for _, k in t]
            if sorted(sites_) == sites_ and len(set(sites_)) == len(sites_) and kind == 'SpinHalf':
                ops_ = ['Id'] * (sites_[-1] - sites_[0] + 1)
                for o, k in t:
                    ops_[k - sites_[0]] = o
                prefs.append([sites_[0], ops_])
        if kind == 'SpinHalf' and L >= 2:
            prefs.append([0, ['Sz', 'Sp']])
        case['prefactors'] = prefs
    else:
        conserve = None
        case['site']['conserve'] = None
        markers = rng.random() < 0.6
        triangular = markers or rng.random() < 0.5
        case['A'] = gen_grid(rng, kind, L, exact, markers, triangular)
        if markers and rng.random() < 0.7:
            case['B'] = gen_grid(rng, kind, L, exact, True, True)
            case['pair'] = {'how': 'independent', 'same': None}
        case['to_TermList'] = markers
    if rng.random() < 0.6:
        sites_ = [0] if rng.random() < 0.6 else list(range(rng.randint(0, L - 1), L))[:rng.randint(1, L)]
        if sites_ != [0]:
            a = rng.randint(0, L - 1)
            sites_ = list(range(a, min(L, a + rng.randint(1, 3))))
        case['plus_identity'] = {'alpha': cpx(rng, exact), 'beta': cpx(rng, exact, real=(sites_ != [0])), 'sites': sites_}
        if sites_ != [0] and case['plus_identity']['beta'][0] < 0:
            case['plus_identity']['beta'][0] *= -1        # beta ** (1/N) on the principal branch
    # state
    if conserve is None:
        case['state'] = {'kind': rng.choice(['full', 'full', 'product'])}
    else:
        if kind == 'SpinHalf':
            p = [rng.choice(['up', 'down']) for _ in range(L)]
        else:
            p = [rng.choice(['empty', 'full']) for _ in range(L)]
        case['state'] = {'kind': 'rue', 'p_state': p, 'chi': rng.choice([2, 4, 8])}
    big = {'chi_max': 200, 'svd_min': 1e-14}
    small = {'chi_max': rng.choice([1, 2, 3]), 'svd_min': 1e-14}
    case['apply'] = [{'name': 'naive', 'method': 'naive'},
                     {'name': 'svd_full', 'method': 'SVD', 'trunc_params': big},
                     {'name': 'svd_trunc', 'method': 'SVD', 'trunc_params': small},
                     {'name': 'zipup_full', 'method': 'zip_up', 'trunc_params': big, 'm_temp': 2, 'trunc_weight': 1.0},
                     ]
    if L > 2:
        case['apply'].append({'name': 'var_full', 'method': 'variational', 'trunc_params': big})
    if rng.random() < 0.5:
        if L > 2:
            case['apply'].append({'name': 'var_trunc', 'method': 'variational', 'trunc_params': small})
        case['apply'].append({'name': 'zipup_trunc', 'method': 'zip_up', 'trunc_params': small, 'm_temp': 2, 'trunc_weight': 1.0})
    return case


def gen_infinite(rng, idx):
    kind = rng.choice(['SpinHalf', 'Fermion'])
    L = rng.choice([1, 2, 3])
    nwin = {1: 4, 2: 3, 3: 2}[L]
    exact = rng.random() < 0.5
    conserve = rng.choice([None, 'Sz' if kind == 'SpinHalf' else 'N'])
    maxr = L * (nwin - 1) - 1
    hermitian = rng.random() < 0.6
    A = gen_terms(rng, kind, L * nwin, conserve, exact, hermitian, rng.randint(1, 3), maxrange=max(1, min(maxr, 3)), cell=L)
    case = {'kind': 'infinite', 'site': {'type': kind, 'conserve': conserve}, 'L': L, 'nwin': nwin, 'seed': 5000 + idx, 'exact': exact,
            'A': {'terms': A, 'max_range_none': rng.random() < 0.25}}
    case['psi_L'] = L if rng.random() < 0.5 else 2 * L        # unit cell of the state may differ from the one of the MPO
    B, how, same = perturb(rng, kind, A, L, conserve, exact, cell=L)
    case['B'] = {'terms': B}
    case['pair'] = {'how': how, 'same': same}
    return case


def gen_propagator(rng, idx):
    L = rng.choice([3, 4, 5])
    terms = []
    for i in range(L - 1):
        J = round(rng.uniform(0.5, 1.5), 3)
        terms.append([[['Sp', i], ['Sm', i + 1]], [J, 0]])
        terms.append([[['Sm', i], ['Sp', i + 1]], [J, 0]])
        terms.append([[['Sz', i], ['Sz', i + 1]], [round(rng.uniform(-1, 1), 3), 0]])
    for i in range(L):
        terms.append([[['Sx', i]], [round(rng.uniform(-1, 1), 3), 0]])
    if rng.random() < 0.5 and L >= 3:
        for i in range(L - 2):
            terms.append([[['Sz', i], ['Sz', i + 2]], [round(rng.uniform(-1, 1), 3), 0]])
    t0 = rng.choice([0.08, 0.05])
    imag = rng.random() < 0.5
    dts = [[0, -t0 / 2 ** n] if imag else [-t0 / 2 ** n, 0] for n in range(3)]
    return {'kind': 'propagator', 'site': {'type': 'SpinHalf', 'conserve': None}, 'L': L, 'A': {'terms': terms}, 'dts': dts}


def gen_propagator2(rng, idx):
    """propagators of MPOs in every documented form of the markers: one MPOGraph, a sum A + B by MPO.__add__ (IdR markers -1), the same
    tensors with the IdR markers written as negative indices; finite chains (whole chain and a sub-window between the markers of two inner
    bonds) and infinite MPOs on a window"""
    finite = idx % 2 == 0
    form = ['sum', 'negmarkers', 'single'][(idx // 2) % 3]
    if finite:
        L = rng.choice([3, 4, 5])
        N, cell, first_sites = L, None, range(L)
    else:
        L = rng.choice([1, 2])
        N, cell, first_sites = 4, L, range(L)
    inside = lambda k: (k < L) if finite else (k < N)
    hop, zz, field, zz2 = [], [], [], []
    for i in first_sites:
        if inside(i + 1):
            J = round(rng.uniform(0.5, 1.5), 3)
            hop.append([[['Sp', i], ['Sm', i + 1]], [J, 0]])
            hop.append([[['Sm', i], ['Sp', i + 1]], [J, 0]])
            zz.append([[['Sz', i], ['Sz', i + 1]], [round(rng.uniform(-1, 1), 3), 0]])
        field.append([[['Sx', i]], [round(rng.uniform(-1, 1), 3), 0]])
        if inside(i + 2) and L != 3:
            zz2.append([[['Sz', i], ['Sz', i + 2]], [round(rng.uniform(-1, 1), 3), 0]])
    if rng.random() < 0.5:
        zz2 = []
    partA, partB = (hop + zz2, zz + field) if rng.random() < 0.5 else (hop + field, zz + zz2)
    if not partB or not partA:
        partA, partB = hop, zz + field + zz2
    t0 = rng.choice([0.08, 0.05])
    imag = rng.random() < 0.5
    dts = [[0, -t0 / 2 ** n] if imag else [-t0 / 2 ** n, 0] for n in range(3)]
    case = {'kind': 'propagator', 'site': {'type': 'SpinHalf', 'conserve': None}, 'L': L, 'N': N, 'bc': 'finite' if finite else 'infinite',
            'form': form, 'A': {'terms': partA + partB}, 'split': len(partA), 'dts': dts}
    if finite:
        a = rng.randint(0, L - 2)
        n = rng.randint(2, L - a)
        if a == 0 and n == L:
            a, n = 1, L - 1
        case['window'] = [a, n]
    return case


RANGE_TAGS = [(a, b) for a in ('known', 'none', 'inf') for b in ('known', 'none', 'inf')]
K_TTL_NEG = 'C11:to_TermList:result-with-negative-IdR-marker:no-terms'


FLAG_COMBOS = [(False, True), (True, False), (False, False), (True, True)]


def hc_terms(kind, terms, cell=None):
    """the Hermitian conjugates of the terms (for an infinite MPO translated so that they start in the first unit cell)"""
    out = []
    for t, st in terms:
        ht, hs = hc_term(kind, t, st)
        if cell is not None:
            sh = (min(k for _, k in ht) // cell) * cell
            ht = [[o, k - sh] for o, k in ht]
        out.append([ht, hs])
    return out


def gen_hc(hr, idx, kind, finite, L, N, cell, conserve):
    """operands P, Q for the documented flag explicit_plus_hc ("the Hermitian conjugate is computed at runtime, rather than saved in the
    MPO"): the flag is drawn independently per operand (all four combinations in turn), the stored terms are Hermitian or NOT
    (one-directional hopping with a complex amplitude, complex non-symmetric couplings); Q is P rewritten (in full / as the conjugate
    half / reordered) or differs from it in one place, so that the operands share terms"""
    fp, fq = FLAG_COMBOS[(idx // 9) % 4]
    spin = kind == 'SpinHalf'
    nsite = L if finite else N
    maxr = (L - 1) if finite else 2
    herm = hr.random() < 0.3
    base = gen_terms(hr, kind, nsite, conserve, False, herm, hr.randint(1, 2) if herm else hr.randint(1, 3), maxrange=maxr, cell=cell)
    if not herm:
        i = hr.randint(0, L - 2) if finite else hr.randint(0, L - 1)
        rr = hr.randint(1, max(1, min(maxr, L - 1 - i))) if finite else hr.randint(1, 2)
        hop = [['Sp', i], ['Sm', i + rr]] if spin else [['Cd', i], ['C', i + rr]]
        amp = [round(hr.uniform(0.5, 1.5), 3), round(hr.choice([-1, 1]) * hr.uniform(0.3, 1.0), 3)]
        base.insert(hr.randrange(len(base) + 1), [hop, amp])
    modes = ['perturb', 'perturb']
    if fp != fq:
        modes += ['expand', 'expand-perturbed', 'expand-perturbed']
    elif fp and fq:
        modes += ['hc-stored']
    else:
        modes += ['dagger']
    mode = hr.choice(modes)
    P = base
    if mode == 'perturb':
        Q, how, _ = perturb(hr, kind, base, L, conserve, False, cell=cell)
        mode = 'perturb:' + how
    elif mode.startswith('expand'):
        full = copy.deepcopy(base) + hc_terms(kind, base, cell)
        if mode == 'expand-perturbed':
            k = hr.randrange(len(base))         # one half of a conjugate pair only: a non-Hermitian difference
            full[k] = [full[k][0], [full[k][1][0] + hr.choice([1e-3, 0.1, 1.0]), full[k][1][1]]]
        P, Q = (base, full) if fp else (full, base)     # the operand without the flag is written in full
    else:
        Q = hc_terms(kind, base, cell)
    tags = lambda: hr.choice(['known', 'known', 'none', 'inf'])
    hows = lambda: hr.choice(['ctor', 'wflat'])
    out = {'mode': mode, 'stored_hermitian': herm,
           'P': {'terms': P, 'plus_hc': fp, 'range': tags(), 'how': hows()}, 'Q': {'terms': Q, 'plus_hc': fq, 'range': tags(), 'how': hows()}}
    if spin:
        for nm in ('P', 'Q'):
            tl = out[nm]['terms']
            if any(len(set(k for _, k in t)) < len(t) for t, _ in tl):
                continue            # (several operators on one site: products contain the identity)
            prefs = []
            for t, _ in tl[:3]:
                for tt in (t, hc_term(kind, t, [0, 0])[0]):
                    tt = sorted(tt, key=lambda x: x[1])         # (spin operators on distinct sites commute)
                    ops_ = ['Id'] * (tt[-1][1] - tt[0][1] + 1)
                    for o, k in tt:
                        ops_[k - tt[0][1]] = o
                    if [tt[0][1], ops_] not in prefs:
                        prefs.append([tt[0][1], ops_])
            prefs.append([0, ['Sz', 'Sp']] if conserve is None else [0, ['Sz', 'Id', 'Sz']])
            out[nm]['prefactors'] = [p_ for p_ in prefs if finite is False or p_[0] + len(p_[1]) <= L]
    return out


def gen_results(rng, idx, hrng=None):
    """operands X (short range), Y (contains one long-range coupling; Hermitian or not), Y2 (Y rewritten, or differing in the
    long-range coupling only), Z (short range) whose documented meta-data `max_range` is known / None (given by W tensors) / inf in
    every combination; RESULTS of sums in both orders, daggers, plus_identity and sums of sums, finite and infinite.  The long
    coupling always fits into the window that is_equal documents for an unknown range (3 L sites)."""
    kind = rng.choice(['SpinHalf', 'SpinHalf', 'Fermion'])
    finite = rng.random() < 0.45
    conserve = rng.choice([None, None, 'Sz' if kind == 'SpinHalf' else 'N'])
    if finite:
        L = rng.choice([4, 5, 5, 6])
        nwin, N, cell = 1, L, None
        i0 = 0
        rmax = L - 1
    else:
        L = rng.choice([1, 2, 2, 2, 3])
        nwin = {1: 6, 2: 4, 3: 3}[L]
        N, cell = L * nwin, L
        i0 = rng.randint(0, L - 1)
        # the coupling i0 .. i0 + rl lies inside the sites range(3 L) that is_equal documents for an unknown range
        rmax = min(3 * L - 1 - i0, N - L)
    rl = max(2, rmax - rng.choice([0, 0, 0, 1, 2]))
    rl = min(rl, rmax)
    if finite:
        i0 = rng.randint(0, L - 1 - rl)
    herm_long = rng.random() < 0.55
    c = [round(rng.uniform(0.5, 1.5), 3), 0 if herm_long or rng.random() < 0.5 else round(rng.uniform(0.3, 1.0), 3)]
    if kind == 'SpinHalf':
        if herm_long and rng.random() < 0.5:
            long_terms = [[[['Sz', i0], ['Sz', i0 + rl]], c]]
        else:
            long_terms = [[[['Sp', i0], ['Sm', i0 + rl]], c]]
            if herm_long:
                long_terms.append([[['Sm', i0], ['Sp', i0 + rl]], [c[0], -c[1]]])
    else:
        long_terms = [[[['Cd', i0], ['C', i0 + rl]], c]]
        if herm_long:
            long_terms.append([[['Cd', i0 + rl], ['C', i0]], [c[0], -c[1]]])
    short = lambda n: gen_terms(rng, kind, N if not finite else L, conserve, False, True, n, maxrange=1, cell=cell)
    X = short(rng.randint(1, 2))
    Y = long_terms + (short(1) if rng.random() < 0.5 else [])
    Z = short(1)
    how = rng.choice(['same-order', 'same-split', 'coefficient-long', 'coefficient-long', 'drop-long'])
    Y2 = copy.deepcopy(Y)
    if how == 'same-order':
        Y2 = Y2[::-1]
    elif how == 'same-split':
        t, st = Y2[0]
        Y2[0] = [t, [st[0] - 0.25, st[1]]]
        Y2.append([copy.deepcopy(t), [0.25, 0]])
    elif how == 'coefficient-long':
        for q in range(len(long_terms)):
            Y2[q] = [Y2[q][0], [Y2[q][1][0] * 0.5, Y2[q][1][1]]]
    else:
        Y2 = Y2[len(long_terms):] or short(1)
    tx, ty = RANGE_TAGS[idx % 9]
    hows = lambda: rng.choice(['ctor', 'wflat'])
    operands = {'X': {'terms': X, 'range': tx, 'how': hows()}, 'Y': {'terms': Y, 'range': ty, 'how': hows()},
                'Y2': {'terms': Y2, 'range': ty, 'how': hows()}, 'Z': {'terms': Z, 'range': rng.choice(['known', 'known', 'none', 'inf']), 'how': hows()}}
    results = {'S': ['add', 'X', 'Y'], 'Sr': ['add', 'Y', 'X'], 'S2': ['add', 'X', 'Y2'], 'D': ['dagger', ['add', 'X', 'Y']],
               'DS': ['add', ['dagger', 'Y'], 'X'], 'T': ['add', ['add', 'X', 'Y'], 'Z']}
    if finite:
        results['P'] = ['plus_identity', ['add', 'X', 'Y'], cpx(rng, False), cpx(rng, False, real=True)]
        results['PS'] = ['add', ['plus_identity', 'Y', cpx(rng, False), [1.0, 0.0]], 'X']
    case = {'kind': 'results', 'site': {'type': kind, 'conserve': conserve}, 'L': L, 'bc': 'finite' if finite else 'infinite', 'nwin': nwin,
            'seed': 9000 + idx, 'operands': operands, 'results': results, 'long': {'range': rl, 'i0': i0, 'hermitian': herm_long, 'pair': how},
            'compare': [['S', 'S2'], ['S2', 'S'], ['S', 'Sr'], ['Sr', 'S2'], ['S', 'S'], ['D', 'S'], ['T', 'S'], ['DS', 'Sr']],
            'ev_max_range': rng.choice([12, 30, 200])}
    if finite:
        if conserve is None:
            case['state'] = {'kind': rng.choice(['full', 'full', 'product'])}
        else:
            p = [rng.choice(['up', 'down'] if kind == 'SpinHalf' else ['empty', 'full']) for _ in range(L)]
            case['state'] = {'kind': 'rue', 'p_state': p}
    else:
        case['psi_L'] = L if rng.random() < 0.5 else 2 * L
    if hrng is not None:
        case['hc'] = gen_hc(hrng, idx, kind, finite, L, N, cell, conserve)
    return case


UI_DTS = [[1, 0], [2, 0], [-1, 0], [0, 1], [0, -1], [1, 1], [2, -1], [-1, 2], [3, 0], [0, 2], [0, 0]]


def gen_ui(rng, idx):
    """finite H with integer / Gaussian-integer strengths (term lists or explicit W grids with IdL/IdR markers, standard sum form
    or not) and Gaussian-integer steps dt for the exact make_U_I correspondence"""
    kind = rng.choice(['SpinHalf', 'SpinHalf', 'Fermion'])
    L = rng.choice([1, 2, 3, 3, 4, 4, 5])
    case = {'kind': 'ui', 'site': {'type': kind, 'conserve': None}, 'L': L, 'exact': True}
    if rng.random() < 0.6:
        conserve = rng.choice([None, 'Sz' if kind == 'SpinHalf' else 'N'])
        if L == 1 and kind == 'Fermion':
            conserve = 'N'
        case['site']['conserve'] = conserve
        if L == 1:
            terms = [[[['Sz' if kind == 'SpinHalf' else 'N', 0]], cpx(rng, True)]]
            if kind == 'SpinHalf' and conserve is None and rng.random() < 0.5:
                terms.append([[['Sp', 0]], cpx(rng, True)])
        else:
            terms = gen_terms(rng, kind, L, conserve, True, rng.random() < 0.3, rng.randint(1, 4))
        case['A'] = {'terms': terms, 'insert_all_id': rng.random() < 0.8}
    else:
        case['A'] = gen_grid(rng, kind, L, True, True, rng.random() < 0.6)
    dts = rng.sample(UI_DTS[:-1], rng.choice([2, 3]))
    if rng.random() < 0.08:
        dts[-1] = UI_DTS[-1]
    case['dts'] = dts
    case['int_dt'] = rng.random() < 0.3
    # half of the charge-free cases: virtual indices permuted, so that IdL / IdR sit anywhere on the bond (IdL > IdR occurs)
    case['perm_seed'] = (7000 + idx) if (case['site']['conserve'] is None and rng.random() < 0.6) else None
    return case


# ------------------------------------------------------------------------------------------
# oracle
# ------------------------------------------------------------------------------------------

def chain_info(L, N, finite):
    return {'Ls': [L], 'order': [[i, 0] for i in range(L)], 'bc': [finite], 'finite': finite, 'N': N}


def load(r):
    npz = np.load(r['npz'])
    ops = {k[3:]: npz[k] for k in npz.files if k.startswith('op/')}
    mats = {k: npz[k] for k in npz.files if not k.startswith('op/')}
    return ops, mats


def dense_terms(dense, terms, infinite_cell=None):
    """TermList semantics: strength * product of the operators in the order written (Jordan-Wigner strings included)"""
    H = np.zeros((dense.D, dense.D), dtype=complex)
    n = 0
    for t, st in terms:
        shifts = [0]
        if infinite_cell:
            shifts = [k * infinite_cell for k in range(-6, dense.n // infinite_cell + 1)]
        for sh in shifts:
            tt = [(o, k + sh) for o, k in t]
            if dense.inside([k for _, k in tt]):
                H = H + complex(*st) * dense.product(tt)
                n += 1
    return H, n


def dense_grid(dense, spec, ops):
    """sum over all paths IdL -> IdR through explicit grids"""
    L = len(spec['grids'])
    cur = {spec['IdL'][0] % spec['chis'][0]: np.eye(1, dtype=complex)}
    for i, G in enumerate(spec['grids']):
        nxt = {}
        for a, X in cur.items():
            for b, ent in enumerate(G[a]):
                if ent is None:
                    continue
                m = sum(complex(*st) * ops[o] for o, st in ent)
                nxt[b] = nxt.get(b, 0) + np.kron(X, m)
        cur = nxt
    return cur.get(spec['IdR'][-1] % spec['chis'][-1], np.zeros((dense.D, dense.D), dtype=complex))


def tl_tensor_dense(dense, tl, cell=None):
    H = np.zeros((dense.D, dense.D), dtype=complex)
    for t, st in tl:
        shifts = [0] if not cell else [k * cell for k in range(-6, dense.n // cell + 1)]
        for sh in shifts:
            w = {k + sh: o for o, k in t}
            if dense.inside(list(w)):
                H = H + complex(*st) * dense.tensor(w)
    return H


def grid_edges(g):
    out = []
    for i, es in enumerate(g['edges']):
        def k(bond, x):
            if g['IdL'][bond] is not None and g['IdL'][bond] == x:
                return 'IdL'
            if g['IdR'][bond] is not None and g['IdR'][bond] == x:
                return 'IdR'
            return int(x)
        out.append([[k(i, a), k(i + 1, b), op, st] for a, b, op, st in es])
    return out


def check_algebra(ctx, case, r, coq):
    label = {'stream': 'algebra', 'case': case}
    if 'runner_error' in r:
        ctx.fail('correspondence', 'runner failed: ' + r['runner_error'][-500:], label)
        return
    ops, mats = load(r)
    L = case['L']
    geo = O.Geometry(chain_info(L, L, True))
    dense = O.Dense(geo, [ops], [r['needs_JW']])
    probs = []

    def ref_of(spec):
        if 'grids' in spec:
            return dense_grid(dense, spec, ops)
        return dense_terms(dense, spec['terms'])[0]
    A = ref_of(case['A'])
    scale = max(1.0, float(np.max(np.abs(A))))
    tol = TOL * scale

    def cmp(name, ref, what, key=None):
        if name in mats:
            d = maxdiff(mats[name], ref)
            if d > tol * max(1.0, float(np.max(np.abs(ref))) / scale):
                probs.append((key or 'C11:' + name, '%s differs from the dense operator by %.3e' % (what, d)))
    cmp('A', A, 'MPO built from the term list / grids')
    cmp('A_ed', A, 'ExactDiag.from_H_mpo')
    cmp('dagger', A.conj().T, 'MPO.dagger()')
    herm = maxdiff(A, A.conj().T) <= tol
    nonzero = float(np.max(np.abs(A))) > 1e-9
    if 'is_hermitian' in r and nonzero:
        defect = maxdiff(A, A.conj().T)
        if herm and not r['is_hermitian']:
            probs.append(('C11:is_hermitian:false-negative', 'operator is Hermitian but is_hermitian() is False'))
        if defect > 1e-4 * scale and r['is_hermitian']:
            probs.append(('C11:is_hermitian:false-positive', 'operator is not Hermitian (defect %.2e) but is_hermitian() is True' % defect))
    if case.get('B'):
        B = ref_of(case['B'])
        cmp('B', B, 'second MPO')
        cmp('sum', A + B, 'A + B (MPO.__add__)')
        nA, nB = float(np.sum(np.abs(A) ** 2)), float(np.sum(np.abs(B) ** 2))
        dist = float(np.sum(np.abs(A - B) ** 2))
        if 'overlap_AB' in r:
            ov = np.trace(A.conj().T @ B)
            if abs(complex(*r['overlap_AB']) - ov) > 1e-8 * max(1.0, abs(ov), nA, nB):
                probs.append(('C11:overlap', 'overlap(A, B) = %s, Tr(A^dagger B) = %s' % (r['overlap_AB'], ov)))
            if abs(complex(*r['overlap_AA']) - nA) > 1e-8 * max(1.0, nA):
                probs.append(('C11:overlap', 'overlap(A, A) = %s, |A|^2 = %s' % (r['overlap_AA'], nA)))
            if abs(r['distance_AB'] - dist) > 1e-7 * max(1.0, nA + nB):
                probs.append(('C11:distance', 'distance(A, B) = %s, |A - B|^2 = %s' % (r['distance_AB'], dist)))
        if 'is_equal_AB' in r and nA + nB > 1e-12:
            rel = dist / (nA + nB)
            if rel < 1e-13:
                if not (r['is_equal_AB'] and r['is_equal_BA']):
                    probs.append(('C11:is_equal:false-negative', 'A and B are the same operator (%s) but is_equal is False' % case['pair']['how']))
            elif rel > 1e-8:
                if r['is_equal_AB'] or r['is_equal_BA']:
                    probs.append(('C11:is_equal:false-positive', 'A and B differ (%s, relative distance %.2e) but is_equal is True'
                                  % (case['pair']['how'], rel)))
        if 'is_equal_AA' in r and not r['is_equal_AA']:
            if nA < 1e-20:
                probs.append(('C11:is_equal:zero-operator', 'is_equal(A, A) is False for the zero operator'))
            else:
                probs.append(('C11:is_equal:false-negative', 'is_equal(A, A) is False'))
        if case['pair'].get('same') is True and dist > 1e-16 * max(1.0, nA):
            ctx.fail('correspondence', 'harness: "same operator" pair differs densely', label)
    if 'plus_identity' in mats:
        pi = case['plus_identity']
        cmp('plus_identity', complex(*pi['alpha']) * np.eye(dense.D) + complex(*pi['beta']) * A, 'plus_identity(alpha, beta, sites=%s)' % pi['sites'])
    cmp('roundtrip', A, 'from_term_list(to_TermList(A))')
    if 'to_TermList' in r:
        T = tl_tensor_dense(dense, r['to_TermList'])
        if maxdiff(T, A) > tol:
            probs.append(('C11:to_TermList', 'sum of the terms of to_TermList differs from the operator by %.3e' % maxdiff(T, A)))
    composite = 'terms' in case['A'] and any(len(set(k for _, k in t)) < len(t) for t, _ in case['A']['terms'])
    if 'prefactors' in r and not composite:
        for (i, ops_), got in zip(case['prefactors'], r['prefactors']):
            P = dense.tensor({i + n: o for n, o in enumerate(ops_)})
            exp = np.trace(P.conj().T @ A) / np.trace(P.conj().T @ P)
            if abs(complex(*got) - exp) > 1e-9 * scale:
                probs.append(('C11:prefactor', 'prefactor(%d, %s) = %s, trace formula gives %s' % (i, ops_, got, exp)))
    # ---- states
    if 'psi' in mats:
        psi = mats['psi']
        nrm = np.linalg.norm(psi)
        if abs(nrm - 1) > 1e-9:
            ctx.fail('correspondence', 'runner: state not normalised', label)
        phi = A @ psi
        ev = np.vdot(psi, phi)
        if 'expectation_value' in r and abs(complex(*r['expectation_value']) - ev) > 1e-9 * scale:
            probs.append(('C11:expectation_value', 'expectation_value = %s, dense <psi|A|psi> = %s' % (r['expectation_value'], ev)))
        for k, x in enumerate(r.get('env_full_contraction', [])):
            if abs(complex(*x) - ev) > 1e-9 * scale:
                probs.append(('C11:MPOEnvironment', 'MPOEnvironment.full_contraction(%d) = %s, dense = %s' % (k, x, ev)))
                break
        if 'variance' in r:
            var = np.vdot(psi, A @ phi) - ev ** 2
            if abs(complex(*r['variance']) - var) > 1e-8 * scale ** 2:
                probs.append(('C11:variance', 'variance = %s, dense <A^2> - <A>^2 = %s' % (r['variance'], var)))
        nphi = np.linalg.norm(phi)
        for meth in case.get('apply', []):
            nm = 'apply_' + meth['name']
            if nm not in mats or nphi < 1e-9:
                continue
            res = mats[nm]
            info = r[nm]
            eps = info['eps'] or 0.0
            full = meth['method'] == 'naive' or meth['trunc_params']['chi_max'] >= 100
            if full:
                d = np.linalg.norm(res - phi) / nphi
                key_ = 'C11:' + nm
                if d > 1e-7 and meth['method'] == 'variational':
                    # Schmidt ranks of the exact vector vs bond dimensions of the returned state
                    ranks = []
                    for b_ in range(1, L):
                        dl_ = int(np.prod(r['dims'][:b_]))
                        sv = np.linalg.svd(phi.reshape(dl_, -1), compute_uv=False)
                        ranks.append(int(np.sum(sv > 1e-10 * sv[0])))
                    if any(c_ < k_ for c_, k_ in zip(info['chi'], ranks)) and any(c_ < k_ for c_, k_ in zip(r['psi_chi'], ranks)):
                        key_ = 'C11:apply:variational:stuck-below-required-bond-dimension'
                if d > 1e-7:
                    probs.append((key_, 'A|psi> by %s (no truncation needed) differs from the dense vector by %.2e (relative)' % (meth['name'], d)))
                if eps > 1e-12:
                    probs.append(('C11:' + nm + ':eps', '%s reports truncation error %.2e without truncating' % (meth['name'], eps)))
            else:
                nr = np.linalg.norm(res)
                if nr < 1e-12:
                    probs.append(('C11:' + nm, '%s returned the zero vector' % meth['name']))
                    continue
                infid = 1 - abs(np.vdot(res, phi)) ** 2 / (nr * nphi) ** 2
                # best possible rank-chi approximation error is not known here; the reported error must cover the infidelity
                if meth['method'] == 'variational':
                    # the variational sweep reports the largest local two-site truncation of the last sweep, which does not
                    # bound the distance to the exact vector (local optimum): only sanity is checked
                    if not np.all(np.isfinite(res)):
                        probs.append(('C11:' + nm, 'variational result is not finite'))
                    continue
                # SVD compression truncates in canonical form: |delta|^2 <= 2 (L-1) sum eps.  zip_up truncates in a gauge that is
                # canonical only for MPOs close to the identity (documented): its error is checked up to a loose factor
                factor = 12 if meth['method'] == 'SVD' else 200
                if infid > factor * eps + 1e-9:
                    probs.append(('C11:' + nm + ':error-underreported', '%s: infidelity %.3e of the result exceeds the reported truncation error %.3e'
                                  % (meth['name'], infid, eps)))
    annihilated = 'psi' in mats and np.linalg.norm(A @ mats['psi']) < 1e-9
    for nm, e in r['errors'].items():
        if nm.startswith('apply_') and annihilated:
            continue        # A|psi> = 0 cannot be normalised
        if nm == 'to_TermList' and not nonzero:
            continue        # the zero operator has no terms to rebuild an MPO from
        probs.append(('C11:raises:' + nm, 'operation %s raised %s' % (nm, e)))
    ctx.count('algebra', case, nontrivial=nonzero, sample={'L': L, 'site': case['site'], 'pair': case.get('pair'), 'ops': sorted(mats)})
    seen = set()
    for key, text in probs:
        if key not in seen:
            seen.add(key)
            ctx.fail('oracle', text, label, match_key=key)
    # ---- Coq literals
    if case.get('exact') and 'gridA' in r and r['gridA']['resid'] < 1e-9:
        kind = case['site']['type']
        try:
            if 'gridS' in r and 'gridB' in r:
                lit = Lit()
                s = '(%s, %s, %s)' % (lit.graph(grid_edges(r['gridA'])), lit.graph(grid_edges(r['gridB'])), lit.graph(grid_edges(r['gridS'])))
                if lit.ok:
                    coq['add'].append((s, case))
            if 'gridD' in r:
                lit = Lit()
                ga, gd = lit.graph(grid_edges(r['gridA'])), lit.graph(grid_edges(r['gridD']))
                tbl = '[' + '; '.join('(%s, %s)' % (z(lit.op(a)), z(lit.op(b))) for a, b in r['hc'].items()) + ']'
                if lit.ok:
                    coq['dagger'].append(('(%s, %s, %s)' % (tbl, ga, gd), case))
            if 'gridP' in r:
                lit = Lit()
                pi = case['plus_identity']
                s = '(%s, %s, %s, %s)' % (lit.c(pi['alpha']), lit.c(pi['beta']), lit.graph(grid_edges(r['gridA'])), lit.graph(grid_edges(r['gridP'])))
                if lit.ok:
                    coq['plus_id'].append((s, case))
            if 'to_TermList' in r:
                lit = Lit()
                terms = [(complex(*st), {k: o for o, k in t}) for t, st in r['to_TermList']]
                s = '(%s, %s)' % (lit.graph(grid_edges(r['gridA'])), lit.poly(terms))
                if lit.ok:
                    coq['denote'].append((s, case))
        except Exception as e:
            ctx.fail('correspondence', 'literal construction failed: %r' % (e,), label)


def check_infinite(ctx, case, r):
    label = {'stream': 'infinite', 'case': case}
    if 'runner_error' in r:
        ctx.fail('correspondence', 'runner failed: ' + r['runner_error'][-500:], label)
        return
    ops, mats = load(r)
    L, N = r['L'], r['N']
    geo = O.Geometry(chain_info(L, N, False))
    dense = O.Dense(geo, [ops], [r['needs_JW']])
    A, nA = dense_terms(dense, case['A']['terms'], infinite_cell=L)
    B, nB = dense_terms(dense, case['B']['terms'], infinite_cell=L)
    scale = max(1.0, float(np.max(np.abs(A))))
    tol = TOL * scale
    probs = []
    for nm, ref, what in (('A', A, 'infinite MPO on a window'), ('B', B, 'second infinite MPO on a window'), ('sum', A + B, 'A + B on a window'),
                          ('dagger', A.conj().T, 'dagger on a window')):
        if nm in mats and maxdiff(mats[nm], ref) > tol:
            probs.append(('C11:infinite:' + nm, '%s differs from the dense operator by %.3e' % (what, maxdiff(mats[nm], ref))))
    if 'to_TermList' in r:
        T = tl_tensor_dense(dense, r['to_TermList'], cell=L)
        if maxdiff(T, A) > tol:
            probs.append(('C11:infinite:to_TermList', 'translates of the terms of to_TermList differ from the operator on the window by %.3e' % maxdiff(T, A)))
    # decision procedures: the harness knows whether the pair is the same operator
    same = case['pair']['same']
    if 'is_equal_AB' in r:
        if same and not r['is_equal_AB']:
            probs.append(('C11:infinite:is_equal:false-negative', 'same operator (%s) but is_equal is False' % case['pair']['how']))
        zeroA = float(np.max(np.abs(A))) < 1e-12
        if zeroA and (not r['is_equal_AA'] or (same and not r['is_equal_AB'])):
            probs = [p_ for p_ in probs if not p_[0].endswith('false-negative')]
            probs.append(('C11:is_equal:zero-operator', 'is_equal(A, A) is False for the zero operator'))
        if not same and maxdiff(A, B) > 1e-4 * scale and r['is_equal_AB']:
            key_ = 'C11:infinite:is_equal:false-positive'
            # known: the window of is_equal is L + 2 * self.max_range sites, the range of `other` is ignored
            mr = r.get('A_max_range')
            nsites = L + 2 * (int(mr) if (mr is not None and np.isfinite(mr)) else L)
            span = lambda t: max(k for _, k in t) - min(k for _, k in t) + 1
            ta = set(str(sorted(map(tuple, t))) for t, _ in case['A']['terms'])
            extra = [t for t, _ in case['B']['terms'] if str(sorted(map(tuple, t))) not in ta]
            if extra and all(span(t) > nsites for t in extra):
                key_ = 'C11:is_equal:infinite-window-ignores-range-of-other'
            probs.append((key_, 'operators differ (%s) but is_equal(A, B) is True' % case['pair']['how']))
        if not r['is_equal_AA'] and not zeroA:
            probs.append(('C11:infinite:is_equal:false-negative', 'is_equal(A, A) is False'))
    # expectation values in the product state: density = sum of terms starting in the unit cell / L
    Lp = case.get('psi_L', L)
    vec = np.array([1.0 + 0j])
    for k in range(N):
        vec = np.kron(vec, np.array([complex(*x) for x in r['state'][k % Lp]]))
    dens = 0
    Lc = max(L, Lp)            # common period (Lp is L or 2 L)
    for sh in range(0, Lc, L):
        for t, st in case['A']['terms']:
            if dens is not None and max(k for _, k in t) + sh < N and min(k for _, k in t) >= 0:
                dens += complex(*st) * np.vdot(vec, dense.product([(o, k + sh) for o, k in t]) @ vec)
            else:
                dens = None
    if dens is not None:
        dens = dens / Lc
        for nm in ('expectation_value', 'expectation_value_power', 'expectation_value_TM'):
            if nm in r and abs(complex(*r[nm]) - dens) > 1e-7 * scale:
                probs.append(('C11:infinite:' + nm, '%s = %s, density of the terms in the product state = %s' % (nm, r[nm], dens)))
    herm_terms = maxdiff(A, A.conj().T) <= tol
    for nm, e in r['errors'].items():
        probs.append(('C11:infinite:raises:' + nm, 'operation %s raised %s' % (nm, e)))
    ctx.count('infinite', case, nontrivial=nA > 0, sample={'L': L, 'N': N, 'pair': case['pair']})
    seen = set()
    for key, text in probs:
        if key not in seen:
            seen.add(key)
            ctx.fail('oracle', text, label, match_key=key)


def site_factors(dense, term):
    """the ordered product of the operators of `term`, each with its Jordan-Wigner string to the left, is a tensor product
    over the sites: factor of site s = ordered product of (op if it acts on s, JW if it is fermionic and acts right of s)"""
    lo, hi = min(k for _, k in term), max(k for _, k in term)
    out = {}
    for s_ in range(lo, hi + 1):
        m = None
        for name, k in term:
            if k == s_:
                f = dense.local(name, k)
            elif s_ < k and dense.jw_needed(name, k):
                f = dense.local('JW', s_)
            else:
                continue
            m = f if m is None else m @ f
        if m is not None:
            out[s_] = m
    return out


def dense_terms_fast(dense, terms, infinite_cell=None):
    """as dense_terms, one Kronecker product per term (fermionic terms here have an even number of fermionic operators, so
    no string extends to the left of the term)"""
    H = np.zeros((dense.D, dense.D), dtype=complex)
    for t, st in terms:
        shifts = [0]
        if infinite_cell:
            shifts = [k * infinite_cell for k in range(-6, dense.n // infinite_cell + 1)]
        for sh in shifts:
            tt = [(o, k + sh) for o, k in t]
            if dense.inside([k for _, k in tt]):
                fac = site_factors(dense, tt)
                mats = [fac.get(k, np.eye(dense.dims[k - dense.geo.lo])) for k in range(dense.geo.lo, dense.geo.hi + 1)]
                H = H + complex(*st) * dense.kron_list(mats)
    return H


def product_state_value(dense, term, vecs):
    """<v|term|v> in the product state with local vectors vecs[site]"""
    val = 1.0 + 0j
    for s_, m in site_factors(dense, term).items():
        val = val * np.vdot(vecs(s_), m @ vecs(s_))
    return val


def term_span(t):
    return max(k for _, k in t) - min(k for _, k in t)


def check_results(ctx, case, r):
    label = {'stream': 'results', 'case': case}
    if 'runner_error' in r:
        ctx.fail('correspondence', 'runner failed: ' + r['runner_error'][-500:], label)
        return
    ops, mats = load(r)
    kind = case['site']['type']
    L, N = r['L'], r['N']
    finite = case['bc'] == 'finite'
    geo = O.Geometry(chain_info(L, N, finite))
    dense = O.Dense(geo, [ops], [r['needs_JW']])
    cell = None if finite else L
    probs = []

    if not finite:
        Lp = case.get('psi_L', L)
        Lc = max(L, Lp)
        local_vec = lambda k: np.array([complex(*x) for x in r['state'][k % Lp]])

    def density(tl):
        """sum of the terms starting in one period of (operator, state) in the product state, per site"""
        dens = 0
        for sh in range(0, Lc, L):
            for t, st in tl:
                sh0 = -(min(k for _, k in t) // L) * L + sh        # translate: the term starts in the first unit cell (+ sh)
                dens += complex(*st) * product_state_value(dense, [(o_, k + sh0) for o_, k in t], local_vec)
        return dens / Lc
    cache = {}

    def terms_of(expr):
        """(dense operator on the window, true range, density in the product state or None) of an expression, from the documentation"""
        if isinstance(expr, str):
            if expr not in cache:
                tl = case['operands'][expr]['terms']
                cache[expr] = (dense_terms_fast(dense, tl, infinite_cell=cell), max(term_span(t) for t, _ in tl), None if finite else density(tl))
            return cache[expr]
        if expr[0] == 'add':
            da, ra, ea = terms_of(expr[1])
            db, rb, eb = terms_of(expr[2])
            return da + db, max(ra, rb), (None if ea is None or eb is None else ea + eb)
        if expr[0] == 'dagger':
            da, ra, ea = terms_of(expr[1])
            return da.conj().T, ra, (None if ea is None else np.conj(ea))
        if expr[0] == 'plus_identity':
            da, ra, ea = terms_of(expr[1])
            return complex(*expr[2]) * np.eye(dense.D) + complex(*expr[3]) * da, ra, None
        raise ValueError(expr[0])
    for nm, (claimed, tag) in r['operand_max_range'].items():
        true_r = max(term_span(t) for t, _ in case['operands'][nm]['terms'])
        if claimed is None or claimed < true_r:
            probs.append(('C11:results:max_range-of-from_term_list', 'MPO built from the term list of %s claims max_range %s, its longest term has range %d'
                          % (nm, claimed, true_r)))
    refs = {}
    psi = mats.get('psi')
    for nm, expr in case['results'].items():
        o = r['results'].get(nm, {})
        ref, true_r, dens = terms_of(expr)
        refs[nm] = ref
        desc = '%s = %s with max_range of the operands %s' % (nm, expr if len(str(expr)) < 90 else str(expr)[:90],
                                                             {k_: v_['range'] for k_, v_ in case['operands'].items()})
        scale = max(1.0, float(np.max(np.abs(ref))))
        tol = TOL * scale
        if 'R/' + nm not in mats:
            continue
        if maxdiff(mats['R/' + nm], ref) > tol:
            probs.append(('C11:results:dense', '%s: W tensors differ from the dense operator by %.3e' % (desc, maxdiff(mats['R/' + nm], ref))))
            continue
        # documented meta-data: "maximum range of hopping/interactions, None for unknown" - a known range is an upper bound
        mr = o.get('max_range')
        for which, val in (('', mr), (' after sort_legcharges()', o.get('max_range_sorted', mr))):
            if val is not None and val != 'inf' and val < true_r:
                probs.append(('C11:results:max_range-underclaimed', '%s: the result claims max_range=%s%s but contains a coupling of range %d'
                              % (desc, val, which, true_r)))
                break
        herm_defect = maxdiff(ref, ref.conj().T)
        nonzero = float(np.max(np.abs(ref))) > 1e-9
        if 'is_hermitian' in o and nonzero:
            if herm_defect <= tol and not o['is_hermitian']:
                probs.append(('C11:results:is_hermitian:false-negative', '%s: the operator is Hermitian but is_hermitian() is False' % desc))
            if herm_defect > 1e-4 * scale and o['is_hermitian']:
                probs.append(('C11:results:is_hermitian:false-positive', '%s: the operator is not Hermitian (defect %.2e, in a coupling of range %d) '
                              'but is_hermitian() is True' % (desc, herm_defect, case['long']['range'])))
        # (to_TermList starts every term with weight 1 at IdL: not meaningful after plus_identity with beta != 1, which puts beta there)
        scaled = 'plus_identity' in str(expr) and any(isinstance(e_, list) and e_[0] == 'plus_identity' and list(e_[3]) != [1.0, 0.0]
                                                      for e_ in [expr] + [x_ for x_ in expr[1:] if isinstance(x_, list)])
        if 'to_TermList' in o and not scaled:
            T = tl_tensor_dense(dense, o['to_TermList'], cell=cell)
            if 'plus_identity' in str(expr):
                # (a multiple of the identity is not a term: compared modulo the identity)
                T = T + (np.trace(ref) - np.trace(T)) / dense.D * np.eye(dense.D)
            good = maxdiff(T, ref) <= tol
            if not good:
                longest = max([term_span(t) for t, _ in o['to_TermList']] + [0])
                probs.append(('C11:results:to_TermList', '%s: the terms of to_TermList() (longest range %d) differ from the operator by %.3e; '
                              'the operator has a coupling of range %d' % (desc, longest, maxdiff(T, ref), true_r)))
            Traw = tl_tensor_dense(dense, o['to_TermList_raw'], cell=cell)
            if 'plus_identity' in str(expr):
                Traw = Traw + (np.trace(ref) - np.trace(Traw)) / dense.D * np.eye(dense.D)
            if maxdiff(Traw, ref) > tol and good:
                if o.get('IdR_negative') and not o['to_TermList_raw']:
                    probs.append((K_TTL_NEG, '%s: to_TermList() of the result returns NO terms (IdR markers of the sum are -1, which never equals a '
                                  'column index); after sort_legcharges() the terms are right' % desc))
                else:
                    probs.append(('C11:results:to_TermList_raw', '%s: the terms of to_TermList() before sort_legcharges() differ from the operator by %.3e'
                                  % (desc, maxdiff(Traw, ref))))
        if finite and psi is not None:
            phi = ref @ psi
            ev = np.vdot(psi, phi)
            if 'expectation_value' in o and abs(complex(*o['expectation_value']) - ev) > 1e-9 * scale:
                probs.append(('C11:results:expectation_value', '%s: expectation_value = %s, dense <psi|R|psi> = %s' % (desc, o['expectation_value'], ev)))
            if 'variance' in o:
                var = np.vdot(psi, ref @ phi) - ev ** 2
                if abs(complex(*o['variance']) - var) > 1e-8 * scale ** 2:
                    probs.append(('C11:results:variance', '%s: variance = %s, dense <R^2> - <R>^2 = %s' % (desc, o['variance'], var)))
        elif not finite and dens is not None:
            for q in ('expectation_value', 'expectation_value_mr', 'expectation_value_power', 'expectation_value_TM'):
                if q in o and abs(complex(*o[q]) - dens) > 1e-7 * scale:
                    probs.append(('C11:results:' + q, '%s: %s = %s, density of the terms in the product state = %s' % (desc, q, o[q], dens)))
    for a, b in case['compare']:
        key = a + ':' + b
        if key not in r['is_equal'] or a not in refs or b not in refs:
            continue
        A, B = refs[a], refs[b]
        nA, nB = float(np.sum(np.abs(A) ** 2)), float(np.sum(np.abs(B) ** 2))
        if nA + nB < 1e-12:
            continue
        rel = float(np.sum(np.abs(A - B) ** 2)) / (nA + nB)
        tags = {k_: v_['range'] for k_, v_ in case['operands'].items()}
        if rel < 1e-13 and not r['is_equal'][key]:
            probs.append(('C11:results:is_equal:false-negative', '%s.is_equal(%s) is False for the same operator (%s, %s; max_range of the operands %s)'
                          % (a, b, case['results'][a], case['results'][b], tags)))
        if rel > 1e-6 and r['is_equal'][key]:
            key_ = 'C11:results:is_equal:false-positive'
            claim = r['results'][a].get('max_range')
            if not finite and claim is not None and claim != 'inf' and claim >= terms_of(case['results'][a])[1] and \
                    L + 2 * claim < case['long']['i0'] + case['long']['range'] + 1:
                # known (F115): the window is L + 2 * self.max_range for a CORRECT short range of self; the longer coupling of `other`
                # does not fit into it
                key_ = 'C11:is_equal:infinite-window-ignores-range-of-other'
            probs.append((key_, '%s.is_equal(%s) is True although the operators differ (relative distance %.2e on the window) in a '
                          'coupling of range %d <= 3L-1 (%s = %s, %s = %s; max_range of the operands %s; claimed max_range of %s: %s)'
                          % (a, b, rel, case['long']['range'], a, case['results'][a], b, case['results'][b], tags, a, r['results'][a].get('max_range'))))
    if case.get('hc') and 'hc' in r:
        hc, rh = case['hc'], r['hc']
        dref, flag, stored = {}, {}, {}
        for nm in ('P', 'Q'):
            stored[nm] = dense_terms_fast(dense, hc[nm]['terms'], infinite_cell=cell)
            flag[nm] = bool(hc[nm]['plus_hc'])
            dref[nm] = stored[nm] + stored[nm].conj().T if flag[nm] else stored[nm]
        hdesc = 'explicit_plus_hc operands (%s; P: flag=%s, max_range %s; Q: flag=%s, max_range %s)' % (
            hc['mode'], flag['P'], hc['P']['range'], flag['Q'], hc['Q']['range'])
        for nm in ('P', 'Q'):
            o = rh['operands'].get(nm, {})
            ref = dref[nm]
            scale = max(1.0, float(np.max(np.abs(ref))))
            tol = TOL * scale
            what = '%s: %s (%s)' % (hdesc, nm, 'stored half + flag' if flag[nm] else 'written in full')
            if 'HC/' + nm not in mats:
                continue
            if o.get('flag') != flag[nm]:
                probs.append(('C11:hc:flag', '%s: the MPO has explicit_plus_hc=%s' % (what, o.get('flag'))))
            if maxdiff(mats['HC/' + nm], ref) > tol:
                probs.append(('C11:hc:dense', '%s: W tensors (+ h.c.) differ from the dense operator by %.3e' % (what, maxdiff(mats['HC/' + nm], ref))))
                continue
            if 'HC/dagger/' + nm in mats and maxdiff(mats['HC/dagger/' + nm], ref.conj().T) > tol:
                probs.append(('C11:hc:dagger', '%s: dagger() (flag of the result: %s) differs from the conjugate of the dense operator by %.3e'
                              % (what, o.get('dagger_flag'), maxdiff(mats['HC/dagger/' + nm], ref.conj().T))))
            if 'HC/ed/' + nm in mats and maxdiff(mats['HC/ed/' + nm], ref) > tol:
                probs.append(('C11:hc:ExactDiag', '%s: ExactDiag.from_H_mpo differs from the dense operator by %.3e' % (what, maxdiff(mats['HC/ed/' + nm], ref))))
            herm_defect = maxdiff(ref, ref.conj().T)
            if 'is_hermitian' in o and float(np.max(np.abs(ref))) > 1e-9:
                if herm_defect <= tol and not o['is_hermitian']:
                    probs.append(('C11:hc:is_hermitian:false-negative', '%s: the operator is Hermitian but is_hermitian() is False' % what))
                if herm_defect > 1e-4 * scale and o['is_hermitian']:
                    probs.append(('C11:hc:is_hermitian:false-positive', '%s: the operator is not Hermitian (defect %.2e) but is_hermitian() is True'
                                  % (what, herm_defect)))
            if finite and psi is not None:
                phi = ref @ psi
                ev = np.vdot(psi, phi)
                if 'expectation_value' in o and abs(complex(*o['expectation_value']) - ev) > 1e-9 * scale:
                    probs.append(('C11:hc:expectation_value', '%s: expectation_value = %s, dense <psi|O|psi> = %s' % (what, o['expectation_value'], ev)))
                var = np.vdot(psi, ref @ phi) - ev ** 2
                if 'variance' in o and abs(complex(*o['variance']) - var) > 1e-8 * scale ** 2:
                    probs.append(('C11:hc:variance', '%s: variance = %s, dense <O^2> - <O>^2 = %s (<O> = %s)' % (what, o['variance'], var, ev)))
                if 'variance_raises' in o and not flag[nm]:
                    probs.append(('C11:hc:variance', '%s: variance raised %s without the flag' % (what, o['variance_raises'])))
            elif not finite:
                dens = density(hc[nm]['terms'])
                if flag[nm]:
                    dens = dens + np.conj(dens)
                for q in ('expectation_value', 'expectation_value_power', 'expectation_value_TM'):
                    if q in o and abs(complex(*o[q]) - dens) > 1e-7 * scale:
                        probs.append(('C11:hc:' + q, '%s: %s = %s, density of the terms (+ h.c.) in the product state = %s' % (what, q, o[q], dens)))
            if 'prefactors' in o and not flag[nm]:
                # (prefactor / to_TermList read the stored tensors; compared for operands written in full)
                for (i_, ops_), got in zip(hc[nm]['prefactors'], o['prefactors']):
                    Pm = dense.tensor({i_ + n_: o_ for n_, o_ in enumerate(ops_)})
                    exp_ = np.trace(Pm.conj().T @ ref) / np.trace(Pm.conj().T @ Pm)
                    if abs(complex(*got) - exp_) > 1e-9 * scale:
                        probs.append(('C11:hc:prefactor', '%s: prefactor(%d, %s) = %s, trace formula gives %s' % (what, i_, ops_, got, exp_)))
        norm2 = {nm: float(np.sum(np.abs(dref[nm]) ** 2)) for nm in dref}
        for key, o in rh['pairs'].items():
            a, b = key.split(':')
            if 'HC/' + a not in mats or 'HC/' + b not in mats:
                continue
            A, B = dref[a], dref[b]
            ov = np.trace(A.conj().T @ B)
            dist = float(np.sum(np.abs(A - B) ** 2))
            big = max(1.0, norm2[a], norm2[b])
            what = '%s: %s.%%s(%s) on %d sites' % (hdesc, a, b, N)
            if 'overlap' in o and abs(complex(*o['overlap']) - ov) > 1e-8 * big:
                probs.append(('C11:hc:overlap', (what % 'overlap') + ' = %s, dense Tr[A^dagger B] = %s' % (o['overlap'], ov)))
            if 'distance' in o and abs(complex(*o['distance']) - dist) > 1e-7 * big:
                probs.append(('C11:hc:distance', (what % 'distance') + ' = %s, dense |A - B|^2 = %s' % (o['distance'], dist)))
            if 'is_equal' in o and norm2[a] + norm2[b] > 1e-12:
                rel = dist / (norm2[a] + norm2[b])
                if rel < 1e-13 and not o['is_equal']:
                    probs.append(('C11:hc:is_equal:false-negative', (what % 'is_equal') + ' is False for the same operator'))
                if rel > 1e-8 and o['is_equal']:
                    probs.append(('C11:hc:is_equal:false-positive', (what % 'is_equal') + ' is True although the operators differ (relative distance %.2e)' % rel))
        for key, o in rh['add'].items():
            a, b = key.split(':')
            what = '%s: %s + %s' % (hdesc, a, b)
            if 'raises' in o:
                if flag[a] == flag[b]:
                    probs.append(('C11:hc:add', '%s raised %s for equal flags' % (what, o['raises'])))
                continue
            nm_ = 'HC/add/' + key
            if nm_ in mats:
                ref = dref[a] + dref[b]
                scale = max(1.0, float(np.max(np.abs(ref))))
                if maxdiff(mats[nm_], ref) > TOL * scale:
                    probs.append(('C11:hc:add', '%s (flag of the sum: %s) differs from the sum of the dense operators by %.3e'
                                  % (what, o.get('flag'), maxdiff(mats[nm_], ref))))
                elif float(np.max(np.abs(ref))) > 1e-9:
                    hd = maxdiff(ref, ref.conj().T)
                    if 'is_hermitian' in o and ((hd <= TOL * scale and not o['is_hermitian']) or (hd > 1e-4 * scale and o['is_hermitian'])):
                        probs.append(('C11:hc:add:is_hermitian', '%s: is_hermitian() = %s, Hermiticity defect of the dense sum %.2e' % (what, o['is_hermitian'], hd)))
                    if o.get('is_equal_rev') is False:
                        probs.append(('C11:hc:add:is_equal', '%s: is_equal(%s + %s) is False' % (what, b, a)))
        ctx.count('results_plus_hc', [case['seed'], hc], nontrivial=True,
                  sample={'bc': case['bc'], 'L': L, 'mode': hc['mode'], 'flags': [flag['P'], flag['Q']], 'stored_hermitian': hc['stored_hermitian']})
    for nm, e in r['errors'].items():
        probs.append(('C11:results:raises:' + nm.split(':')[0], 'operation %s raised %s' % (nm, e)))
    ctx.count('results', case, nontrivial=True, sample={'L': L, 'bc': case['bc'], 'site': case['site'], 'long': case['long'],
                                                        'ranges': {k_: v_['range'] for k_, v_ in case['operands'].items()}})
    seen = set()
    for key, text in probs:
        if key not in seen:
            seen.add(key)
            ctx.fail('oracle', text, label, match_key=key)


K_UI_NEG = 'C11:make_U_I:negative-IdR-marker:markers-of-U-negative'


def check_propagator(ctx, case, r):
    label = {'stream': 'propagator', 'case': case}
    if 'runner_error' in r:
        ctx.fail('correspondence', 'runner failed: ' + r['runner_error'][-500:], label)
        return
    ops, mats = load(r)
    L = r['L']
    finite = case.get('bc', 'finite') == 'finite'
    N = r.get('N', L)
    geo = O.Geometry(chain_info(L, N, finite))
    dense = O.Dense(geo, [ops], [r['needs_JW']])
    H, _ = dense_terms(dense, case['A']['terms'], infinite_cell=None if finite else L)
    form = case.get('form', 'single')
    desc = '%s %s MPO (L=%d%s)' % (case.get('bc', 'finite'), {'single': 'single-graph', 'sum': 'A + B (MPO.__add__)', 'negmarkers': 'negative-IdR-marker'}[form],
                                   L, '' if finite else ', window of %d sites' % N)
    if maxdiff(mats['H'], H) > 1e-10:
        ctx.fail('oracle', 'Hamiltonian MPO differs from its terms', label, match_key='C11:propagator:H')
    targets = [('', H, 'the whole chain' if finite else 'the window')]
    if case.get('window'):
        a, n = case['window']
        sub = [[[[o_, k - a] for o_, k in t], st] for t, st in case['A']['terms'] if all(a <= k < a + n for _, k in t)]
        dsub = O.Dense(O.Geometry(chain_info(n, n, True)), [ops], [r['needs_JW']])
        targets.append(('w', dense_terms(dsub, sub)[0], 'sites %d..%d between the markers IdL[%d] / IdR[%d] of the propagator' % (a, a + n - 1, a, a + n)))
    probs = []
    neg_H = any(x is not None and x < 0 for x in r.get('H_IdR', []))
    for pre, Href, where in targets:
        w, V = np.linalg.eigh(Href)
        for which, power in (('I', 2), ('II', 2), ('Io2', 3), ('IIo2', 3)):
            errs = []
            for n, dt in enumerate(case['dts']):
                nm = 'U%s%s_%d' % (pre, which, n)
                if nm not in mats:
                    continue
                U = (V * np.exp(complex(*dt) * w)) @ V.conj().T
                errs.append(float(np.linalg.norm(mats[nm] - U, 2)))
            if os.environ.get('C11_SHOW_ERRS'):
                print(which, pre, case['dts'][0], errs)
            if len(errs) == 3:
                bads = []
                # the error must decrease at least like the documented power of the step (margin 0.6 in the exponent)
                for a_, b_ in ((errs[0], errs[1]), (errs[1], errs[2])):
                    if a_ < 1e-13:
                        continue
                    slope = np.log2(a_ / max(b_, 1e-300))
                    if slope < power - 0.6:
                        bads.append(('order', 'errors %s for dt, dt/2, dt/4: slope %.2f < documented power %d' % (['%.2e' % e for e in errs], slope, power)))
                        break
                if errs[0] > 0.08:
                    bads.append(('error', 'error %.2e at dt=%s is not small' % (errs[0], case['dts'][0])))
                for bad in bads:
                    key_ = 'C11:make_U_%s:%s' % (which, bad[0])
                    mk_ = r.get('U_markers', {}).get('I_0')
                    if which in ('I', 'Io2') and neg_H and mk_ and any(x is not None and x < 0 for x in mk_[0] + mk_[1]):
                        # known (F118): IdL > IdR for a negative IdR marker, the marker of the propagator becomes IdL - 1 = -1
                        key_ = K_UI_NEG
                    probs.append((key_, 'make_U_%s of a %s, contracted over %s: %s (IdR markers of H: %s, markers of U_I: %s)'
                                  % (which, desc, where, bad[1], r.get('H_IdR'), mk_[0] if mk_ else None)))
    for nm, e in r['errors'].items():
        probs.append(('C11:propagator:raises:' + nm, 'operation %s raised %s' % (nm, e)))
    ctx.count('propagator', case, nontrivial=True, sample={'L': L, 'dts': case['dts'], 'bc': case.get('bc', 'finite'), 'form': form})
    seen = set()
    for key, text in probs:
        if key not in seen:
            seen.add(key)
            ctx.fail('oracle', text, label, match_key=key)


def ui_rgrid(lit, g):
    """raw W grid -> Coq literal of type rgrid (Model/PropUICheck.v)"""
    return '[' + '; '.join('[' + '; '.join('(%s, %s, %s, %s)' % (z(int(a)), z(int(b)), z(lit.op(op)), lit.c(st)) for a, b, op, st in es) + ']'
                           for es in g['edges']) + ']'


def ui_literal(gH, gU, dt):
    """(literal of type uicase, ok)"""
    lit = Lit()
    zl = lambda xs: '[' + '; '.join(z(int(x)) for x in xs) + ']'
    if any(x is None for x in gH['IdL'] + gH['IdR'] + gU['IdL'] + gU['IdR']):
        return None, False
    s = '(mkUIC %s %s %s %s %s %s %s %s %s)' % (lit.c(dt), zl(gH['IdL']), zl(gH['IdR']), zl(gH['chi']), ui_rgrid(lit, gH),
                                               zl(gU['IdL']), zl(gU['IdR']), zl(gU['chi']), ui_rgrid(lit, gU))
    return s, lit.ok and gH['resid'] < 1e-9 and gU['resid'] < 1e-9


def check_ui(ctx, case, r, coq):
    label = {'stream': 'c11_make_U_I', 'case': case}
    if 'runner_error' in r:
        ctx.fail('correspondence', 'runner failed: ' + r['runner_error'][-500:], label)
        return
    gH = r['gridH']
    if any(x is None for x in gH['IdL'] + gH['IdR']):
        # documented precondition of make_U_I (asserted): IdL and IdR are known on every bond
        ctx.count('c11_make_U_I_skipped', [case['A'], 'no markers'], nontrivial=False)
        return
    for nm, e in r['errors'].items():
        ctx.fail('oracle', 'operation %s raised %s' % (nm, e), label, match_key='C11:make_U_I:raises')
    if r['gridH_after'] != gH:
        ctx.fail('oracle', 'make_U_I modified the W tensors / markers of H itself', label, match_key='C11:make_U_I:modifies-H')
    for gU in r['U']:
        s, ok = ui_literal(gH, gU, gU['dt'])
        if ok:
            coq['ui'].append((s, dict(case, dts=[gU['dt']])))
        else:
            ctx.count('c11_make_U_I_skipped', [case['A'], gU['dt']], nontrivial=False)


def main(ctx):
    rng = ctx.rng
    ctx.proof = common.check_proofs('C11', extra_targets=['Model/PropUICheck.vo'])
    n_alg = ctx.pick(420, 4000)
    n_inf = ctx.pick(120, 1000)
    n_prop = ctx.pick(16, 120)
    n_ui = ctx.pick(150, 700)
    n_res = ctx.pick(108, 900)
    n_prop2 = ctx.pick(12, 96)
    if not ctx.proof.ok:
        n_res = int(n_res * 1.5)
    if not ctx.proof.ok:
        n_alg = int(n_alg * 1.6)
        n_ui = int(n_ui * 1.6)
    cases = [c['case'] for c in common.corpus_cases('C11')]
    if ctx.replay_in:
        import json
        replay = json.load(open(ctx.replay_in)).get('input') or {}
        if isinstance(replay.get('case'), dict):
            cases.append(replay['case'])
            n_alg = n_inf = n_prop = n_ui = n_res = n_prop2 = 0
    cases += [gen_algebra(rng, i) for i in range(n_alg)]
    cases += [gen_infinite(rng, i) for i in range(n_inf)]
    cases += [gen_propagator(rng, i) for i in range(n_prop)]
    cases += [gen_ui(rng, i) for i in range(n_ui)]
    import random as _random
    rrng = _random.Random(ctx.seed * 7919 + 1111)          # own generator: the streams above are unchanged
    prng = _random.Random(ctx.seed * 4999 + 3333)
    cases += [gen_propagator2(prng, i) for i in range(n_prop2)]
    hrng = _random.Random(ctx.seed * 6007 + 2222)           # (own generator again: the draws of the results stream are unchanged)
    cases += [gen_results(rrng, i, hrng) for i in range(n_res)]
    import c11_ext
    if not (ctx.replay_in and n_alg == 0):
        xrng = _random.Random(ctx.seed * 9173 + 4444)      # (own generator: the draws of the streams above are unchanged)
        cases += c11_ext.ext_cases(ctx, xrng, 1.0 if ctx.proof.ok else 1.5)
    nchunk = common.NPROC
    order = list(range(len(cases)))
    chunks = [order[i::nchunk] for i in range(nchunk)]
    res = common.run_impl_parallel('c11_impl.py', [{'cases': [cases[i] for i in ch]} for ch in chunks if ch], timeout=ctx.pick(1500, 7200))
    results = [None] * len(cases)
    api_calls = {}
    for ch, (r, err) in zip([c for c in chunks if c], res):
        if err:
            ctx.fail('correspondence', 'implementation runner failed: ' + err[-600:], None)
            continue
        for i, x in zip(ch, r):
            results[i] = x
            for k_, v_ in (x.pop('api_calls', None) or {}).items():
                api_calls[k_] = api_calls.get(k_, 0) + v_
    coq = {'add': [], 'dagger': [], 'plus_id': [], 'denote': [], 'ui': []}
    for case, r in zip(cases, results):
        if r is None:
            continue
        try:
            if case['kind'] == 'algebra':
                check_algebra(ctx, case, r, coq)
            elif case['kind'] == 'infinite':
                check_infinite(ctx, case, r)
            elif case['kind'] == 'ui':
                check_ui(ctx, case, r, coq)
            elif case['kind'] == 'results':
                check_results(ctx, case, r)
            elif case['kind'] == 'ext':
                c11_ext.check_ext(ctx, case, r)
            else:
                check_propagator(ctx, case, r)
        except Exception:
            import traceback
            ctx.fail('correspondence', 'oracle crashed: ' + traceback.format_exc()[-700:], {'stream': case['kind'], 'case': case})
        try:
            os.unlink(r['npz'])
        except (OSError, KeyError):
            pass
    model_src = open(os.path.join(common.VERIF, 'coq', 'Model', 'Automaton.v')).read()
    streams = [('c11_add', 'check_add', coq['add'], 'denotation of the W tensors of A + B differs from denote A + denote B / from the model gadd'),
               ('c11_dagger', 'check_dagger', coq['dagger'], 'denotation of the W tensors of A.dagger() differs from the conjugated denotation of A'),
               ('c11_totermlist', 'check_denote', coq['denote'], 'MPO.to_TermList differs from the denotation of the W tensors')]
    if 'check_plus_id' in model_src:
        streams.append(('c11_plus_id', 'check_plus_id', coq['plus_id'], 'denotation of plus_identity differs from alpha + beta * denote A / from the model'))
    # make_U_I: raw W grid / IdL / IdR / chi of H and of H.make_U_I(dt) against ui_eval / ui_graph of Model/PropUI.v, inside Coq
    ui_items = coq['ui'][:ctx.pick(300, 1500)]
    streams.append(('c11_make_U_I', 'check_UI_grid', ui_items,
                    'W grid / IdL / IdR / chi / operator of H.make_U_I(dt) differ from the model ui_eval dt (graph of H) / the graded automaton ui_graph'))
    total = 0
    for name, checker, items, what in streams:
        if not items:
            continue
        lits = [s for s, _ in items]
        imports = ['Base.Prelude', 'Model.Automaton']
        if name == 'c11_make_U_I':
            imports += ['Model.PropUI', 'Model.PropUICheck']
        bad, err = common.coq_failing_indices(name, imports, checker, lits, shard=120 if name != 'c11_make_U_I' else 40)
        if err:
            ctx.fail('correspondence', 'model evaluation failed: ' + err[-600:], None)
        for b in bad[:5]:
            ctx.fail('correspondence', what, {'stream': name, 'case': items[b][1], 'literal': lits[b][:3000]})
        for i in range(len(lits)):
            ctx.count(name, [name, i, lits[i][:200]], nontrivial=True)
        total += len(lits)
    ctx.cov['traces_validated_against_impl'] = total
    if not ctx.replay_in:
        c11_ext.coverage_report(ctx, api_calls)
    ctx.assumptions += [
        'C11 results stream: a claimed max_range is checked as an upper bound of the true range (None / inf always admissible); the differing / '
        'non-Hermitian coupling always lies inside the sites range(3 L) that is_equal documents for an unknown range; to_TermList is compared after '
        'sort_legcharges() (before: known finding F117-C11) and not after plus_identity with beta != 1 (to_TermList starts every term with weight 1); '
        'a multiple of the identity is not counted as a term',
        'C11 explicit_plus_hc: an MPO with the flag denotes (contraction of the W tensors) + h.c. (documented: "the Hermitian conjugate is computed '
        'at runtime, rather than saved in the MPO"); variance / plus_identity may raise NotImplementedError and __add__ ValueError for different flags '
        '(as documented by the messages); prefactor and to_TermList read the stored tensors only and are compared for operands without the flag; '
        'overlap / distance of infinite MPOs are taken on the explicit window num_sites = N and compared with the dense operators on that window',
        'C11 propagators on a window: the contraction of U between the markers IdL = IdR of two bonds is compared with exp(dt H_window), H_window = '
        'the terms inside the window (error O(dt^2) / O(dt^3) for the 2-step scheme)',
        'C11 model: W entries are decomposed into an orthogonal basis of named operators (Id, Sp, Sm, Sz / Id, JW, C, Cd) with Gaussian-integer '
        'coefficients; operators are formal words over these names',
        'C11 oracle only (not modelled in Coq): expectation values, variance, overlap/distance, is_equal/is_hermitian, prefactor, apply* and '
        'compression, infinite MPOs, transfer matrix, make_U_II and make_U_I at numeric steps (order of the error checked numerically by a '
        'slope test); make_U_I is executed against the Coq model only for finite chains with exact strengths and Gaussian-integer steps',
    ]
    return ctx.finish(RULE, 'theorems of coq/Props/C11.v (sum, dagger, plus_identity on the automaton model); W tensors of operands and results '
                      'denoted inside Coq; every operation compared with dense operators / vectors')


RULE = ('algebra: finite MPOs (L <= 5; spin-1/2, fermions; with/without charges) from random term lists (any operator order, several '
        'operators per site) or random W grids (standard form / dense, with / without IdL/IdR markers, max_range unknown) x pairs differing in one '
        'long-range term / coefficient / conjugation / nothing x random states x compression methods; infinite: iMPOs on a window and product iMPS; '
        'results: sums in both orders / daggers / plus_identity / sums of sums of operands whose max_range is known, None (given by W tensors) or inf '
        'in all 9 combinations, one operand with a coupling longer than the known range of the other, finite (L 4-6) and infinite (L 1-3): claimed '
        'max_range of every result, is_equal, is_hermitian, to_TermList, expectation values (default / max_range / power / TM), variance of the RESULT; '
        'results_plus_hc (inside every results case): operands P, Q with the flag explicit_plus_hc drawn independently (all four combinations; '
        'stored half + flag vs. written in full; stored terms Hermitian or not: one-directional hopping with a complex amplitude, complex couplings; '
        'Q = P rewritten / expanded / conjugate half / differing in one place; max_range known / None / inf): dense operator, dagger, is_hermitian, '
        'ExactDiag, expectation values, variance (complex), prefactor, overlap / distance / is_equal in both operand orders and of each operand with '
        'itself, P + Q and Q + P; '
        'propagator: make_U_I / make_U_II at dt, dt/2, dt/4 of finite chains (single graph; sum A + B of MPO.__add__; negative IdR markers; whole '
        'chain and a sub-window between the markers of inner bonds) and of infinite MPOs on a window; c11_make_U_I: finite H (L <= 5, term lists / explicit graphs in and out of '
        'standard sum form, exact strengths, permuted virtual indices) x Gaussian-integer dt; non-trivial when the operator is not zero. '
        'ext_chain: finite / infinite MPOs (graph, sum, negative IdR; max_range known / None / inf; explicit_plus_hc) through random sequences of '
        'sort_legcharges / dagger / + / self + self / plus_identity / from_Wflat / set_W / copy-then-mutate and the structural steps group_sites '
        '(n = 2, 3, with remainder, explicit grouped sites) / enlarge_mps_unit_cell / extract_segment, every RESULT an operand of the next step: dense operator '
        'and claimed max_range after every step, then is_equal / overlap / distance (explicit and default window, eps / max_range options) against '
        'an independently built partner (same / one coefficient changed; mixed flags), is_hermitian, expectation values and variance (exp_val '
        'given) in grouped states, to_TermList options, make_U of the result, apply by every compression method (naive, SVD, zip_up with m_temp / '
        'trunc_weight / no svd_min, apply_zipup, variational, variationalQR), MPOEnvironment with bra != ket and LHeff / RHeff; ext_ctor: '
        'from_wavepacket (fermionic / bosonic op, coefficients below eps incl. the first, eps option; dagger, sums, apply, overlap, prefactor), '
        'from_grids (entry kinds str / Array / list, scalar markers, bc infinite with charges, Ws_qtotal single / per site, legs, explicit_plus_hc), '
        'from_Wflat (permute True / False, charges, dtype); ext_evo: ExpMPOEvolution approximation I / II / default x order 1 / 2 / default x '
        'compression method, two runs (cached propagator) and a run with a new dt, against exp(-i t H)|psi> at dt and dt / 2; ext_iapply: exact gate layers '
        'given as infinite MPOs by from_grids applied to product iMPS by SVD / apply_naively / variational compression, local observables against '
        'the exact light cone; ext_ienv: entangled iMPS: expectation_value / _TM / _power against the reduced density matrix, MPOEnvironment with '
        'force_init_method iter / TM / None / start_env_sites, MPOTransferMatrix.find_init_LP_RP (calc_E, guess, both gauges), '
        'MPOEnvironmentBuilder energies; ext_opts: exponentially decaying iMPO from grids (TM for max_range None / inf, power method incl. the '
        'tolerance warning, to_TermList max_range / cutoff / start, prefactor), eps options of is_equal / is_hermitian, a one-site chain, 31 documented refusals.')
