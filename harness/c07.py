"""C07 - an MPS always denotes the state it was built from.

proof gate (coq/Props/C07.v: index arithmetic + form algebra)  +  correspondence (index functions on windows of
integers; every single operation of every generated history against Model/MpsForm.v; get_theta probes)  +
oracle: dense reference states built with numpy only (harness/mps_gen.py) against get_full_wavefunction, against an
explicit contraction of the STORED tensors according to their recorded form labels, reduced density matrices on a
three-cell window for infinite / segment states, Schmidt values / entropies / spectra / norm_test / total charge;
entanglement_spectrum(by_charge=True) against the dense Schmidt decomposition restricted to each charge sector (finite
and segment states, every constructor and history); stream covering-x: crossing local MPS with many charge sectors per
bond and generic weights, every history passing through the 'A' and 'C' forms; stream segment-dense: segments with
non-trivial outer bonds on both sides, dense state INCLUDING segment_boundaries (U_L, V_R) and psi.norm, embedded into
the Schmidt states of the parent, through histories of repeated canonical_form / apply_local_op interleaved with
set_B of perturbed tensors near both boundaries; MPS.overlap with a copy taken before every such operation;
stream mixed-dtype (harness/c07_ext.py): tensors / local states of DIFFERENT dtypes (real on some sites, complex on others,
also real on site 0) handed to the raw-tensor constructor MPS(sites, Bs, SVs), from_Bflat, from_product_mps_covering and
add, finite / segment / infinite; bond-index coverage: in every stream and after every operation entanglement_entropy(n=1, 2;
bonds=list and int), get_SL and get_SR at ALL accepted indices (finite, segment: bonds 0..L incl. the outer ones, sites
-L..L-1; infinite: beyond the unit cell on both sides) and, for segments, entanglement_entropy() / entanglement_spectrum()
with default arguments (L+1 bonds) against the dense Schmidt values of the addressed cut.
"""
import json

import os
for _v in ('OMP_NUM_THREADS', 'OPENBLAS_NUM_THREADS', 'MKL_NUM_THREADS'):
    os.environ.setdefault(_v, '1')
import numpy as np  # noqa: E402

import common
import mps_gen as G
import c07_valued
import c07_ext as X
from common import coq_lit, Nat, CoqRaw

TOL = 2e-9
K_COVERING = 'C07:from_product_mps_covering:local-index-order-is-not-an-involution'
K_BFLAT_L1 = 'C07:from_Bflat:infinite-L1-chi>1-not-canonicalized'
K_INF2 = 'C07:canonical_form_infinite2:unsorted-virtual-legs-raise'
K_COV_X = 'C07:from_product_mps_covering:interleaved-local-states-with-charges:ValueError-incompatible-LegCharge'


# ------------------------------------------------------------------------------------------------ helpers

def cplx(x):
    return complex(x[0], x[1])


def run_chunks(script, cases, nchunks=None):
    """run cases through the executor in parallel; returns list of (result, npz-arrays, key) per case"""
    n = nchunks or min(common.NPROC, max(1, len(cases) // 4))
    chunks = [cases[i::n] for i in range(n)]
    res = common.run_impl_parallel(script, [{'kind': 'cases', 'cases': ch} for ch in chunks if ch])
    out = [None] * len(cases)
    errs = []
    ci = 0
    for k, ch in enumerate(chunks):
        if not ch:
            continue
        r, err = res[ci]
        ci += 1
        if err:
            errs.append(err)
            continue
        A = np.load(r['npz'])
        A = {key: A[key] for key in A.files}
        for j, x in enumerate(r['results']):
            out[k + j * n] = (x, A, 'c%d' % j)
    return out, errs


def get_siteinfo(script):
    r, err = common.run_impl(script, {'kind': 'siteinfo', 'kinds': sorted(G.KINDS)})
    if err:
        raise RuntimeError(err)
    return r


def stored(A, key, o):
    Bs = [A['%s_B%d' % (key, i)] for i in range(o['L'])]
    Ss = [A.get('%s_S%d' % (key, i)) for i in range(o['nS'])]
    forms = [tuple(f) if f is not None else None for f in o['form']]
    return Bs, Ss, forms


def obs_list(A, key, o):
    """[(label, pdim, chiL, chiR)] of an observation"""
    out = []
    for i in range(o['L']):
        B = A['%s_B%d' % (key, i)]
        f = o['form'][i]
        out.append((None if f is None else common.Some((f[0], f[1])), int(B.shape[1]), int(B.shape[0]), int(B.shape[2])))
    return out


def expand_forms(forms, L):
    if isinstance(forms, str):
        return [G.HALF[forms]] * L
    return [G.HALF[f] for f in forms]


def coq_op(op, L):
    t = op['op']
    if t == 'convert_form':
        return CoqRaw('(OConvert %s)' % coq_lit([tuple(f) for f in expand_forms(op['forms'], L)]))
    if t == 'set_B_scaled':
        f = G.HALF[op['form']] if isinstance(op['form'], str) else tuple(op['form'])
        return CoqRaw('(OSetBScaled %s %s)' % (coq_lit(op['i']), coq_lit(tuple(f))))
    if t == 'set_svd_theta':
        return CoqRaw('(OSetSvdTheta %s)' % coq_lit(op['i']))
    if t == 'canonical_form':
        return CoqRaw('OCanonical')
    if t == 'roll_mps_unit_cell':
        return CoqRaw('(ORoll %s)' % coq_lit(op['shift']))
    if t == 'enlarge_mps_unit_cell':
        return CoqRaw('(OEnlarge %s)' % coq_lit(Nat(op['factor'])))
    if t == 'spatial_inversion':
        return CoqRaw('OInversion')
    return None


CMP_CHI = {'convert_form': True, 'set_B_scaled': True, 'set_svd_theta': False, 'canonical_form': False,
           'roll_mps_unit_cell': True, 'enlarge_mps_unit_cell': True, 'spatial_inversion': True}


def form_cases(case, r, A, key, fin):
    """Coq literals of the single-step correspondence cases of one executed history"""
    out = []
    obs = r['obs']
    last = 0
    for k, op in enumerate(case.get('ops', [])):
        if k + 1 >= len(obs):
            break
        before = obs_list(A, '%s_%d' % (key, last), obs[last])
        L = obs[last]['L']
        if op['op'] == 'get_theta':
            out.append(coq_lit((fin, before, op['i'], Nat(op['n']), op['formL'], op['formR'], False)))
            continue
        if obs[k + 1] is None:
            continue
        c = coq_op(op, L)
        if c is not None:
            after = obs_list(A, '%s_%d' % (key, k + 1), obs[k + 1])
            out.append(('F', coq_lit((fin, before, c, CMP_CHI[op['op']], common.Some(after)))))
        last = k + 1
    return out


_ds_cache = {}


def dense_schmidt(vec, cut, key=None):
    """normalised Schmidt values of a dense tensor at a cut (cached per reference object `key`)"""
    if key is not None and (key, cut) in _ds_cache:
        return _ds_cache[(key, cut)]
    s = G.schmidt(vec, cut)
    s = s / np.linalg.norm(s)
    if key is not None:
        _ds_cache[(key, cut)] = s
    return s


def cmp_spec(s_impl, s_ref, tol=1e-7):
    """compare two Schmidt spectra (descending, zeros ignored)"""
    a = np.sort(np.asarray(s_impl, dtype=float))[::-1]
    b = np.sort(np.asarray(s_ref, dtype=float))[::-1]
    a = a[a > 1e-6]
    b = b[b > 1e-6]
    if len(a) != len(b):
        return 'rank %d vs dense %d' % (len(a), len(b))
    if len(a) and np.max(np.abs(a - b)) > tol:
        return 'max deviation %.2e' % np.max(np.abs(a - b))
    return None


def dense_sector_schmidt(vec, cut, S, site0=0, key=None):
    """{total charge of the sites left of the cut: Schmidt values of the dense tensor restricted to that sector}.
    A state of definite total charge is block diagonal in (charge left of the cut, charge right of the cut), so the
    Schmidt decomposition splits into the SVDs of the blocks; `vec` axes are the sites site0.. of S."""
    if key is not None and (key, cut, 'q') in _ds_cache:
        return _ds_cache[(key, cut, 'q')]
    dl = int(np.prod(vec.shape[:cut]))
    M = vec.reshape(dl, -1)
    M = M / np.linalg.norm(M)
    nq = len(S.mod)
    tl = S.total_charge(list(range(site0, site0 + cut))).reshape(dl, nq)
    tr = S.total_charge(list(range(site0 + cut, site0 + vec.ndim))).reshape(-1, nq)
    out = {}
    for Q in sorted(set(tuple(int(x) for x in t) for t in tl)):
        rows = np.flatnonzero(np.all(tl == np.array(Q), axis=1))
        blk = M[rows]
        cols = np.flatnonzero(np.abs(blk).sum(axis=0) > 0)
        if len(cols) == 0:
            continue
        # (the columns of one left sector all carry the same right charge when the total charge is definite)
        if len(set(tuple(int(x) for x in tr[c]) for c in cols)) != 1:
            out = None
            break
        out[Q] = np.linalg.svd(blk[:, cols], compute_uv=False)
    if key is not None:
        _ds_cache[(key, cut, 'q')] = out
    return out


def cmp_sector_spectra(rows, vals, ref, mod, tol=1e-7):
    """entanglement_spectrum(by_charge=True) of one bond (rows = [[charge, count], ...], vals = concatenated
    entanglement energies) against the dense per-sector Schmidt values `ref`.  The documentation does not fix the
    origin of the charge labels of a bond, so a common shift of all labels of the bond is allowed."""
    got = {}
    pos = 0
    for q, n in rows:
        x = np.exp(-np.asarray(vals[pos:pos + n], dtype=float) / 2.)
        pos += n
        q = tuple(int(a) % m if m > 1 else int(a) for a, m in zip(q, mod))
        got[q] = np.concatenate([got.get(q, np.zeros(0)), x])
    got = {q: np.sort(v[v > tol])[::-1] for q, v in got.items() if np.any(v > tol)}
    want = {q: np.sort(v[v > tol])[::-1] for q, v in ref.items() if np.any(v > tol)}
    if not got or not want:
        return None if (not got and not want) else 'no Schmidt weight on one side'
    valid = lambda q: tuple(int(a) % m if m > 1 else int(a) for a, m in zip(q, mod))
    q0 = max(want, key=lambda q: want[q][0])
    msgs = []
    for qg in sorted(got):
        shift = [a - c for a, c in zip(qg, q0)]
        mapped = {}
        for q, v in want.items():
            mapped[valid([a + c for a, c in zip(q, shift)])] = v
        msg = None
        for q in sorted(set(mapped) | set(got)):
            a, c = got.get(q, np.zeros(0)), mapped.get(q, np.zeros(0))
            n = max(len(a), len(c))
            a = np.concatenate([a, np.zeros(n - len(a))])
            c = np.concatenate([c, np.zeros(n - len(c))])
            if np.max(np.abs(a - c)) > 4 * tol:
                msg = 'with the labels of the dense sectors shifted by %s: sector %s holds Schmidt values %s, the dense state has %s there' % (
                    shift, list(q), np.round(a, 6).tolist()[:6], np.round(c, 6).tolist()[:6])
                break
        if msg is None:
            return None
        msgs.append((len(set(mapped) ^ set(got)), msg))
    return min(msgs)[1]


# ------------------------------------------------------------------------------------------------ generation

def gen_c07_ops(rng, L, bc, nops):
    ops = []
    finite = bc != 'infinite'
    for _ in range(nops):
        r = rng.random()
        if r < 0.25:
            ops.append({'op': 'convert_form', 'forms': G.gen_forms(rng, L)})
        elif r < 0.40:
            i = rng.randrange(L) if finite else rng.randint(-L, 2 * L)
            f = rng.choice(G.FORMS + [None, [rng.choice([0, 1, 2, None]), rng.choice([0, 1, 2, None])]])
            ops.append({'op': 'get_B', 'i': i, 'form': f, 'copy': rng.random() < 0.5, 'observe': False})
        elif r < 0.58:
            n = rng.randint(1, min(3, L) if finite else 3)
            i = rng.randrange(L - n + 1) if finite else rng.randint(-L, 2 * L)
            ops.append({'op': 'get_theta', 'i': i, 'n': n, 'formL': rng.choice([0, 1, 2, 2]) if n > 1 else 2,
                        'formR': rng.choice([0, 1, 2, 2]) if n > 1 else 2, 'observe': False})
        elif r < 0.70 and (L >= 2):
            i = rng.randrange(L - 1) if finite else rng.randint(-L, 2 * L)
            # update_norm is derived from r (no extra draw: the case streams of the seeds stay as they were)
            ops.append({'op': 'set_svd_theta', 'i': i, 'update_norm': r >= 0.64})
        elif r < 0.85:
            op = {'op': 'canonical_form', 'renormalize': rng.random() < 0.5}
            if bc == 'infinite' and rng.random() < 0.4:
                op['method'] = 'canonical_form_infinite2'
            ops.append(op)
        else:
            i = rng.randrange(L) if finite else rng.randint(-L, 2 * L)
            c = [rng.choice([0.5, 2.0, -1.5, 3.0]), rng.choice([0.0, 0.0, 0.5])]
            ops.append({'op': 'set_B_scaled', 'i': i, 'form': rng.choice(G.FORMS), 'c': c})
            op = {'op': 'canonical_form', 'renormalize': rng.random() < 0.5}
            if bc == 'infinite' and rng.random() < 0.4:
                op['method'] = 'canonical_form_infinite2'
            ops.append(op)
    # get_B / get_theta probes do not produce an observation; the executor keeps obs aligned with None
    return ops


def gen_finite_case(rng, allow=None, Lmax=8, maxdim=1500):
    L = rng.choice([2, 2, 3, 3, 4, 4, 5, 6, 7, 8])
    L = min(L, Lmax)
    kinds = G.gen_sites(rng, L, maxdim=maxdim)
    spec = {'bc': 'finite', 'sites': kinds, 'build': G.gen_finite_build(rng, kinds, allow)}
    return spec


def gen_infinite_case(rng):
    L = rng.choice([1, 2, 2, 3, 4])
    kinds = G.gen_sites(rng, L, maxdim=20)
    spec = {'bc': 'infinite', 'sites': kinds, 'build': G.gen_infinite_build(rng, kinds)}
    return spec


def inf_segments(rng, L, dims):
    """site subsets on a three-cell window whose reduced density matrices are compared"""
    segs = [[i] for i in range(L)] + [[i, i + 1] for i in range(L)]
    d = lambda i: dims[i % L]
    for i in range(L):
        if d(i) * d(i + 1) * d(i + 2) <= 64:
            segs.append([i, i + 1, i + 2])
    for k in sorted(set([L, 2 * L - 1, 2 * L, 2 * L + 1, 3 * L - 1])):
        i = rng.randrange(L)
        if k >= 2 and i + k < 3 * L:
            segs.append([i, i + k])
    return segs


# ------------------------------------------------------------------------------------------------ references

class FiniteRef:
    """tracks the dense state (incl. norm) and the expected psi.norm through a C07 history"""

    def __init__(self, vec, norm, canon):
        self.vec = np.array(vec, dtype=complex)
        self.norm = norm
        self.canon = canon
        self.epoch = 0          # counts the operations that change the ray of the state (keys of the Schmidt cache)

    def apply(self, op, D_other):
        t = op['op']
        if t == 'set_B_scaled':
            self.vec = self.vec * cplx(op['c'])
            self.canon = False
        elif t == 'add':
            # alpha |self> + beta |other>, both including their norms; the sum is canonicalised with renormalize=False
            # on a new MPS (norm 1): its norm is recorded in psi.norm
            self.vec = cplx(op['alpha']) * self.vec + cplx(op['beta']) * D_other['vec'] * op.get('other_norm', 1.0)
            self.norm = float(np.linalg.norm(self.vec))
            self.canon = True
            self.epoch += 1
        elif t == 'canonical_form':
            n = np.linalg.norm(self.vec)
            if op['renormalize']:
                self.vec = self.vec / n * self.norm * 1.0
                # the change of norm is discarded: tensors are normalised, psi.norm stays
            else:
                self.norm = n
            self.canon = True

    def set_svd_theta(self, op, theta_norm):
        """set_svd_theta(i, theta := get_theta(i, 2)) stores the singular values of theta NORMALISED; |theta| is
        multiplied into psi.norm only with update_norm=True (docstring of MPS.set_svd_theta), otherwise it is dropped:
        the state including its norm is divided by |theta|.  |theta| = 1 in canonical form."""
        if op.get('update_norm'):
            self.norm = self.norm * theta_norm
        else:
            self.vec = self.vec / theta_norm


class InfRef:
    def __init__(self, D, L):
        self.L = L
        self.canon = True
        if 'Ms' in D:
            self.tm = G.TM(D['Ms'])
            self.patch = None
        else:
            self.tm = None
            self.patch = D['patch']
            self.first = D['patch_first']
        self.norm = 1.0

    def rdm(self, seg):
        if self.tm is not None:
            return self.tm.rdm(seg)
        return G.rdm_from_vec(self.patch, [s - self.first for s in seg])

    def schmidt(self, b):
        if not hasattr(self, '_sc'):
            self._sc = {}
        if b not in self._sc:
            self._sc[b] = self._schmidt(b)
        return self._sc[b]

    def _schmidt(self, b):
        if self.tm is not None:
            c = self.tm.Ms[b % self.L].shape[0]
            l = self.tm.left(b).reshape(c, c)
            r = self.tm.right(b).reshape(c, c)
            w = np.linalg.eigvals(r @ l.T)
            w = np.abs(np.real(w / np.sum(w)))
            w[w < 1e-12] = 0.        # eigenvalue noise; its square root would look like a Schmidt value
            return np.sqrt(w)
        k = b + self.L - self.first        # cut inside cell 1 of the patch
        s = G.schmidt(self.patch, k)
        return s / np.linalg.norm(s)

    def apply(self, op, norm_before):
        t = op['op']
        if t == 'set_B_scaled':
            self.scale = abs(cplx(op['c']))
            self.canon = False
        elif t == 'canonical_form':
            if not op['renormalize']:
                self.norm = self.norm * getattr(self, 'scale', 1.0)
            self.scale = 1.0
            self.canon = True


# ------------------------------------------------------------------------------------------------ oracle

def check_probe(ctx, op, A, key_before, key_probe, o_before, finite, case, tag):
    """get_B / get_theta probes against the explicit contraction of the stored tensors"""
    if key_probe not in A:
        return
    Bs, Ss, forms = stored(A, key_before, o_before)
    if any(f is None for f in forms) or any(s is None for s in Ss):
        return
    got = A[key_probe]
    if op['op'] == 'get_theta':
        want = G.explicit_theta(Bs, Ss, forms, op['i'], op['n'], finite, op['formL'], op['formR'])
        what = 'get_theta(i=%d, n=%d, formL=%s, formR=%s)' % (op['i'], op['n'], op['formL'] / 2, op['formR'] / 2)
    else:
        f = op['form']
        L = len(Bs)
        i = op['i']
        if f is None:
            want = Bs[i % L]
        else:
            fl, fr = G.HALF[f] if isinstance(f, str) else f
            cur = forms[i % L]
            # s^fl Gamma s^fr ; a None entry keeps the stored exponent
            th = G.explicit_theta(Bs, Ss, forms, i, 1, finite, cur[0] if fl is None else fl, cur[1] if fr is None else fr)
            want = th
        what = 'get_B(i=%d, form=%r)' % (op['i'], f)
    if got.shape != want.shape or np.max(np.abs(got - want)) > TOL * max(1., np.max(np.abs(want))):
        ctx.fail('oracle', '%s is not s^formL Gamma s ... s^formR of the stored canonical data (bc=%s)' % (what, tag),
                 {'stream': tag, 'case': case, 'op': op}, match_key='C07:%s:probe' % op['op'])


def check_finite(ctx, case, r, A, key, D, SI):
    spec = case['state']
    S = G.Sites(spec['sites'], SI)
    L = len(S.kinds)
    b = spec['build']
    canon0 = D['canon'] if 'canon' in D else not (b['method'] == 'bflat' and max(b['chi']) == 1)
    ref = FiniteRef(D['vec'], D['norm'], canon0)
    obs = r['obs']
    ops = case.get('ops', [])
    info = {'stream': case.get('stream', 'finite'), 'case': case}
    method = b['method']
    if X.is_mixed(spec):
        method = '%s with tensors of mixed dtype %s' % (b.get('ctor', method), ['complex' if f else 'real' for f in b['mixed']])
    wb = case.get('want', {}).get('bonds')

    def fail(msg, step, mk=None):
        ctx.fail('oracle', 'finite MPS built by %s, after %d operation(s) %s: %s' % (
            method, step, [o['op'] for o in ops[:step]], msg), info, match_key=mk or 'C07:finite:%s' % method)
    last = None
    for k, o in enumerate(obs):
        if k > 0 and ops[k - 1]['op'] == 'set_svd_theta':
            tn = 1.0
            if not ref.canon:
                # non-canonical tensors (from_Bflat does not touch a chi=1 chain): |get_theta(i, 2)| of the state
                # right before the operation, from the stored tensors that were just compared with the dense state
                Bs, Ss, forms = stored(A, '%s_%d' % (key, last), obs[last])
                if all(f is not None for f in forms) and all(s_ is not None for s_ in Ss):
                    tn = float(np.linalg.norm(G.explicit_theta(Bs, Ss, forms, ops[k - 1]['i'], 2, True)))
            ref.set_svd_theta(ops[k - 1], tn)
        elif k > 0:
            ref.apply(ops[k - 1], G.build_data(ops[k - 1]['other'], SI) if ops[k - 1]['op'] == 'add' else None)
        if o is None:
            # probe
            op = ops[k - 1]
            check_probe(ctx, op, A, '%s_%d' % (key, last), '%s_%d_probe' % (key, k), obs[last], True, case, 'finite')
            continue
        kk = '%s_%d' % (key, k)
        if 'sanity' in o:
            fail('test_sanity raises ' + o['sanity'], k)
        nrm = cplx(o['norm'])
        if abs(nrm - ref.norm) > 1e-9 * max(1, abs(ref.norm)):
            fail('psi.norm = %r, expected %r' % (nrm, ref.norm), k)
        want = ref.vec.reshape(-1)
        scale = max(1e-300, np.linalg.norm(want))
        if 'full_error' in o:
            fail('get_full_wavefunction raises ' + o['full_error'], k)
        elif kk + '_full' in A:
            v = A[kk + '_full'] * nrm
            if v.shape != want.shape or np.linalg.norm(v - want) > TOL * scale:
                fail('psi.norm * get_full_wavefunction(psi) differs from the dense state by %.2e (relative); overlap phase %s' % (
                    np.linalg.norm(v - want) / scale, np.vdot(want, v) / scale ** 2 if v.shape == want.shape else 'n/a'), k)
        Bs, Ss, forms = stored(A, kk, o)
        if all(f is not None for f in forms):
            th = G.explicit_theta(Bs, Ss, forms, 0, L, True).reshape(-1) * nrm
            if th.shape != want.shape or np.linalg.norm(th - want) > TOL * scale:
                fail('the stored tensors contracted according to their recorded form labels %s give a state that differs '
                     'from the dense state by %.2e (label or scaling wrong)' % (o['form'], np.linalg.norm(th - want) / scale if th.shape == want.shape else -1), k)
        if ref.canon and all(f is not None for f in forms):
            vt = ref.vec / np.linalg.norm(ref.vec)
            ents = []
            for cut in range(1, L):
                sd = dense_schmidt(vt, cut, key=('f', id(D), ref.epoch))
                ents.append(G.entropy(sd))
                m = cmp_spec(Ss[cut], sd)
                if m:
                    fail('stored _S[%d] are not the Schmidt coefficients of the dense state (%s)' % (cut, m), k)
                sk = kk + '_spec%d' % (cut - 1)
                if sk in A:
                    sp = np.sort(A[sk])
                    sdd = sd[sd > 1e-12]
                    want_sp = np.sort(-2 * np.log(sdd))
                    n = min(len(sp), len(want_sp))
                    if abs(len(sp) - len(want_sp)) > 0 and np.sum(sd > 1e-7) != np.sum(np.exp(-sp / 2) > 1e-7):
                        fail('entanglement_spectrum at bond %d has %d relevant levels, dense state %d' % (
                            cut, np.sum(np.exp(-sp / 2) > 1e-7), np.sum(sd > 1e-7)), k)
                    elif n and np.max(np.abs(np.exp(-sp[:n] / 2) - np.exp(-want_sp[:n] / 2))) > 1e-7:
                        fail('entanglement_spectrum at bond %d differs from the dense Schmidt spectrum' % cut, k)
            if 'spec_q' in o and S.mod:
                for cut in range(1, L):
                    if cut - 1 >= len(o['spec_q']) or kk + '_specq%d' % (cut - 1) not in A:
                        continue
                    refq = dense_sector_schmidt(vt, cut, S, key=('f', id(D), ref.epoch))
                    if refq is None:
                        continue
                    m = cmp_sector_spectra(o['spec_q'][cut - 1], A[kk + '_specq%d' % (cut - 1)], refq, S.mod)
                    if m:
                        fail('entanglement_spectrum(by_charge=True) at bond %d: the Schmidt values do not sit in the charge sectors of the '
                             'dense Schmidt decomposition (%s)' % (cut, m), k)
            if 'entropy' in o and (len(o['entropy']) != L - 1 or max([abs(a - c) for a, c in zip(o['entropy'], ents)] + [0]) > 1e-7):
                fail('entanglement_entropy %s, dense state %s' % (o['entropy'], ents), k)
            if o.get('norm_test', 0) > 1e-8:
                fail('norm_test() = %.2e in canonical form' % o['norm_test'], k)
            if 'ent_error' in o:
                fail('entanglement_entropy / norm_test raise ' + o['ent_error'], k)
            # every bond index the API accepts, incl. the trivial outer bonds 0 and L
            X.check_bonds(o, A, kk, wb, L, True,
                          lambda bnd: np.ones(1) if bnd in (0, L) else dense_schmidt(vt, bnd, key=('f', id(D), ref.epoch)),
                          lambda msg: fail(msg, k))
        if 'qtotal_phys' in o and S.mod:
            nzi = np.unravel_index(int(np.argmax(np.abs(ref.vec))), ref.vec.shape)
            q = S.valid(np.sum([S.q[i][nzi[i]] for i in range(L)], axis=0))
            if S.valid(o['qtotal_phys']) != q:
                fail('get_total_charge(only_physical_legs=True) = %s, the state has charge %s' % (o['qtotal_phys'], q), k)
        last = k
    return ref


def seg_rdm_check(ctx, A, kk, o, segs, ref_rdm, finite, info, fail, k, window=None):
    """tenpy's get_rho_segment and the explicit contraction of the stored tensors against the reference"""
    Bs, Ss, forms = stored(A, kk, o)
    canon_labels = all(f is not None for f in forms) and all(s is not None for s in Ss)
    for j, seg in enumerate(segs):
        want = ref_rdm(seg)
        key = '%s_rho%d' % (kk, j)
        if 'rho_error' in o and str(j) in o['rho_error']:
            fail('get_rho_segment(%s) raises %s' % (seg, o['rho_error'][str(j)]), k)
            continue
        if key in A:
            got = A[key]
            got = got / np.trace(got)
            if got.shape != want.shape or np.max(np.abs(got - want)) > 1e-7:
                fail('reduced density matrix on sites %s (get_rho_segment) differs from the reference by %.2e' % (
                    seg, np.max(np.abs(got - want)) if got.shape == want.shape else -1), k)
        if canon_labels:
            i0, i1 = min(seg), max(seg)
            th = G.explicit_theta(Bs, Ss, forms, i0, i1 - i0 + 1, finite)
            got = G.rdm_from_theta(th, [s - i0 for s in sorted(seg)])
            if got.shape != want.shape or np.max(np.abs(got - want)) > 1e-7:
                fail('stored tensors contracted according to their form labels %s: reduced density matrix on sites %s '
                     'differs from the reference by %.2e' % (o['form'], seg, np.max(np.abs(got - want)) if got.shape == want.shape else -1), k)


def check_infinite(ctx, case, r, A, key, D, SI):
    spec = case['state']
    L = len(spec['sites'])
    ref = InfRef(D, L)
    obs = r['obs']
    ops = case.get('ops', [])
    info = {'stream': case.get('stream', 'infinite'), 'case': case}
    method = spec['build']['method']
    if X.is_mixed(spec):
        method = '%s with tensors of mixed dtype %s' % (spec['build'].get('ctor', method), ['complex' if f else 'real' for f in spec['build']['mixed']])
    segs = case['want']['rdm']

    def fail(msg, step, mk=None):
        ctx.fail('oracle', 'infinite MPS built by %s, after %d operation(s) %s: %s' % (
            method, step, [o['op'] for o in ops[:step]], msg), info, match_key=mk or 'C07:infinite:%s' % method)
    last = None
    for k, o in enumerate(obs):
        if k > 0:
            ref.apply(ops[k - 1], None)
        if o is None:
            check_probe(ctx, ops[k - 1], A, '%s_%d' % (key, last), '%s_%d_probe' % (key, k), obs[last], False, case, 'infinite')
            continue
        kk = '%s_%d' % (key, k)
        if 'sanity' in o:
            fail('test_sanity raises ' + o['sanity'], k)
        nrm = cplx(o['norm'])
        if abs(nrm - ref.norm) > 1e-7 * max(1, abs(ref.norm)):
            fail('psi.norm = %r, expected %r' % (nrm, ref.norm), k)
        if ref.canon:
            seg_rdm_check(ctx, A, kk, o, segs, ref.rdm, False, info, fail, k)
            Bs, Ss, forms = stored(A, kk, o)
            if all(s is not None for s in Ss):
                ents = []
                for b in range(L):
                    sd = ref.schmidt(b)
                    ents.append(G.entropy(sd))
                    m = cmp_spec(Ss[b], sd, tol=2e-6)
                    if m:
                        fail('stored _S[%d] are not the Schmidt coefficients of the state (%s)' % (b, m), k)
                if 'entropy' in o and (len(o['entropy']) != L or max([abs(a - c) for a, c in zip(o['entropy'], ents)] + [0]) > 1e-5):
                    fail('entanglement_entropy %s, reference %s' % (o['entropy'], ents), k)
                # bond / site indices beyond the unit cell on both sides
                X.check_bonds(o, A, kk, case['want'].get('bonds'), L, False, ref.schmidt, lambda msg: fail(msg, k), tol=1e-5, stol=2e-6)
            if o.get('norm_test', 0) > 1e-6:
                fail('norm_test() = %.2e in canonical form' % o['norm_test'], k)
        last = k
    return ref


def check_segment(ctx, case, r, A, key, Dpar, SI):
    spec = case['state']
    first, last_site = spec['segment']
    par = spec['parent']
    n = last_site - first + 1
    vec = Dpar['vec'] / np.linalg.norm(Dpar['vec'])
    obs = r['obs']
    ops = case.get('ops', [])
    info = {'stream': case.get('stream', 'segment'), 'case': case}
    segs = case['want']['rdm']
    ref = FiniteRef(vec, Dpar['norm'], True)
    Spar = G.Sites(par['sites'], SI)

    def seg_schmidt(cut):
        # the cut left of site `cut` of the segment is the cut first+cut of the parent (trivial at its ends)
        g = first + cut
        if g <= 0 or g >= vec.ndim:
            return np.ones(1)
        return dense_schmidt(vec, g, key=('s', id(Dpar)))

    def fail(msg, step, mk=None):
        ctx.fail('oracle', 'segment [%d,%d] of a finite MPS built by %s, after %d operation(s) %s: %s' % (
            first, last_site, par['build']['method'], step, [o['op'] for o in ops[:step]], msg), info,
            match_key=mk or 'C07:segment')
    lastk = None
    scale = 1.0
    for k, o in enumerate(obs):
        if k > 0:
            op = ops[k - 1]
            if op['op'] == 'set_B_scaled':
                scale = abs(cplx(op['c']))
                ref.canon = False
            elif op['op'] == 'canonical_form':
                if not op['renormalize']:
                    ref.norm = ref.norm * scale
                scale = 1.0
                ref.canon = True
        if o is None:
            check_probe(ctx, ops[k - 1], A, '%s_%d' % (key, lastk), '%s_%d_probe' % (key, k), obs[lastk], True, case, 'segment')
            continue
        kk = '%s_%d' % (key, k)
        if 'sanity' in o:
            fail('test_sanity raises ' + o['sanity'], k)
        nrm = cplx(o['norm'])
        if abs(nrm - ref.norm) > 1e-9 * max(1, abs(ref.norm)):
            fail('psi.norm = %r, expected %r' % (nrm, ref.norm), k)
        if ref.canon:
            seg_rdm_check(ctx, A, kk, o, segs, lambda seg: G.rdm_from_vec(vec, [first + s for s in seg]), True, info, fail, k)
            Bs, Ss, forms = stored(A, kk, o)
            for cut in range(0, n + 1):
                g = first + cut
                if g <= 0 or g >= vec.ndim or Ss[cut] is None:
                    continue
                m = cmp_spec(Ss[cut], dense_schmidt(vec, g, key=('s', id(Dpar))))
                if m:
                    fail('stored _S[%d] are not the Schmidt coefficients of the parent state at that cut (%s)' % (cut, m), k)
                if 'spec_q' in o and Spar.mod and cut < len(o['spec_q']) and kk + '_specq%d' % cut in A and all(f is not None for f in forms):
                    refq = dense_sector_schmidt(vec, g, Spar, key=('s', id(Dpar)))
                    m = refq and cmp_sector_spectra(o['spec_q'][cut], A[kk + '_specq%d' % cut], refq, Spar.mod)
                    if m:
                        fail('entanglement_spectrum(by_charge=True) at bond %d: the Schmidt values do not sit in the charge sectors of the '
                             'Schmidt decomposition of the parent state (%s)' % (cut, m), k)
            if o.get('norm_test', 0) > 1e-8:
                fail('norm_test() = %.2e in canonical form' % o['norm_test'], k)
            if all(f is not None for f in forms) and all(s_ is not None for s_ in Ss):
                # a segment has n+1 non-trivial bonds 0..n: entropies / spectra with the default arguments, then every
                # bond and site index the API accepts
                if 'ent_error' in o:
                    fail('entanglement_entropy / entanglement_spectrum / norm_test raise ' + o['ent_error'], k)
                X.check_default_entropy(o, [G.entropy(seg_schmidt(c)) for c in range(n + 1)], 'bonds 0..%d of the segment' % n,
                                        lambda msg: fail(msg, k))
                if 'nspec' in o and o['nspec'] != n + 1:
                    fail('entanglement_spectrum() returns %d spectra, the segment has %d non-trivial bonds' % (o['nspec'], n + 1), k)
                for cut in range(n + 1):
                    if kk + '_spec%d' % cut in A:
                        m = cmp_spec(np.exp(-A[kk + '_spec%d' % cut] / 2.), seg_schmidt(cut))
                        if m:
                            fail('entanglement_spectrum()[%d] is not the Schmidt spectrum of the parent state at that cut (%s)' % (cut, m), k)
                X.check_bonds(o, A, kk, case['want'].get('bonds'), n, True, seg_schmidt, lambda msg: fail(msg, k))
        lastk = k


# ------------------------------------------------------------------------------------------------ segment-dense

def mat_json(m):
    m = np.asarray(m, dtype=complex)
    return [m.real.tolist(), m.imag.tolist()]


def gen_segment_dense_case(rng, SI):
    """segment with non-trivial outer bonds on both sides + a history in which canonical_form (explicit, or implicit
    in apply_local_op with a non-unitary operator) is repeated with modifications of the state in between:
    set_B of perturbed tensors and local operators near both boundaries, rescaled tensors, form conversions"""
    Lp = rng.choice([4, 5, 5, 6, 6, 7])
    kinds = G.gen_sites(rng, Lp, maxdim=800)
    Lp = len(kinds)
    m = rng.choice(['full', 'full', 'full', 'bflat', 'circuit'])
    par = {'bc': 'finite', 'sites': kinds, 'build': G.gen_finite_build(rng, kinds, [m])}
    if par['build']['method'] == 'bflat':
        par['build']['chi'] = [1] + [max(c, 2) for c in par['build']['chi'][1:-1]] + [1]
    if Lp >= 4 and rng.random() < 0.85:
        first = rng.randrange(1, Lp - 2)
        last = rng.randrange(first + 1, Lp - 1)
    else:
        first = rng.randrange(0, Lp - 1)
        last = rng.randrange(first + 1, Lp)
    n = last - first + 1
    seg_kinds = kinds[first:last + 1]
    S = G.Sites(seg_kinds, SI)
    nrng = np.random.default_rng(rng.randrange(1 << 30))
    cplx_ok = par['build']['cplx']

    def site():
        r = rng.random()
        return 0 if r < 0.35 else (n - 1 if r < 0.7 else rng.randrange(n))

    def modification():
        r = rng.random()
        if r < 0.35:
            return [{'op': 'set_B_perturbed', 'i': site(), 'form': rng.choice(G.FORMS), 'seed': rng.randrange(1 << 30),
                     'eps': rng.choice([0.05, 0.3, 0.7]), 'cplx': cplx_ok and rng.random() < 0.7}]
        if r < 0.75:
            k = 1 if (n < 2 or rng.random() < 0.6) else 2
            i = site()
            i = min(i, n - k)
            uni = rng.random() < 0.3
            mat = G.random_gate(nrng, S, list(range(i, i + k)), cplx_ok, unitary=uni)
            return [{'op': 'apply_local_op', 'i': i, 'n': k, 'mat': mat_json(mat), 'unitary': rng.choice([None, uni]),
                     'renormalize': rng.random() < 0.3, 'overlap': True}]
        if r < 0.85:
            return [{'op': 'set_B_scaled', 'i': site(), 'form': rng.choice(G.FORMS),
                     'c': [rng.choice([0.5, 2.0, -1.5, 3.0]), rng.choice([0.0, 0.0, 0.5]) if cplx_ok else 0.0]}]
        if r < 0.93:
            return [{'op': 'convert_form', 'forms': G.gen_forms(rng, n)}]
        return [{'op': 'set_svd_theta', 'i': rng.randrange(n - 1), 'update_norm': r >= 0.965}]
    ops = []
    for _ in range(rng.randint(2, 4)):
        for _ in range(rng.choice([1, 1, 2])):
            ops += modification()
        if rng.random() < 0.85:
            ops.append({'op': 'canonical_form', 'renormalize': rng.random() < 0.5, 'overlap': True})
    spec = {'bc': 'segment', 'sites': seg_kinds, 'parent': par, 'segment': [first, last]}
    return {'state': spec, 'ops': ops, 'want': {'rdm': [], 'seg_env': True}, 'stream': 'segment-dense'}


def segment_dense(A, kk, o):
    """what a segment MPS denotes, dense and in the ORIGINAL bases of its outer virtual legs:
    psi.norm * U_L . (s Gamma s ... Gamma s, by the recorded form labels) . V_R, axes (vL, p_0 .. p_n-1, vR)"""
    Bs, Ss, forms = stored(A, kk, o)
    if any(f is None for f in forms) or any(x is None for x in Ss):
        return None
    th = G.explicit_theta(Bs, Ss, forms, 0, o['L'], True)
    if kk + '_UL' in A:
        th = np.tensordot(A[kk + '_UL'], th, axes=(1, 0))
    if kk + '_VR' in A:
        th = np.tensordot(th, A[kk + '_VR'], axes=(-1, 0))
    return th * cplx(o['norm'])


def check_segment_dense(ctx, case, r, A, key, Dpar, SI):
    """The state of a segment MPS includes the recorded basis changes `segment_boundaries` of its outer legs.  After
    every operation the dense state (original outer bases, psi.norm included) must be the documented image of the
    dense state before; embedded into the Schmidt states of the parent it must be the (transformed) parent state;
    in canonical form the stored singular values are the Schmidt values of that embedded state at every cut incl. the
    outer bonds; tenpy's own overlap between a copy taken before and the state after must agree with the dense one."""
    spec = case['state']
    first, last_site = spec['segment']
    par = spec['parent']
    n = last_site - first + 1
    obs = r['obs']
    ops = case.get('ops', [])
    info = {'stream': 'segment-dense', 'case': case}
    tol = 2e-8

    def fail(msg, step, mk=None):
        ctx.fail('oracle', 'segment [%d,%d] of a finite MPS (L=%d, built by %s; outer bonds chi=%s), after %d operation(s) %s: %s' % (
            first, last_site, len(par['sites']), par['build']['method'], [obs[0]['chi'][0], obs[0]['chi'][-1]] if obs[0].get('chi') else '?',
            step, [o_['op'] + ('(renormalize=%s)' % o_['renormalize'] if 'renormalize' in o_ else '') for o_ in ops[:step]], msg), info,
            match_key=mk or 'C07:segment-dense')

    def embed(t):
        if key + '_envL' in A:
            t = np.tensordot(A[key + '_envL'], t, axes=(1, 0))
        if key + '_envR' in A:
            t = np.tensordot(t, A[key + '_envR'], axes=(-1, 0))
        return t
    if 'env_error' in r:
        fail('the Schmidt states of the parent could not be built: ' + r['env_error'], 0)
    ref = None          # dense state (norm included) the segment has to denote
    canon = True
    ncanon = 0          # canonicalisations performed on a state that was modified since the previous one
    modified = False
    for k, o in enumerate(obs):
        if o is None:
            continue
        kk = '%s_%d' % (key, k)
        if 'sanity' in o:
            fail('test_sanity raises ' + o['sanity'], k)
        cur = segment_dense(A, kk, o)
        if cur is None:
            fail('a stored tensor lost its form label / singular values', k)
            return 0
        nrm = cplx(o['norm'])
        if k == 0:
            want = Dpar['vec'].reshape(-1)
            got = embed(cur).reshape(-1)
            if got.shape != want.shape or np.linalg.norm(got - want) > tol * np.linalg.norm(want):
                fail('the segment contracted with the Schmidt states of the parent on both sides is not the parent state '
                     '(relative difference %.2e)' % (np.linalg.norm(got - want) / np.linalg.norm(want) if got.shape == want.shape else -1), k)
            ref = cur
            continue
        op = ops[k - 1]
        t = op['op']
        prev = ref
        prev_nrm = cplx([o_ for o_ in obs[:k] if o_ is not None][-1]['norm'])
        exact = True          # the operation is documented to keep track of the norm
        if t == 'set_B_scaled':
            want = ref * cplx(op['c'])
            canon, modified = False, True
        elif t == 'apply_local_op':
            mat = np.array(op['mat'][0]) + 1j * np.array(op['mat'][1])
            want = G.apply_on(ref, mat, [1 + op['i'] + j for j in range(op['n'])])
            uni = np.linalg.norm(mat @ mat.conj().T - np.eye(len(mat))) < 1e-10
            exact = not op['renormalize']
            if not uni:
                modified = True
            if op['unitary'] is False or not uni:      # canonical_form is called by apply_local_op
                if modified:
                    ncanon += 1
                canon, modified = True, False
        elif t == 'canonical_form':
            want = ref
            exact = not op['renormalize']
            if modified:
                ncanon += 1
            canon, modified = True, False
        elif t == 'set_B_perturbed':
            want = None        # a new state: whatever the stored tensors denote by their labels
            canon, modified = False, True
        elif t == 'set_svd_theta':
            want = ref
            # the singular values are stored normalised: a non-normalised theta is rescaled unless update_norm=True
            exact = canon or bool(op.get('update_norm'))
        else:                  # convert_form: state and norm unchanged
            want = ref
        if want is not None:
            nw, nc = np.linalg.norm(want), np.linalg.norm(cur)
            if cur.shape != want.shape:
                fail('%s changed the original outer bond dimensions: %s -> %s' % (t, want.shape, cur.shape), k)
                return ncanon
            if exact:
                if np.linalg.norm(cur - want) > tol * nw:
                    fail('psi.norm * U_L.theta.V_R (dense state of the segment in the original basis of its outer legs) after %s differs from the '
                         '%s state before by %.2e (relative); normalised overlap %s' % (
                             t, 'transformed' if t in ('apply_local_op', 'set_B_scaled') else 'unchanged', np.linalg.norm(cur - want) / nw,
                             np.round(np.vdot(want, cur) / nw / nc, 8)), k)
            else:
                if np.linalg.norm(cur / nc - want / nw) > tol:
                    fail('U_L.theta.V_R (dense state of the segment in the original basis of its outer legs) after %s is not a positive multiple '
                         'of the %s state before: normalised overlap %s' % (
                             t, 'transformed' if t == 'apply_local_op' else 'unchanged', np.round(np.vdot(want, cur) / nw / nc, 8)), k)
                if abs(nrm - prev_nrm) > 1e-9 * abs(prev_nrm):
                    fail('%s(%s) changed psi.norm from %r to %r' % (
                        t, 'update_norm=False' if t == 'set_svd_theta' else 'renormalize=True', prev_nrm, nrm), k)
        ex = r['extra'][k - 1] if k - 1 < len(r['extra']) else {}
        if 'ov_error' in ex:
            fail('MPS.overlap between a copy taken before %s and the state after raises %s' % (t, ex['ov_error']), k)
        elif 'ov_ba' in ex:
            for name, a, c in (('<before|after>', prev, cur), ('<before|before>', prev, prev), ('<after|after>', cur, cur)):
                got = cplx(ex['ov_' + {'<before|after>': 'ba', '<before|before>': 'bb', '<after|after>': 'aa'}[name]])
                w = np.vdot(a, c)
                if abs(got - w) > 10 * tol * np.linalg.norm(a) * np.linalg.norm(c):
                    fail('MPS.overlap %s around %s = %r, the dense states (boundaries included) give %r' % (name, t, got, w), k)
            if t == 'canonical_form':
                ba, bb, aa = cplx(ex['ov_ba']), cplx(ex['ov_bb']), cplx(ex['ov_aa'])
                if abs(ba / np.sqrt(abs(bb * aa)) - 1) > 10 * tol:
                    fail('MPS.overlap of a copy taken before canonical_form with the canonicalised state, normalised: %r instead of 1' % (
                        ba / np.sqrt(abs(bb * aa)),), k)
        if canon and t in ('canonical_form', 'apply_local_op'):
            if abs(np.linalg.norm(cur) - abs(nrm)) > tol * abs(nrm):
                fail('after %s the tensors are not normalised: |theta| = %.10f' % (t, np.linalg.norm(cur) / abs(nrm)), k)
            full = embed(cur)
            full = full / np.linalg.norm(full)
            Ss = stored(A, kk, o)[1]
            sds = []
            for cut in range(0, n + 1):
                # axes of full: [env-left (flattened) | a0] , p_0..p_n-1, [env-right (flattened) | b0]
                dl = int(np.prod(full.shape[:1 + cut]))
                sd = np.linalg.svd(full.reshape(dl, -1), compute_uv=False)
                sds.append(sd / np.linalg.norm(sd))
                m = cmp_spec(Ss[cut], sd / np.linalg.norm(sd))
                if m:
                    fail('stored _S[%d] are not the Schmidt coefficients of the state at that cut (%s)' % (cut, m), k)
            # tenpy's own answers at all n+1 non-trivial bonds of the segment (default arguments and explicit indices)
            if 'ent_error' in o:
                fail('entanglement_entropy / entanglement_spectrum / norm_test raise ' + o['ent_error'], k)
            X.check_default_entropy(o, [G.entropy(s_) for s_ in sds], 'bonds 0..%d of the segment' % n, lambda msg: fail(msg, k), tol=1e-6)
            X.check_bonds(o, A, kk, case['want'].get('bonds'), n, True, lambda bnd: sds[bnd], lambda msg: fail(msg, k), tol=1e-6)
            if o.get('norm_test', 0) > 1e-8:
                fail('norm_test() = %.2e in canonical form' % o['norm_test'], k)
        ref = cur
    return ncanon


# ------------------------------------------------------------------------------------------------ main

def covering_known(spec):
    b = spec['build']
    if b['method'] != 'covering':
        return False
    for g in b['groups']:
        a = list(np.argsort(g))
        inv = [0] * len(a)
        for i, x in enumerate(a):
            inv[x] = i
        if a != inv:
            return True
    return False


def index_stream(ctx, script):
    cases = []
    for L in range(1, 9):
        for bc in ('finite', 'segment', 'infinite'):
            cases.append({'L': L, 'bc': bc, 'idx': list(range(-3 * L - 2, 3 * L + 3))})
    r, err = common.run_impl(script, {'kind': 'index', 'cases': cases})
    if err:
        ctx.fail('correspondence', 'index runner failed: ' + err[-400:], None)
        return
    lits = []
    meta = []
    for c, rows in zip(cases, r):
        L, fin = c['L'], c['bc'] != 'infinite'
        for i, row in zip(c['idx'], rows):
            s, bl, br, plain = row
            info = {'stream': 'index', 'L': L, 'bc': c['bc'], 'i': i, 'impl': row}
            # oracle from the docstrings
            if not fin:
                want = ([i % L, i // L], [i % L, i // L], [(i + 1) % L, (i + 1) // L])
                if (s, bl, br) != want or plain != i % L:
                    ctx.fail('oracle', '_to_valid_site/bond_index(%d) for infinite bc, L=%d: %s, documented %s' % (i, L, row, want), info,
                             match_key='C07:index:infinite')
            elif 0 <= i < L:
                if (s, bl, br) != ([i, 0], [i, 0], [i + 1, 0]) or plain != i:
                    ctx.fail('oracle', '_to_valid_site/bond_index(%d) for %s bc, L=%d: %s' % (i, c['bc'], L, row), info,
                             match_key='C07:index:finite')
            elif i < -L or i >= L:
                if (s, bl, br, plain) != (None, None, None, None):
                    ctx.fail('oracle', 'index %d accepted for %s bc with L=%d: %s' % (i, c['bc'], L, row), info,
                             match_key='C07:index:finite-accepts')
            ctx.count('index', [L, c['bc'], i], nontrivial=not (0 <= i < L))
            opt = lambda x: None if x is None else common.Some((x[0], x[1]))
            lits.append(coq_lit((fin, L, i, opt(s), opt(bl), opt(br))))
            meta.append(info)
    bad, err = common.coq_failing_indices('c07_index', ['Base.Prelude', 'Model.MpsIndex'], 'check_index_case', lits)
    if err:
        ctx.fail('correspondence', 'model evaluation failed: ' + err[-500:], None)
    for b in bad[:3]:
        ctx.fail('correspondence', 'Model/MpsIndex.v and _to_valid_site_index/_to_valid_bond_index disagree', meta[b])
    return len(lits)


def product_stream(ctx, script, rng, ncases):
    """from_product_state (integer local states) against Model/MpsProduct.v: legs, qtotal, block of every tensor, total charge"""
    cases = []
    fams = [f for f in sorted(G.FAMILIES) if f != 'none']
    for n in range(ncases):
        fam = fams[n % len(fams)] if n < 2 * len(fams) else rng.choice(fams)
        L = rng.randint(1, 7)
        kinds = [rng.choice(sorted(G.FAMILIES[fam])) for _ in range(L)]
        dims = [G.std_table(k)[0] for k in kinds]
        nq = len(G.FAMILY_MOD[fam])
        cases.append({'kinds': kinds, 'p': [rng.randrange(d) for d in dims], 'bc': rng.choice(['finite', 'infinite']),
                      'chargeL': None if rng.random() < 0.3 else [rng.randint(-3, 5) for _ in range(nq)]})
    r, err = common.run_impl(script, {'kind': 'product', 'cases': cases})
    if err:
        ctx.fail('correspondence', 'product-state runner failed: ' + err[-600:], None)
        return 0
    lits, meta = [], []
    for c, o in zip(cases, r):
        fin = c['bc'] != 'infinite'
        info = {'stream': 'product', 'case': c, 'impl': {k: o[k] for k in ('mod', 'total', 'chi')}}
        L = len(c['kinds'])
        # oracle: documented total charge = sum of the charges of the chosen states; trivial bonds; one entry 1 per tensor
        mod = o['mod']
        want = [0] * len(mod)
        for srow in o['sites']:
            qv = srow[1][srow[3]]
            want = [a + srow[2] * b for a, b in zip(want, qv)]
        want = [w if m == 1 else w % m for w, m in zip(want, mod)]
        if o['total'] != want:
            ctx.fail('oracle', 'from_product_state: get_total_charge %s, sum of the state charges %s' % (o['total'], want), info,
                     match_key='C07:product:total-charge')
        if any(x != 1 for x in o['chi']):
            ctx.fail('oracle', 'from_product_state: bond dimensions %s' % o['chi'], info, match_key='C07:product:chi')
        for b in o['B']:
            if b[2] != [1] or b[5] != [1] or len(b[7]) != 1 or sorted(b[8])[-1] != 1.0 or sum(b[8]) != 1.0:
                ctx.fail('oracle', 'from_product_state: tensor is not a single entry 1 with trivial bonds', info,
                         match_key='C07:product:tensor')
        ctx.count('product', [c['kinds'], c['p'], c['bc'], c['chargeL']], nontrivial=L > 1)
        sites = [((([common.Nat(x) for x in s_[0]], s_[1], s_[2])), common.Nat(s_[3]), common.Nat(s_[4])) for s_ in o['sites']]
        obs = [(b[0], b[1], b[3], b[4], b[6], [common.Nat(x) for x in (b[7][0] if len(b[7]) == 1 else [])]) for b in o['B']]
        chl = c['chargeL'] if c['chargeL'] is not None else [0] * len(mod)
        lits.append(coq_lit((fin, mod, chl, sites, obs, o['total'])))
        meta.append(info)
    bad, err = common.coq_failing_indices('c07_product', ['Base.Prelude', 'Model.Charge', 'Model.Tensor', 'Model.MpsProduct',
                                                          'Model.MpsProductCheck'], 'check_product_case', lits)
    if err:
        ctx.fail('correspondence', 'model evaluation failed: ' + err[-500:], None)
    for b in bad[:3]:
        ctx.fail('correspondence', 'Model/MpsProduct.v and MPS.from_product_state disagree on legs / qtotal / block / total charge', meta[b])
    return len(lits)


def main(ctx):
    rng = ctx.rng
    script = 'c07_impl.py'
    ctx.proof = common.check_proofs('C07', extra_targets=['Model/MpsDenoteCheck.vo'])
    mult = 1 if ctx.proof.ok else 3
    SI = get_siteinfo(script)
    for p in G.check_site_tables(SI):
        ctx.fail('correspondence', 'site table of harness/mps_gen.py differs from the site class: ' + p, None)
    ncorr = index_stream(ctx, script) or 0
    import random as _random
    ncorr += product_stream(ctx, script, _random.Random(ctx.seed * 7919 + 707), ctx.pick(60, 400)) or 0
    ncorr += c07_valued.valued_stream(ctx, script, _random.Random(ctx.seed * 7919 + 717), ctx.pick(80, 300) * mult) or 0
    # ---------------- cases
    nfin = ctx.pick(150, 1500) * mult
    ninf = ctx.pick(60, 600) * mult
    nseg = ctx.pick(40, 400) * mult
    cases = []
    nbw = []        # generated cases that get the bond-index request (drawn from a separate stream afterwards)
    for c in common.corpus_cases('C07'):
        cases.append(c['case'])
    if ctx.replay_in:
        doc = json.load(open(ctx.replay_in))
        if isinstance(doc.get('input'), dict) and isinstance(doc['input'].get('case'), dict) and 'state' in doc['input']['case']:
            cases.append(doc['input']['case'])
    for n in range(nfin):
        spec = gen_finite_case(rng)
        L = len(spec['sites'])
        cases.append({'state': spec, 'ops': gen_c07_ops(rng, L, 'finite', rng.randint(0, 5)), 'want': {}})
        nbw.append(cases[-1])
    for n in range(nseg):
        par = gen_finite_case(rng, allow=['full', 'full_sparse', 'circuit', 'bflat', 'singlets'], maxdim=800)
        while par['build']['method'] == 'bflat' and max(par['build']['chi']) == 1:
            par = gen_finite_case(rng, allow=['full', 'full_sparse', 'circuit', 'singlets'], maxdim=800)
        Lp = len(par['sites'])
        if Lp < 3:
            continue
        first = rng.randrange(0, Lp - 1)
        last = rng.randrange(first + 1, Lp)
        n_seg = last - first + 1
        dims = [G.std_table(k)[0] for k in par['sites'][first:last + 1]]
        segs = [[i] for i in range(n_seg)] + [[i, i + 1] for i in range(n_seg - 1)]
        if int(np.prod(dims)) <= 64:
            segs.append(list(range(n_seg)))
        if n_seg >= 3:
            segs.append([0, n_seg - 1])
        spec = {'bc': 'segment', 'sites': par['sites'][first:last + 1], 'parent': par, 'segment': [first, last]}
        cases.append({'state': spec, 'ops': gen_c07_ops(rng, n_seg, 'segment', rng.randint(0, 4)), 'want': {'rdm': segs}})
        nbw.append(cases[-1])
    for n in range(ninf):
        spec = gen_infinite_case(rng)
        L = len(spec['sites'])
        dims = [G.std_table(k)[0] for k in spec['sites']]
        cases.append({'state': spec, 'ops': gen_c07_ops(rng, L, 'infinite', rng.randint(0, 4)),
                      'want': {'rdm': inf_segments(rng, L, dims)}})
        nbw.append(cases[-1])
    # crossing / interleaved coverings with several charge sectors per bond and generic Schmidt weights; every history
    # passes through the 'A' and the 'C' form (own random stream: the cases above do not depend on it)
    rx = _random.Random(ctx.seed * 7919 + 727)
    for n in range(ctx.pick(36, 300) * mult):
        spec = G.gen_covering_x(rx)
        L = len(spec['sites'])
        ops = gen_c07_ops(rx, L, 'finite', rx.randint(0, 2))
        for f in ('A', 'C'):
            pos = rx.choice([j for j in range(len(ops) + 1) if j == 0 or ops[j - 1]['op'] != 'set_B_scaled'])
            ops.insert(pos, {'op': 'convert_form', 'forms': f})
        cases.append({'state': spec, 'ops': ops, 'want': {}, 'stream': 'covering-x'})
        nbw.append(cases[-1])
    # segments with non-trivial outer bonds, repeated canonicalisations interleaved with modifications near both
    # boundaries; the dense state includes segment_boundaries and psi.norm (own random stream)
    rs = _random.Random(ctx.seed * 7919 + 737)
    for n in range(ctx.pick(70, 600) * mult):
        cases.append(gen_segment_dense_case(rs, SI))
        nbw.append(cases[-1])
    # tensors / local states of DIFFERENT dtypes handed to one constructor (raw-tensor constructor, from_Bflat,
    # from_product_mps_covering, add), finite / segment / infinite; own random stream
    rm = _random.Random(ctx.seed * 7919 + 747)
    for n in range(ctx.pick(44, 400) * mult):
        r_ = rm.random()
        if r_ < 0.2:
            spec = X.gen_mixed_infinite(rm)
            L = len(spec['sites'])
            dims = [G.std_table(k)[0] for k in spec['sites']]
            cases.append({'state': spec, 'ops': gen_c07_ops(rm, L, 'infinite', rm.randint(0, 2)),
                          'want': {'rdm': inf_segments(rm, L, dims)}, 'stream': 'mixed-dtype'})
        else:
            spec, ops0 = X.gen_mixed_finite(rm, SI)
            L = len(spec['sites'])
            b = spec['build']
            canon = b['method'] != 'bflat' or b.get('ctor') != 'raw' or b['form'] is None
            if r_ < 0.35 and L >= 3 and canon and not ops0 and not covering_known(spec):
                first = rm.randrange(0, L - 1)
                last = rm.randrange(first + 1, L)
                n_seg = last - first + 1
                segs = [[i] for i in range(n_seg)] + [[i, i + 1] for i in range(n_seg - 1)]
                seg = {'bc': 'segment', 'sites': spec['sites'][first:last + 1], 'parent': spec, 'segment': [first, last]}
                cases.append({'state': seg, 'ops': gen_c07_ops(rm, n_seg, 'segment', rm.randint(0, 2)), 'want': {'rdm': segs},
                              'stream': 'mixed-dtype'})
            else:
                cases.append({'state': spec, 'ops': ops0 + gen_c07_ops(rm, L, 'finite', rm.randint(0, 3)), 'want': {},
                              'stream': 'mixed-dtype'})
        nbw.append(cases[-1])
    rb = _random.Random(ctx.seed * 7919 + 757)
    for c in nbw:
        c['want']['bonds'] = X.bond_want(rb, c['state']['bc'], len(c['state']['sites']))
    # drop infinite bflat cases whose reference is ill-conditioned (degenerate transfer matrix)
    datas = []
    keep = []
    for c in cases:
        spec = c['state']
        if spec['bc'] == 'finite':
            D = X.build_data_mixed(spec, SI) if X.is_mixed(spec) else G.build_data(spec, SI)
        elif spec['bc'] == 'segment':
            D = X.build_data_mixed(spec['parent'], SI) if X.is_mixed(spec['parent']) else G.build_data(spec['parent'], SI)
        else:
            D = X.build_data_infinite_mixed(spec, SI) if X.is_mixed(spec) else G.build_data_infinite(spec, SI)
            if spec['build']['method'] == 'bflat' and not D['ok']:
                continue
        keep.append(c)
        datas.append(D)
    cases = keep
    results, errs = run_chunks(script, cases)
    for e in errs:
        ctx.fail('correspondence', 'implementation runner failed: ' + e[-600:], None)
    form_lits, theta_lits, form_meta, theta_meta = [], [], [], []
    hist = {}
    for case, D, res in zip(cases, datas, results):
        if res is None:
            continue
        r, A, key = res
        spec = case['state']
        bc = spec['bc']
        method = (spec.get('build') or spec['parent']['build'])['method']
        hist['%s/%s' % (bc, method)] = hist.get('%s/%s' % (bc, method), 0) + 1
        info = {'stream': bc, 'case': case}
        known = bc == 'finite' and covering_known(spec)
        if 'build_error' in r:
            mk = K_COVERING if known else 'C07:%s:%s:raises' % (bc, method)
            if method == 'covering' and not known and 'incompatible LegCharge' in r['build_error'] and G.FAMILY_MOD[G.KINDS[spec['sites'][0]][2]]:
                gs = [sorted(g) for g in spec['build']['groups']]
                if any(a[0] < b[0] < a[-1] or a[0] < b[-1] < a[-1] for a in gs for b in gs if a is not b):
                    mk = K_COV_X
            ctx.fail('oracle', 'constructor %s raised on valid input: %s' % (method, r['build_error'][:300]), info, match_key=mk)
            ctx.count(bc, [spec], nontrivial=True)
            continue
        if bc == 'infinite' and method == 'bflat' and len(spec['sites']) == 1 and max(spec['build']['chi']) > 1:
            # from_Bflat canonicalises only when L > 1: the single-site unit cell keeps the raw tensor with the
            # label it was given and made-up singular values
            o = r['obs'][0]
            tm = G.TM(D['Ms'])
            got = A.get(key + '_0_rho0')
            bad = got is None or np.max(np.abs(got / np.trace(got) - tm.rdm([0]))) > 1e-7 or o.get('norm_test', 1) > 1e-7
            if bad:
                ctx.fail('oracle', 'from_Bflat(bc=infinite) with a single-site unit cell and chi=%d returns the raw tensor labelled %r with '
                         'uniform singular values: norm_test()=%s, <observables> wrong' % (spec['build']['chi'][0], spec['build']['form'], o.get('norm_test')),
                         info, match_key=K_BFLAT_L1)
                ctx.count(bc, [spec], nontrivial=True)
                continue
        if 'op_error' in r:
            e = r['op_error']
            opx = case['ops'][e['step']]
            prev = [o for o in r['obs'] if o is not None][-1]
            if opx.get('method') == 'canonical_form_infinite2' and 'incompatible LegCharge' in e['msg']:
                ctx.fail('oracle', 'canonical_form_infinite2 raises ValueError(incompatible LegCharge) on an iMPS whose virtual legs are not sorted by charge',
                         info, match_key=K_INF2)
                ctx.count(bc, [spec, case['ops']], nontrivial=True)
                continue
            ctx.fail('oracle', '%s raised %s: %s (bc=%s, built by %s)' % (case['ops'][e['step']]['op'], e['type'], e['msg'][:200], bc, method),
                     info, match_key='C07:%s:%s:raises' % (bc, case['ops'][e['step']]['op']))
        if known:
            # the constructor is known to put the local states on the wrong sites: compare only the first observation
            o = r['obs'][0]
            v = A.get(key + '_0_full')
            want = D['vec'].reshape(-1)
            if v is None or v.shape != want.shape or np.linalg.norm(v * cplx(o['norm']) - want) > TOL:
                ctx.fail('oracle', 'from_product_mps_covering with index_map %s: state differs from the product of the local states' % (
                    spec['build']['groups'],), info, match_key=K_COVERING)
            ctx.count(bc, [spec], nontrivial=True)
            continue
        if bc == 'finite':
            check_finite(ctx, case, r, A, key, D, SI)
        elif case.get('stream') == 'segment-dense':
            ncan = check_segment_dense(ctx, case, r, A, key, D, SI)
            o0 = r['obs'][0]
            ctx.count('segment-dense', [spec, case['ops']], nontrivial=bool(o0.get('chi')) and o0['chi'][0] > 1 and o0['chi'][-1] > 1 and ncan >= 2,
                      sample={'sites': spec['sites'], 'segment': spec['segment'], 'parent': method, 'ops': [o['op'] for o in case['ops']],
                              'chi': o0.get('chi'), 'recanonicalised': ncan})
        elif bc == 'segment':
            check_segment(ctx, case, r, A, key, D, SI)
        else:
            check_infinite(ctx, case, r, A, key, D, SI)
        nontriv = max([max(o['chi']) if o and o.get('chi') else 1 for o in r['obs']] + [1]) > 1
        if case.get('stream') != 'segment-dense':
            ctx.count(case.get('stream', bc), [spec, case['ops']], nontrivial=nontriv,
                      sample={'sites': spec['sites'], 'build': spec.get('build', {}).get('method', 'segment'), 'ops': [o['op'] for o in case['ops']],
                              'chi': r['obs'][0].get('chi'), 'form0': r['obs'][0]['form']})
        for lit in form_cases(case, r, A, key, bc != 'infinite'):
            if isinstance(lit, tuple):
                form_lits.append(lit[1])
                form_meta.append(info)
            else:
                theta_lits.append(lit)
                theta_meta.append(info)
    imports = ['Base.Prelude', 'Model.MpsIndex', 'Model.MpsForm']
    for name, fn, lits, meta in (('c07_form', 'check_form_case', form_lits, form_meta),
                                 ('c07_theta', 'check_theta_case', theta_lits, theta_meta)):
        if not lits:
            continue
        bad, err = common.coq_failing_indices(name, imports, fn, lits)
        if err:
            ctx.fail('correspondence', 'model evaluation failed: ' + err[-500:], None)
        for b in bad[:3]:
            ctx.fail('correspondence', 'Model/MpsForm.v (%s) and the implementation disagree on labels / dimensions after one operation' % fn, meta[b])
        for _ in lits:
            ctx.count('form-correspondence', len(ctx._distinct), nontrivial=False)
    ctx.cov['traces_validated_against_impl'] = ncorr + len(form_lits) + len(theta_lits)
    ctx.cov['input_distribution'] = hist
    ctx.assumptions += [
        'C07 model: exponents in units of 1/2; numerical content of Gamma/s is modelled only for the form conversions (Model/MpsDenote.v, stream valued: dyadic tensors, singular values 4^k, trivial charges); charges, QR/SVD not modelled (oracle only); set_svd_theta and canonical_form enter the model by their specification (isometric factors)',
        'C07 oracle: dense references in the stored local basis, site tables of harness/mps_gen.py cross-checked against the site classes; infinite states compared through reduced density matrices on a three-cell window '
        '(transfer-matrix contraction of the input tensors); from_product_mps_covering with fermionic sites only for non-interleaved local states (the documentation does not define the sign convention)',
        'C07 oracle, set_svd_theta(i, get_theta(i, 2), update_norm=True/False): the singular values are stored normalised and |theta| enters psi.norm only with '
        'update_norm=True (docstring), so with update_norm=False on NON-normalised tensors (from_Bflat leaves a chi=1 chain as given; segment after set_B) the reference '
        'state is divided by |theta| and psi.norm must stay; with update_norm=True state and recorded norm together must be unchanged exactly; in canonical form |theta|=1 and both coincide',
    ]
    return ctx.finish(RULE, 'theorems of coq/Props/C07.v (index arithmetic, label-truthfulness invariant over all histories, get_theta exponents) on the model; '
                      'every executed operation is replayed on the model (labels, physical and bond dimensions); the valued form model (Model/MpsDenote.v) is executed '
                      'against get_B/set_B/convert_form/get_theta on dyadic MPS with exact comparison of all tensor entries (stream valued); dense oracle for every constructor and history')


RULE = ('finite chains L 2-8 (spin-1/2, spin-1, fermion, spinful fermion, boson sites; conserve None/Sz/N/parity; heterogeneous), constructors '
        'from_product_state/from_full/from_Bflat(non-canonical, any form)/from_singlets/from_product_mps_covering/two-site gates, segments cut out of them, '
        'coverings by crossing local MPS of 1-3 sites (spin-1/2, 1, 3/2, bosons; Sz/N/parity; L 4-6; canonicalised or raw local states), '
        'infinite unit cells 1-4; random histories of convert_form/get_B/get_theta/set_svd_theta/set_B(rescaled)/canonical_form; '
        'segment-dense: segments (2-5 sites, both outer bonds inside the parent, L 4-7) with 2-4 rounds of [set_B(perturbed tensor, any form label) / '
        'apply_local_op(1-2 sites, unitary or not, renormalize or not) / rescaled set_B / convert_form / set_svd_theta near the boundaries, then '
        'canonical_form(renormalize True/False)], non-trivial = both outer bond dimensions > 1 and at least two canonicalisations of a modified state; '
        'mixed-dtype: raw-tensor constructor (labelled non-canonical or form=None + canonical_form, norm given) / from_Bflat / '
        'from_product_mps_covering with real data on some sites and complex data on others, add of a real and a complex state, '
        'segments of them, infinite unit cells 2-4; every observation of every stream: entanglement_entropy(n=1,2, bonds=...), '
        'get_SL, get_SR at all accepted bond / site indices (finite, segment: bonds 0..L; infinite: -L-1..2L+1); '
        'a case is non-trivial when some bond dimension exceeds 1; distinct = distinct (state spec, history)')
