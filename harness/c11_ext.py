"""C11 coverage audit: streams that reach the public functions / documented options / branches of tenpy.networks.mpo and of
tenpy.algorithms.mpo_evolution which the base streams of c11.py do not reach, and the coverage table (item x option -> stream, count)
that becomes part of the evidence.

Generators are stratified by the case index (boundary values and option values are forced in turn, not left to chance); all oracles
are dense numpy computations from the term lists (c10_oracle.Dense), written from the documentation.
"""
import ast
import copy
import os

import numpy as np

import common
import c10_oracle as O
import c11 as C
from c10 import maxdiff

TOL = 1e-9

# ------------------------------------------------------------------------------------------
# coverage bookkeeping: tags '<item>:<option or branch>' counted by the checkers
# ------------------------------------------------------------------------------------------
TAGS = {}


def tag(*names):
    for n in names:
        TAGS[n] = TAGS.get(n, 0) + 1


def label(case, stream):
    return {'stream': stream, 'case': case}


def report(ctx, case, stream, probs):
    seen = set()
    for key, text in probs:
        if key not in seen:
            seen.add(key)
            ctx.fail('oracle', text, label(case, stream), match_key=key)


# ------------------------------------------------------------------------------------------
# sub 'chain': results of the algebra and of the structural transformations as operands of the next operation
# ------------------------------------------------------------------------------------------
K_OVERLAP_DEFAULT = 'C11:overlap:default-num_sites:max_range-of-other-None-or-inf:raises'


def rep_terms(terms):
    return {'alpha': 0j, 'terms': copy.deepcopy(terms)}


def scale_terms(terms, c):
    out = []
    for t, st in terms:
        z_ = complex(*st) * c
        out.append([copy.deepcopy(t), [z_.real, z_.imag]])
    return out


def simulate(case):
    """the operator (alpha * 1 + sum of terms; with the flag explicit_plus_hc: of the STORED half) the register must denote after every
    step, the site structure (original sites per current site, segment window in original sites) - from the documentation of the steps"""
    kind = case['site']['type']
    cell = None if case['bc'] == 'finite' else case['L']
    flag = bool(case['A'].get('plus_hc'))
    cur = rep_terms(case['A']['terms'])
    B = rep_terms(case['B']['terms']) if case.get('B') else None
    state = {'per': 1, 'segment': None, 'cell': cell}
    out = []
    for step in case['steps']:
        op = step[0]
        if op == 'dagger' and not flag:
            cur = {'alpha': np.conj(cur['alpha']), 'terms': C.hc_terms(kind, cur['terms'], cell if state['segment'] is None else None)}
        elif op in ('add', 'radd'):
            cur = {'alpha': cur['alpha'] + B['alpha'], 'terms': cur['terms'] + copy.deepcopy(B['terms'])}
        elif op == 'addself':
            cur = {'alpha': 2 * cur['alpha'], 'terms': scale_terms(cur['terms'], 2.0)}
        elif op == 'plus_identity':
            a, b = complex(*step[1]), complex(*step[2])
            cur = {'alpha': a + b * cur['alpha'], 'terms': scale_terms(cur['terms'], b)}
        elif op == 'group':
            state['per'] *= int(step[1])
        elif op == 'enlarge':
            if state['cell'] is not None:
                state['cell_cur'] = state.get('cell_cur', case['L']) * int(step[1])
        elif op == 'segment':
            state['segment'] = [int(step[1]) * state['per'], (int(step[2]) + 1) * state['per'] - 1]
        out.append({'rep': {'alpha': cur['alpha'], 'terms': copy.deepcopy(cur['terms'])}, 'per': state['per'],
                    'segment': None if state['segment'] is None else list(state['segment'])})
    return out, flag


def window_terms(terms, lo, hi, cell):
    """the terms (for an infinite MPO: all translates) that lie completely inside the original sites lo..hi, re-indexed from lo"""
    out = []
    for t, st in terms:
        shifts = [0] if cell is None else [k * cell for k in range(-(hi // cell) - 8, hi // cell + 8)]
        for sh in shifts:
            ks = [k + sh for _, k in t]
            if min(ks) >= lo and max(ks) <= hi:
                out.append([[[o_, k + sh - lo] for o_, k in t], list(st)])
    return out


def true_range(terms, per, cell, L0):
    """largest range (in units of the current, possibly grouped, sites) of a term, over all translates"""
    best = 0
    for t, _ in terms:
        shifts = [0] if cell is None else range(0, per * max(cell, 1) * 2, cell)
        for sh in shifts:
            ks = [(k + sh) // per for _, k in t]
            best = max(best, max(ks) - min(ks))
    return best


_n_apply = 0


def gen_chain(rng, idx):
    # stratification by mixed-radix digits of the index: kind x bc x structural plan every 36 cases, charges / flag / form on top
    kind = ['SpinHalf', 'Fermion', 'SpinHalf'][idx % 3]
    finite = (idx // 3) % 2 == 0
    plan = (idx // 6) % 6                   # structural plan (5: segment of the ungrouped MPO)
    conserve = [None, 'Sz' if kind == 'SpinHalf' else 'N'][1 if idx % 4 >= 2 else 0]
    flag = idx % 11 == 5 or idx % 12 in (7, 10)        # (meets every structural plan within 60 cases)
    if finite:
        L = [4, 6, 5, 4, 6, 5][plan]
        N, cell, nsite = L, None, L
        maxr = L - 1
    else:
        L = [1, 2, 2, 1, 2, 2][plan]
        N = 4 if L == 1 else [4, 8, 4, 4, 4, 6][plan]
        cell, nsite = L, N
        maxr = 2 if N >= 4 else 1
    form = ['graph', 'sum', 'neg'][(idx // 2) % 3]
    tagsel = lambda: rng.choice(['known', 'known', 'none', 'inf'])
    herm = rng.random() < 0.4
    A = C.gen_terms(rng, kind, nsite, conserve, False, herm, rng.randint(2, 3) if not herm else rng.randint(1, 2), maxrange=maxr, cell=cell)
    Bt = C.gen_terms(rng, kind, nsite, conserve, False, rng.random() < 0.4, rng.randint(1, 2), maxrange=maxr, cell=cell)
    how = lambda: rng.choice(['ctor', 'wflat'])
    case = {'kind': 'ext', 'sub': 'chain', 'site': {'type': kind, 'conserve': conserve}, 'bc': 'finite' if finite else 'infinite', 'L': L, 'N': N,
            'seed': 21000 + idx,
            'A': {'terms': A, 'form': form, 'split': rng.randint(1, max(1, len(A) - 1)), 'range': tagsel(), 'how': how(), 'plus_hc': flag},
            'B': {'terms': Bt, 'form': rng.choice(['graph', 'sum', 'neg']), 'split': 1, 'range': tagsel(), 'how': how(), 'plus_hc': flag}}
    alg = ['sort', 'dagger', 'add', 'radd', 'addself', 'wflat', 'set_W']
    steps = []
    n_alg = rng.randint(1, 3)
    pick = lambda: rng.choice(alg)
    for _ in range(n_alg):
        s_ = pick()
        steps.append([s_] if s_ not in ('wflat', 'set_W') else ([s_, rng.choice(['plain', 'dtype'])] if s_ == 'wflat' else [s_, rng.randint(0, 7)]))
    per = 1
    Lc = L
    uniform = True
    # structural part (forced by the plan)
    if finite:
        if plan == 0:
            steps.append(['group', 2, rng.choice(['default', 'explicit'])])
            per, Lc = 2, L // 2
        elif plan == 1:
            steps.append(['group', 3, 'default'])
            per, Lc = 3, L // 3
        elif plan == 2:
            steps.append(['group', 2, 'default'])         # L = 5: the last group is smaller
            per, Lc, uniform = 2, 3, False
        elif plan == 3:
            steps.append(['copy_mutate', rng.choice(['sort', 'group'])])
        if plan == 4 and not flag:
            sites_ = [0] if rng.random() < 0.4 else None
            if sites_ is None and rng.random() < 0.6:
                a = rng.randint(0, L - 1)
                sites_ = list(range(a, min(L, a + rng.randint(1, 3))))
            beta = C.cpx(rng, False, real=True)
            beta[0] = abs(beta[0]) + 0.1
            steps.append(['plus_identity', C.cpx(rng, False), beta, sites_])
    else:
        if plan == 0:       # L = 1: enlarge, then group back
            steps.append(['enlarge', 2])
            steps.append(['group', 2, 'default'])
            per, Lc = 2, 1
        elif plan == 1:     # L = 2: enlarge to 4, group by 2
            steps.append(['enlarge', 2])
            steps.append(['group', 2, rng.choice(['default', 'explicit'])])
            per, Lc = 2, 2
        elif plan == 2:     # L = 2: group to a single site
            steps.append(['group', 2, 'default'])
            per, Lc = 2, 1
        elif plan == 3:
            steps.append(['enlarge', rng.choice([2, 3, 4])])
            Lc = None
        elif plan == 4:
            steps.append(['copy_mutate', rng.choice(['sort', 'group', 'enlarge'])])
    # the RESULT of the structural step is an operand again
    for _ in range(rng.randint(1, 2)):
        s_ = rng.choice(['sort', 'dagger', 'add', 'radd', 'addself'])
        steps.append([s_])
    for q, s_ in enumerate(steps):
        if s_[0] == 'plus_identity' and any(x[0] in ('add', 'radd', 'addself') for x in steps[q + 1:]):
            # MPO.__add__ documents "standard sum form": plus_identity with beta != 1 puts beta on the IdL -> IdL entry
            s_[2] = [1.0, 0.0]
    # (extract_segment of a grouped MPO / MPS divides by L // unit_cell_width = 0: grouping documents that unit_cell_width is unchanged)
    segment = (plan == 5 or (plan == 3 and idx % 2 == 1)) and per == 1 and not any(x[0] == 'plus_identity' for x in steps)
    if segment:
        if finite:
            Lcur = L // per
            a = rng.randint(0, Lcur - 2) if Lcur >= 2 else 0
            b = rng.randint(a + (1 if Lcur >= 2 else 0), Lcur - 1)
            if a == 0 and b == Lcur - 1 and Lcur > 2:
                a = 1
        else:
            ncur = N // per
            a = rng.randint(0, 2)
            b = a + rng.randint(1, max(1, ncur - 1))
        steps.append(['segment', a, b])
        steps.append([rng.choice(['sort', 'dagger', 'addself', 'add'])])
    case['steps'] = steps
    # ---- accessors of the final result
    sim, _ = simulate(case)
    last = sim[-1]
    rep = last['rep']
    has_alpha = abs(rep['alpha']) > 0
    final = []
    if not has_alpha or finite:
        # pairs: the same operator built independently from the expected terms / differing in one coefficient
        for tg in ('same', 'pert'):
            terms = copy.deepcopy(rep['terms'])
            qflag = flag if rng.random() < 0.5 else False
            if flag and not qflag:
                terms = terms + C.hc_terms(kind, terms, cell)           # written in full
            if tg == 'pert':
                k = max(range(len(terms)), key=lambda q: max(x[1] for x in terms[q][0]) - min(x[1] for x in terms[q][0]))
                d = rng.choice([0.01, 0.1, 1.0])
                terms[k] = [terms[k][0], [terms[k][1][0] + d, terms[k][1][1]]]
                # (with the flag the perturbed coefficient is the one of a stored term: its conjugate partner changes as well)
            spec = {'terms': terms, 'tag': tg, 'form': rng.choice(['graph', 'sum']), 'split': 1, 'range': tagsel(), 'how': 'ctor', 'plus_hc': qflag,
                    'order': rng.choice(['RQ', 'QR'])}
            if not finite and last['segment'] is None:
                spec['default_window'] = True
                if rng.random() < 0.5:
                    spec['eq_max_range'] = rng.choice([2, 3])
            if has_alpha:
                spec['alpha'] = [rep['alpha'].real, rep['alpha'].imag]
            final.append(['pair', spec])
    final.append(['is_hermitian', None if finite or rng.random() < 0.5 else rng.choice([2, 3])])
    if last['segment'] is None:
        final.append(['expectation', rng.choice([6, 20, 100])])
        if finite:
            case['state'] = {'kind': rng.choice(['full', 'product'])} if conserve is None else \
                {'kind': 'rue', 'p_state': [rng.choice(['up', 'down'] if kind == 'SpinHalf' else ['empty', 'full']) for _ in range(L)]}
        else:
            case['state'] = {'charged': conserve is not None}
            case['psi_L'] = L * per * (rng.choice([1, 2]) if L * per <= 2 else 1)
    ungrouped = per == 1
    if ungrouped and last['segment'] is None and not has_alpha:
        opts = {'ignore': ['Id']}
        v = idx % 4
        simple = all(len(set(k for _, k in t)) == len(t) for t, _ in rep['terms'])
        if v == 1:
            opts['basis_per_site'] = True
        elif v == 2 and simple:
            opts['start'] = sorted(rng.sample(range(L), rng.randint(1, L)))      # (sites of the original unit cell)
            opts['start_scalar'] = len(opts['start']) == 1
        elif v == 3 and simple:
            opts['max_range'] = rng.randint(0, 2)
        final.append(['to_TermList', opts])
    if ungrouped and last['segment'] is None and not has_alpha and kind == 'SpinHalf' and \
            all(len(set(k for _, k in t)) == len(t) for t, _ in rep['terms']):
        # prefactor of the words of some terms of the RESULT (and of one absent word)
        prefs = []
        for t, _ in rep['terms'][:3]:
            tt = sorted(t, key=lambda x: x[1])
            ops_ = ['Id'] * (tt[-1][1] - tt[0][1] + 1)
            for o_, k in tt:
                ops_[k - tt[0][1]] = o_
            if [tt[0][1], ops_] not in prefs and tt[0][1] + len(ops_) <= N:
                prefs.append([tt[0][1], ops_])
        prefs.append([0, ['Sz', 'Sp']] if conserve is None else [0, ['Sz', 'Id', 'Sz']])
        if finite:
            prefs = [p_ for p_ in prefs if p_[0] + len(p_[1]) <= L]
        final.append(['prefactor', prefs])
    if finite and last['segment'] is None and not flag and idx % 3 == 0 and not any(x[0] == 'plus_identity' for x in steps):
        # (make_U_I asserts that all markers are known: not the case after plus_identity)
        t0 = rng.choice([0.08, 0.05])
        imag = rng.random() < 0.5
        final.append(['make_U', [[0, -t0 / 2 ** n] if imag else [-t0 / 2 ** n, 0] for n in range(3)], ['I', 'II']])
    global _n_apply
    if finite and last['segment'] is None and not flag:
        big = {'chi_max': 200, 'svd_min': 1e-14}
        meths = [{'name': 'naive', 'method': 'naive', 'trunc_params': big},
                 {'name': 'svd', 'method': 'SVD', 'trunc_params': big},
                 {'name': 'zip_up', 'method': 'zip_up', 'trunc_params': big, 'm_temp': 2, 'trunc_weight': 1.0},
                 {'name': 'zip_up_m1', 'method': 'zip_up', 'trunc_params': big, 'm_temp': 1, 'trunc_weight': 0.5},
                 {'name': 'zip_up_m3', 'method': 'zip_up', 'trunc_params': big, 'm_temp': 3, 'trunc_weight': 1.0},
                 {'name': 'zip_up_nomin', 'method': 'zip_up', 'trunc_params': {'chi_max': 200}},
                 {'name': 'zip_up_direct', 'method': 'zip_up_direct', 'trunc_params': big, 'm_temp': 2},
                 {'name': 'var', 'method': 'variational', 'trunc_params': big, 'max_sweeps': 12, 'min_sweeps': 2},
                 {'name': 'varQR', 'method': 'variationalQR', 'trunc_params': big, 'max_sweeps': 12, 'min_sweeps': 2}]
        m_ = meths[_n_apply % len(meths)]                           # (every method in turn)
        if m_['method'].startswith('variational') and (L + per - 1) // per <= 2:
            m_ = meths[1]                                           # (two-site sweeps need more than two sites: the turn is kept)
        else:
            _n_apply += 1
        final.append(['apply', m_])
        final.append(['env', rng.randint(0, L - 2)])
    case['final'] = final
    return case


def cz(x):
    return complex(x[0], x[1])


def make_dense(r, ops, L, N, finite):
    return O.Dense(O.Geometry(C.chain_info(L, N, finite)), [ops], [r['needs_JW']])


def rep_dense(r, ops, case, entry, flag):
    """dense operator of a simulated register: on the whole chain / the window of N original sites / the segment window"""
    L, N = case['L'], case['N']
    finite = case['bc'] == 'finite'
    cell = None if finite else L
    rep = entry['rep']
    if entry['segment'] is not None:
        lo, hi = entry['segment']
        n = hi - lo + 1
        d = make_dense(r, ops, n, n, True)
        X = C.dense_terms_fast(d, window_terms(rep['terms'], lo, hi, cell))
    else:
        d = make_dense(r, ops, L, N, finite)
        X = C.dense_terms_fast(d, rep['terms'], infinite_cell=cell)
    X = X + rep['alpha'] * np.eye(d.D)
    if flag:
        X = X + X.conj().T
    return X, d


def check_chain(ctx, case, r):
    stream = 'ext_chain'
    if 'runner_error' in r:
        ctx.fail('correspondence', 'runner failed: ' + r['runner_error'][-600:], label(case, stream))
        return
    ops, mats = C.load(r)
    kind = case['site']['type']
    L, N = case['L'], case['N']
    finite = case['bc'] == 'finite'
    cell = None if finite else L
    sim, flag = simulate(case)
    probs = []
    A0, _ = rep_dense(r, ops, case, {'rep': rep_terms(case['A']['terms']), 'segment': None}, flag)
    desc0 = '%s %s MPO (L=%d, %s, form %s, max_range %s%s)' % (case['bc'], kind, L, case['site']['conserve'], case['A']['form'], case['A']['range'],
                                                             ', explicit_plus_hc' if flag else '')
    if maxdiff(mats['S/start'], A0) > TOL * max(1.0, float(np.max(np.abs(A0)))):
        probs.append(('C11:chain:operand', '%s: W tensors differ from the term list by %.3e' % (desc0, maxdiff(mats['S/start'], A0))))
    done = []
    ref = A0
    entry = {'rep': rep_terms(case['A']['terms']), 'per': 1, 'segment': None}
    for k, (step, o) in enumerate(zip(case['steps'], r['steps'])):
        if 'meta' not in o:
            break
        done.append(step[0])
        entry = sim[k]
        ref, d = rep_dense(r, ops, case, entry, flag)
        scale = max(1.0, float(np.max(np.abs(ref))))
        desc = '%s after steps %s' % (desc0, [s_ if len(str(s_)) < 60 else s_[:1] for s_ in case['steps'][:k + 1]])
        got = mats.get('S/%d' % k)
        tag('chain:step:' + step[0], 'chain:step:%s:%s' % (step[0], case['bc']))
        if step[0] in ('group', 'copy_mutate', 'wflat'):
            tag('chain:step:%s:%s' % (step[0], step[1] if step[0] != 'group' else step[2]))
        if flag:
            tag('chain:step:%s:explicit_plus_hc' % step[0], 'chain:any-step:explicit_plus_hc')
        if entry['per'] > 1:
            tag('chain:step:%s:on-grouped' % step[0], 'chain:any-step:on-grouped')
        if entry['segment'] is not None:
            tag('chain:step:%s:on-segment' % step[0], 'chain:any-step:on-segment')
        if any(x is not None and x < 0 for x in (r['steps'][k - 1]['meta'] if k else r['start'])['IdR']):
            tag('chain:step:%s:operand-with-negative-IdR' % step[0], 'chain:any-step:operand-with-negative-IdR')
        if got is None or got.shape != ref.shape or maxdiff(got, ref) > TOL * scale:
            probs.append(('C11:chain:%s:dense' % step[0], '%s: the contraction of the W tensors differs from the operator by %s'
                          % (desc, 'shape %s vs %s' % (None if got is None else got.shape, ref.shape) if got is None or got.shape != ref.shape
                             else '%.3e' % maxdiff(got, ref))))
            break
        m = o['meta']
        if m['flag'] != flag:
            probs.append(('C11:chain:%s:flag' % step[0], '%s: explicit_plus_hc of the result is %s' % (desc, m['flag'])))
        tr = true_range(entry['rep']['terms'], entry['per'], cell, L)
        if m['max_range'] is not None and m['max_range'] != 'inf' and m['max_range'] < tr and entry['segment'] is None:
            probs.append(('C11:chain:%s:max_range-underclaimed' % step[0], '%s: the result claims max_range=%s but contains a coupling of range %d (in its sites)'
                          % (desc, m['max_range'], tr)))
        if step[0] == 'copy_mutate' and 'copy_meta' not in o:
            probs.append(('C11:chain:copy_mutate', '%s: no copy' % desc))
    desc = '%s after steps %s' % (desc0, [s_ if len(str(s_)) < 60 else s_[:1] for s_ in case['steps'][:len(done)]])
    scale = max(1.0, float(np.max(np.abs(ref))))
    tol = TOL * scale
    nonzero = float(np.max(np.abs(ref))) > 1e-9
    nR = float(np.sum(np.abs(ref) ** 2))
    psi = mats.get('psi')
    if r.get('alive') and 'S/end' in mats and (mats['S/end'].shape != ref.shape or maxdiff(mats['S/end'], ref) > tol):
        probs.append(('C11:chain:accessor-modified-the-operand', '%s: after the accessors %s the W tensors denote a different operator'
                      % (desc, [f[0] for f in case['final']])))
    per = entry['per']
    for fin, o in zip(case.get('final', []), r.get('final', [])):
        name = fin[0]
        tag('chain:final:' + name, 'chain:final:%s:%s' % (name, case['bc']))
        if per > 1:
            tag('chain:final:%s:on-grouped' % name)
        if entry['segment'] is not None:
            tag('chain:final:%s:on-segment' % name)
        if flag:
            tag('chain:final:%s:explicit_plus_hc' % name)
        if name == 'is_hermitian' and 'is_hermitian' in o and nonzero:
            if fin[1] is not None:
                tag('is_hermitian:max_range-option')
            hd = maxdiff(ref, ref.conj().T)
            if hd <= tol and not o['is_hermitian']:
                probs.append(('C11:chain:is_hermitian:false-negative', '%s: the operator is Hermitian but is_hermitian(max_range=%s) is False' % (desc, fin[1])))
            if hd > 1e-4 * scale and o['is_hermitian']:
                probs.append(('C11:chain:is_hermitian:false-positive', '%s: the operator is not Hermitian (defect %.2e) but is_hermitian(max_range=%s) is True'
                              % (desc, hd, fin[1])))
        elif name == 'pair':
            spec = fin[1]
            tg = spec['tag']
            nm = 'Q/' + tg
            if nm not in mats:
                continue
            qent = {'rep': {'alpha': cz(spec['alpha']) if spec.get('alpha') else 0j, 'terms': spec['terms']}, 'segment': entry['segment']}
            Qref, _ = rep_dense(r, ops, case, qent, bool(spec.get('plus_hc')))
            if mats[nm].shape != Qref.shape or maxdiff(mats[nm], Qref) > TOL * max(1.0, float(np.max(np.abs(Qref)))):
                probs.append(('C11:chain:pair:dense', '%s: the independently built partner (%s) differs from its term list' % (desc, tg)))
                continue
            nQ = float(np.sum(np.abs(Qref) ** 2))
            dist = float(np.sum(np.abs(ref - Qref) ** 2))
            big = max(1.0, nR, nQ)
            if tg == 'same' and dist > 1e-16 * big:
                ctx.fail('correspondence', 'harness: "same operator" partner differs densely (%.2e)' % dist, label(case, stream))
                continue
            mixed = bool(spec.get('plus_hc')) != flag
            tag('pair:%s' % tg, 'pair:%s:%s' % (tg, case['bc']))
            if mixed:
                tag('pair:mixed-explicit_plus_hc')
            qdesc = '%s; partner Q (%s, flag %s, max_range %s -> %s)' % (desc, tg, bool(spec.get('plus_hc')), spec['range'], o.get('Q_meta', {}).get('max_range'))
            for od in ('RQ', 'QR'):
                ov = np.trace(ref.conj().T @ Qref) if od == 'RQ' else np.trace(Qref.conj().T @ ref)
                if 'overlap_' + od in o and abs(cz(o['overlap_' + od]) - ov) > 1e-8 * big:
                    probs.append(('C11:chain:overlap', '%s: overlap %s = %s, dense Tr[A^dagger B] = %s' % (qdesc, od, o['overlap_' + od], ov)))
                if 'distance_' + od in o and abs(cz(o['distance_' + od]) - dist) > 1e-7 * big:
                    probs.append(('C11:chain:distance', '%s: distance %s = %s, dense |A - B|^2 = %s' % (qdesc, od, o['distance_' + od], dist)))
                if 'is_equal_' + od in o and nR + nQ > 1e-12:
                    rel = dist / (nR + nQ)
                    if rel < 1e-13 and not o['is_equal_' + od]:
                        probs.append(('C11:chain:is_equal:false-negative', '%s: is_equal (%s) is False for the same operator' % (qdesc, od)))
                    if rel > 1e-8 and o['is_equal_' + od]:
                        probs.append(('C11:chain:is_equal:false-positive', '%s: is_equal (%s) is True although the operators differ (relative distance %.2e)'
                                      % (qdesc, od, rel)))
            if 'overlap_RR' in o and abs(cz(o['overlap_RR']) - nR) > 1e-8 * big:
                probs.append(('C11:chain:overlap', '%s: overlap(R, R) = %s, dense |R|^2 = %s' % (qdesc, o['overlap_RR'], nR)))
            if spec.get('default_window'):
                check_default_window(case, r, ops, o, spec, entry, flag, qdesc, probs)
            if 'is_equal_mr' in o and nR + nQ > 1e-12:
                # is_equal(other, max_range=m): "we consider only the terms contained in the sites range(L + 2 m)"
                tag('is_equal:max_range-option')
                Lcur = r['final_meta']['L']
                nw = (Lcur + 2 * spec['eq_max_range']) * per
                if nw <= 10:
                    c2 = dict(case, N=nw)
                    Rw, _ = rep_dense(r, ops, c2, entry, flag)
                    Qw, _ = rep_dense(r, ops, c2, qent, bool(spec.get('plus_hc')))
                    a_, b_ = float(np.sum(np.abs(Rw) ** 2)), float(np.sum(np.abs(Qw) ** 2))
                    rel = float(np.sum(np.abs(Rw - Qw) ** 2)) / max(a_ + b_, 1e-300)
                    if a_ + b_ > 1e-12 and ((rel < 1e-13 and not o['is_equal_mr']) or (rel > 1e-8 and o['is_equal_mr'])):
                        probs.append(('C11:chain:is_equal:max_range-option', '%s: is_equal(Q, max_range=%d) = %s, relative distance on the %d sites %.2e'
                                      % (qdesc, spec['eq_max_range'], o['is_equal_mr'], nw, rel)))
        elif name == 'expectation':
            if finite and psi is not None:
                phi = ref @ psi
                ev = np.vdot(psi, phi)
                for q in ('expectation_value', 'expectation_value_finite'):
                    if q in o and abs(cz(o[q]) - ev) > 1e-9 * scale:
                        probs.append(('C11:chain:' + q, '%s: %s = %s, dense <psi|R|psi> = %s' % (desc, q, o[q], ev)))
                var = np.vdot(psi, ref @ phi) - ev ** 2
                for q, val in (('variance', var), ('variance_evgiven', var), ('variance_ev0', np.vdot(psi, ref @ phi))):
                    if q in o:
                        tag('variance:' + q)
                        if abs(cz(o[q]) - val) > 1e-8 * scale ** 2:
                            probs.append(('C11:chain:' + q, '%s: %s = %s, dense value %s' % (desc, q, o[q], val)))
            elif not finite and 'state' in r:
                Lp = len(r['state'])
                d0 = make_dense(r, ops, L, max(N, 8), False)
                vec = lambda k: np.array([cz(x) for x in r['state'][k % Lp]])
                period = int(np.lcm(L, Lp))
                dens = 0
                for sh in range(0, period, L):
                    for t, st in entry['rep']['terms']:
                        sh0 = -(min(k for _, k in t) // L) * L + sh
                        dens += cz(st) * C.product_state_value(d0, [(o_, k + sh0) for o_, k in t], vec)
                dens = dens / period * per
                if flag:
                    dens = dens + np.conj(dens)
                for q in ('expectation_value', 'expectation_value_mr', 'expectation_value_power', 'expectation_value_TM'):
                    if q in o and abs(cz(o[q]) - dens) > 1e-7 * scale:
                        probs.append(('C11:chain:' + q, '%s: %s = %s, density of the terms in the product state (per site of the MPO) = %s'
                                      % (desc, q, o[q], dens)))
        elif name == 'to_TermList' and 'to_TermList' in o:
            opts = fin[1]
            for k_ in opts:
                tag('to_TermList:option:' + k_)
            dd = make_dense(r, ops, L, N, finite)
            Lcur = r['final_meta']['L']         # (ungrouped: the unit cell of the result in original sites)
            cellc = None if finite else Lcur
            T = C.tl_tensor_dense(dd, o['to_TermList'], cell=cellc)
            # documented: all terms starting in range(L) of the (possibly enlarged) unit cell / in `start`, with range <= max_range
            sel = []
            for t, st in entry['rep']['terms']:
                for sh in ([0] if finite else range(0, Lcur, L)):
                    t2 = [[o_, k + sh] for o_, k in t]
                    if opts.get('start') is not None and min(k for _, k in t2) not in opts['start']:
                        continue
                    if opts.get('max_range') is not None and max(k for _, k in t2) - min(k for _, k in t2) > opts['max_range']:
                        continue
                    sel.append([t2, st])
            want = C.dense_terms_fast(dd, sel, infinite_cell=cellc)
            if maxdiff(T, want) > tol:
                probs.append(('C11:chain:to_TermList', '%s: the terms of to_TermList(%s) differ from the selected terms of the operator by %.3e'
                              % (desc, {k_: v_ for k_, v_ in opts.items()}, maxdiff(T, want))))
        elif name == 'prefactor' and 'prefactor' in o:
            dd = make_dense(r, ops, L, N, finite)
            stored = C.dense_terms_fast(dd, entry['rep']['terms'], infinite_cell=cell)      # (prefactor reads the stored tensors)
            for (i, ops_), got in zip(fin[1], o['prefactor']):
                P = dd.tensor({i + n_: o_ for n_, o_ in enumerate(ops_)})
                want = np.trace(P.conj().T @ stored) / np.trace(P.conj().T @ P)
                if abs(cz(got) - want) > 1e-9 * scale:
                    probs.append(('C11:chain:prefactor', '%s: prefactor(%d, %s) = %s, trace formula gives %s' % (desc, i, ops_, got, want)))
        elif name == 'make_U' and 'U' in o:
            w, V = np.linalg.eigh(ref) if maxdiff(ref, ref.conj().T) < 1e-12 else (None, None)
            import scipy.linalg as sl
            for which in fin[2]:
                errs = []
                for q, dt in enumerate(fin[1]):
                    nm = 'U/%s/%d' % (which, q)
                    if nm in mats:
                        errs.append(float(np.linalg.norm(mats[nm] - sl.expm(cz(dt) * ref), 2)))
                tag('make_U:of-a-result:' + which)
                if len(errs) == 3:
                    for a_, b_ in ((errs[0], errs[1]), (errs[1], errs[2])):
                        if a_ > 1e-12 and np.log2(a_ / max(b_, 1e-300)) < 2 - 0.6:
                            probs.append(('C11:chain:make_U_%s:order' % which, '%s: errors of make_U_%s at dt, dt/2, dt/4 are %s: slope below the documented power 2'
                                          % (desc, which, ['%.2e' % e for e in errs])))
                            break
                    if errs[0] > 0.15 * max(1.0, float(np.linalg.norm(ref, 2)) ** 2 * abs(cz(fin[1][0])) ** 2 * 40):
                        probs.append(('C11:chain:make_U_%s:error' % which, '%s: error %.2e of make_U_%s at dt=%s is not small' % (desc, errs[0], which, fin[1][0])))
        elif name == 'apply' and 'apply' in o and psi is not None:
            meth = fin[1]
            tag('apply:method:' + meth['method'])
            for k_ in ('m_temp', 'trunc_weight'):
                if k_ in meth:
                    tag('apply:%s=%s' % (k_, meth[k_]))
            if 'svd_min' not in meth['trunc_params']:
                tag('apply_zipup:no-svd_min')
            phi = ref @ psi
            nphi = np.linalg.norm(phi)
            res = mats.get('apply/' + meth['name'])
            if 'psi_after' in mats and maxdiff(mats['psi_after'], psi) > 1e-12:
                probs.append(('C11:chain:apply:modified-the-source-of-the-copy', '%s: applying to a copy changed the original state' % desc))
            if nphi > 1e-9 and res is not None:
                dd_ = np.linalg.norm(res - phi) / nphi
                key_ = 'C11:chain:apply:' + meth['method']
                if dd_ > 1e-7 and meth['method'].startswith('variational'):
                    ranks = []
                    dims = [2] * L
                    for b_ in range(1, L):
                        sv = np.linalg.svd(phi.reshape(int(np.prod(dims[:b_])), -1), compute_uv=False)
                        ranks.append(int(np.sum(sv > 1e-10 * sv[0])))
                    if any(c_ < k_ for c_, k_ in zip(o['apply']['chi'], ranks)):
                        key_ = 'C11:apply:variational:stuck-below-required-bond-dimension'
                if dd_ > 1e-7:
                    probs.append((key_, '%s: R|psi> by %s (no truncation needed) differs from the dense vector by %.2e (relative)' % (desc, meth, dd_)))
                if (o['apply']['eps'] or 0.0) > 1e-12:
                    probs.append(('C11:chain:apply:eps', '%s: %s reports truncation error %.2e without truncating' % (desc, meth['name'], o['apply']['eps'])))
        elif name == 'env' and 'full_contraction' in o and psi is not None and 'bra' in mats and mats['bra'].size:
            want = np.vdot(mats['bra'], ref @ psi)
            for i_, x in enumerate(o['full_contraction']):
                if abs(cz(x) - want) > 1e-9 * scale:
                    probs.append(('C11:chain:MPOEnvironment:bra-ket', '%s: MPOEnvironment(bra, R, ket).full_contraction(%d) = %s, dense <bra|R|ket> = %s'
                                  % (desc, i_, x, want)))
                    break
            tag('MPOEnvironment:bra!=ket')
            if 'heff' in o:
                tag('MPOEnvironment:LHeff/RHeff')
                ev = np.vdot(psi, ref @ psi)
                if abs(cz(o['heff']) - ev) > 1e-9 * scale:
                    probs.append(('C11:chain:MPOEnvironment:Heff', '%s: <theta|LHeff x RHeff|theta> at bond %s = %s, dense <psi|R|psi> = %s'
                                  % (desc, fin[1], o['heff'], ev)))
    annihilated = psi is not None and finite and np.linalg.norm(ref @ psi) < 1e-9 if (psi is not None and ref.shape[0] == psi.shape[0]) else False
    for nm, e in r['errors'].items():
        if nm.startswith('final:apply') and annihilated:
            continue
        if nm.startswith('final:to_TermList') and not nonzero:
            continue
        probs.append(('C11:chain:raises:' + ':'.join(nm.split(':')[:3 if nm.startswith('step') else 2]).replace('step:%s:' % nm.split(':')[1], 'step:')
                      if nm.startswith('step') else 'C11:chain:raises:' + nm, '%s: %s raised %s' % (desc, nm, e)))
    ctx.count(stream, case, nontrivial=nonzero, sample={'bc': case['bc'], 'L': L, 'site': case['site'], 'steps': [s_[0] for s_ in case['steps']],
                                                       'final': [f[0] for f in case.get('final', [])]})
    report(ctx, case, stream, probs)


def check_default_window(case, r, ops, o, spec, entry, flag, qdesc, probs):
    """overlap(other) of infinite MPOs without num_sites: documented window L + 2 * max_range of whichever MPO has the larger value,
    L substituted for an unknown or infinite max_range"""
    per = entry['per']
    mR, mQ = r['final_meta'], o.get('Q_meta')
    if mQ is None:
        return
    qent = {'rep': {'alpha': 0j, 'terms': spec['terms']}, 'segment': None}

    def win(m):
        rr = m['max_range']
        return m['L'] + 2 * (m['L'] if rr is None or rr == 'inf' else int(rr))
    nw = max(win(mR), win(mQ)) * per
    for od, other in (('RQ', mQ), ('QR', mR)):
        if od != spec.get('order', 'RQ'):
            continue
        unknown = other['max_range'] is None or other['max_range'] == 'inf'
        tag('overlap:default-num_sites', 'overlap:default-num_sites:other-%s' % ('unknown' if unknown else 'known'))
        if 'overlap_default_raises_' + od in o:
            key_ = K_OVERLAP_DEFAULT if unknown else 'C11:chain:overlap:default-num_sites:raises'
            probs.append((key_, '%s: overlap (%s) without num_sites raised %s (max_range of the other operand: %s)'
                          % (qdesc, od, o['overlap_default_raises_' + od], other['max_range'])))
            continue
        if 'overlap_default_' + od not in o:
            continue
        if not o.get('overlap_default_warned_' + od):
            probs.append(('C11:chain:overlap:no-warning', '%s: overlap of infinite MPOs without understood_infinite did not warn' % qdesc))
        if nw <= 10:
            c2 = dict(case, N=nw)
            Rw, _ = rep_dense(r, ops, c2, entry, flag)
            Qw, _ = rep_dense(r, ops, c2, qent, bool(spec.get('plus_hc')))
            ov = np.trace(Rw.conj().T @ Qw) if od == 'RQ' else np.trace(Qw.conj().T @ Rw)
            big = max(1.0, float(np.sum(np.abs(Rw) ** 2)), float(np.sum(np.abs(Qw) ** 2)))
            if abs(cz(o['overlap_default_' + od]) - ov) > 1e-8 * big:
                probs.append(('C11:chain:overlap:default-num_sites', '%s: overlap (%s) without num_sites = %s; on the documented window of %d sites '
                              'Tr[A^dagger B] = %s' % (qdesc, od, o['overlap_default_' + od], nw // per, ov)))


# ------------------------------------------------------------------------------------------
# sub 'ctor': from_wavepacket / from_grids / from_Wflat with their documented options
# ------------------------------------------------------------------------------------------
K_WAVEPACKET = 'C11:from_wavepacket:first-coefficient-below-eps:raises'
K_WFLAT_PERM = 'C11:from_Wflat:permute:only-the-ket-leg-is-permuted'
CTOR_VARIANTS = ['wavepacket', 'wavepacket_lead0', 'wavepacket_eps', 'grids_finite', 'grids_infinite', 'grids_qtotal', 'wflat']


def rand_c(rng, lo=0.2, hi=1.0):
    return [round(rng.choice([-1, 1]) * rng.uniform(lo, hi), 3), round(rng.choice([-1, 0, 1]) * rng.uniform(lo, hi), 3)]


def gen_ctor(rng, idx):
    v = CTOR_VARIANTS[idx % len(CTOR_VARIANTS)]
    case = {'kind': 'ext', 'sub': 'ctor', 'v': v, 'seed': 31000 + idx}
    if v.startswith('wavepacket'):
        fermion = v != 'wavepacket_eps' and (idx // 7) % 3 != 2
        kind = 'Fermion' if fermion else 'SpinHalf'
        conserve = [None, 'N' if fermion else 'Sz'][(idx // 7) % 2]
        L = rng.choice([3, 4, 5])
        op = rng.choice(['Cd', 'C']) if fermion else rng.choice(['Sp', 'Sm'] + (['Sz'] if True else []))
        eps = None
        mk = lambda: [rand_c(rng) for _ in range(L)]
        w1, w2 = mk(), mk()
        for w in (w1, w2):
            for i in range(1, L):
                if rng.random() < 0.3:
                    w[i] = rng.choice([[0.0, 0.0], [1e-17, 0.0]])
        if v == 'wavepacket_lead0':
            w1[0] = rng.choice([[0.0, 0.0], [1e-17, 0.0]])
            if rng.random() < 0.4 and L > 3:
                w1[1] = [0.0, 0.0]
            if all(abs(complex(*c)) < 1e-15 for c in w1):
                w1[-1] = [1.0, 0.0]
        if v == 'wavepacket_eps':
            eps = 0.05
            for w in (w1, w2):
                for i in range(1, L):
                    if rng.random() < 0.4:
                        w[i] = [round(rng.uniform(-0.01, 0.01), 4), 0.0]
        if conserve is None:
            state = {'kind': 'full'}
        else:
            # a sector the operator does not annihilate
            lab = (['empty', 'full'] if fermion else ['up', 'down'])
            good = {'Cd': 'empty', 'C': 'full', 'Sp': 'down', 'Sm': 'up'}.get(op)
            p = [rng.choice(lab) for _ in range(L)]
            if good:
                nz = [i for i in range(L) if abs(complex(*w1[i])) > 0.1]
                p[rng.choice(nz)] = good
            state = {'kind': 'rue', 'p_state': p}
        case.update({'variant': 'wavepacket', 'site': {'type': kind, 'conserve': conserve}, 'L': L, 'op': op, 'w1': w1, 'w2': w2, 'eps': eps,
                     'state': state,
                     # (variational compression started from a product state: known finding F113)
                     'methods': [['SVD', 'variational', 'zip_up', 'naive'][(idx // 7 + j_) % 4] for j_ in (0, 1)]})
    elif v == 'grids_finite':
        kind = rng.choice(['SpinHalf', 'Fermion'])
        L = rng.choice([2, 3, 4])
        g = C.gen_grid(rng, kind, L, False, True, True)
        kinds = lambda ent: None if ent is None else [('str', ent[0][0]) if (len(ent) == 1 and ent[0][1] == [1, 0] and rng.random() < 0.8) else
                                                      (rng.choice(['list', 'arr']), ent)][0]
        case.update({'variant': 'grids', 'site': {'type': kind, 'conserve': None}, 'L': L, 'N': L, 'bc': 'finite', 'spec': g,
                     'grids': [[[kinds(e) for e in row] for row in G] for G in g['grids']],
                     'IdL': 0 if (idx // 7) % 2 else [0] * (L + 1), 'IdR': -1 if (idx // 7) % 2 else [-1] * (L + 1),
                     'max_range': [None, L][(idx // 7) % 2], 'explicit_plus_hc': (idx // 7) % 2 == 1,
                     'state': {'kind': rng.choice(['full', 'product'])}})
        if False:
            case['max_range'] = None
    elif v == 'grids_infinite':
        # nearest-neighbour + on-site Hamiltonian in standard form, unit cell of L sites with different couplings, charges derived from the grid
        kind = 'SpinHalf'
        conserve = rng.choice([None, 'Sz', 'Sz'])
        L = rng.choice([1, 2, 3])
        terms, grids = [], []
        par = [(rand_c(rng), [round(rng.uniform(-1, 1), 3), 0.0], [round(rng.uniform(-1, 1), 3), 0.0]) for _ in range(L)]
        for i in range(L):
            J, D, h = par[i]                    # couplings of the bond (i, i + 1) and the field of site i
            Jc = [J[0], -J[1]]
            terms += [[[['Sp', i], ['Sm', i + 1]], J], [[['Sm', i], ['Sp', i + 1]], Jc], [[['Sz', i], ['Sz', i + 1]], D], [[['Sz', i]], h]]
            Jp, Dp, _ = par[(i - 1) % L]        # (a coupling is closed on its right site)
            Jpc = [Jp[0], -Jp[1]]
            grids.append([[('str', 'Id'), ('str', 'Sp'), ('list', [['Sm', [1.0, 0.0]]]), ('arr', [['Sz', [1.0, 0.0]]]), ('list', [['Sz', h]])],
                          [None, None, None, None, ('list', [['Sm', Jp]])],
                          [None, None, None, None, ('arr', [['Sp', Jpc]])],
                          [None, None, None, None, ('list', [['Sz', Dp]])],
                          [None, None, None, None, ('str', 'Id')]])
        case.update({'variant': 'grids', 'site': {'type': kind, 'conserve': conserve}, 'L': L, 'N': {1: 4, 2: 4, 3: 6}[L], 'bc': 'infinite', 'terms': terms,
                     'grids': grids, 'IdL': 0, 'IdR': -1, 'max_range': [None, 1][(idx // 7) % 2], 'explicit_plus_hc': False,
                     'state': {'charged': conserve is not None}})
    elif v == 'grids_qtotal':
        # a product of single-site operators with charged W tensors (option Ws_qtotal), between states of different sectors
        kind = 'SpinHalf'
        L = rng.choice([3, 4])
        same = (idx // 7) % 2 == 1
        ops_ = ['Sp'] * L if same else [rng.choice(['Id', 'Sz', 'Sp', 'Sm']) for _ in range(L)]
        if all(o_ in ('Id', 'Sz') for o_ in ops_):
            ops_[rng.randrange(L)] = 'Sp'
        q = {'Id': 0, 'Sz': 0, 'Sp': 2, 'Sm': -2}
        coef = [rand_c(rng) for _ in range(L)]
        ket = [{'Sp': 'down', 'Sm': 'up'}.get(o_, rng.choice(['up', 'down'])) for o_ in ops_]
        bra = [{'Sp': 'up', 'Sm': 'down'}.get(o_, k_) for o_, k_ in zip(ops_, ket)]
        case.update({'variant': 'grids', 'site': {'type': kind, 'conserve': 'Sz'}, 'L': L, 'N': L, 'bc': 'finite',
                     'grids': [[[('list', [[o_, c_]])]] for o_, c_ in zip(ops_, coef)], 'product_ops': [[o_, c_] for o_, c_ in zip(ops_, coef)],
                     'IdL': 0, 'IdR': 0, 'max_range': None, 'explicit_plus_hc': False,
                     'Ws_qtotal': [2] if same else [[q[o_]] for o_ in ops_], 'legs_roundtrip': (idx // 7) % 4 in (0, 1),
                     'bra_ket': [{'kind': 'rue', 'p_state': bra}, {'kind': 'rue', 'p_state': ket}]})
    else:
        mode = (idx // 7) % 4
        kind = 'SpinHalf' if mode == 1 else rng.choice(['SpinHalf', 'Fermion'])     # (mode 1: a site whose charge sorting permutes the basis)
        conserve = [None, 'Sz' if kind == 'SpinHalf' else 'N', 'Sz' if kind == 'SpinHalf' else 'N', 'parity'][mode]
        finite = conserve is not None or rng.random() < 0.5
        L = rng.choice([3, 4]) if finite else rng.choice([1, 2])
        N = L if finite else 4
        terms = C.gen_terms(rng, kind, N, conserve if conserve != 'parity' else ('Sz' if kind == 'SpinHalf' else 'N'), False, rng.random() < 0.5,
                            rng.randint(1, 3), maxrange=(L - 1) if finite else 2, cell=None if finite else L)
        case.update({'variant': 'wflat', 'site': {'type': kind, 'conserve': conserve}, 'L': L, 'N': N, 'bc': 'finite' if finite else 'infinite', 'terms': terms,
                     'permute': [None, None, False, None][mode] if conserve is not None else [True, None, False][(idx // 28) % 3],
                     'dtype': (idx // 7) % 2 == 0})
    return case


K_F113 = 'C11:apply:variational:stuck-below-required-bond-dimension'


def stuck(phi, dims, chi):
    """does the returned state have a smaller bond dimension than the Schmidt rank of the exact vector on some bond? (known finding F113)"""
    if chi is None:
        return False
    for b_ in range(1, len(dims)):
        sv = np.linalg.svd(phi.reshape(int(np.prod(dims[:b_])), -1), compute_uv=False)
        if chi[b_ - 1] < int(np.sum(sv > 1e-10 * sv[0])):
            return True
    return False


def check_ctor(ctx, case, r):
    stream = 'ext_ctor'
    if 'runner_error' in r:
        ctx.fail('correspondence', 'runner failed: ' + r['runner_error'][-600:], label(case, stream))
        return
    ops, mats = C.load(r)
    L = case['L']
    kind = case['site']['type']
    probs = []
    var = case['variant']
    errors = dict(r['errors'])
    nontrivial = True
    if var == 'wavepacket':
        d = make_dense(r, ops, L, L, True)
        eps = case['eps'] if case['eps'] is not None else 1e-15
        op = case['op']

        def packet(w):
            X = np.zeros((d.D, d.D), dtype=complex)
            for i, c in enumerate(w):
                if abs(cz(c)) >= eps:
                    X = X + cz(c) * d.product([(op, i)])
            return X
        W1, W2 = packet(case['w1']), packet(case['w2'])
        desc = 'MPO.from_wavepacket(%d %s sites (%s), coeff=%s, op=%r%s)' % (L, kind, case['site']['conserve'], case['w1'], op,
                                                                           '' if case['eps'] is None else ', eps=%s' % case['eps'])
        lead0 = abs(cz(case['w1'][0])) < eps
        tag('from_wavepacket', 'from_wavepacket:%s' % ('first-coefficient-below-eps' if lead0 else 'first-coefficient-nonzero'),
            'from_wavepacket:op-needs-JW=%s' % bool(r['needs_JW'].get(op)))
        if case['eps'] is not None:
            tag('from_wavepacket:eps-option')
        if any(abs(cz(c)) < eps for c in case['w1'][1:]):
            tag('from_wavepacket:inner-coefficient-below-eps')
        if 'from_wavepacket:w1' in errors and lead0:
            probs.append((K_WAVEPACKET, '%s raised %s: the first coefficient is below eps (documented: such terms are discarded)' % (desc, errors.pop('from_wavepacket:w1'))))
        scale = max(1.0, float(np.max(np.abs(W1))))
        for nm, ref, what in (('W/w1', W1, 'the wave packet'), ('W/dagger', W1.conj().T, 'dagger() of the wave packet'), ('W/sum', W1 + W2, 'w1 + w2'),
                              ('W/sum2', 2 * W1 + W2, '(w1 + w2) + w1')):
            if nm in mats:
                tag('from_wavepacket:' + nm[2:])
                if maxdiff(mats[nm], ref) > TOL * scale:
                    probs.append(('C11:from_wavepacket:' + nm[2:], '%s: %s differs from sum_i coeff[i] op_i by %.3e' % (desc, what, maxdiff(mats[nm], ref))))
        if 'W/w1' in mats and maxdiff(mats['W/w1'], W1) <= TOL * scale:
            if 'to_TermList' in r and maxdiff(C.tl_tensor_dense(d, r['to_TermList']), W1) > TOL * scale:
                probs.append(('C11:from_wavepacket:to_TermList', '%s: the terms of to_TermList differ from the operator' % desc))
            for i, got in enumerate(r.get('prefactor_full', [])):
                want = cz(case['w1'][i]) if abs(cz(case['w1'][i])) >= eps else 0
                if len(r['prefactor_full']) == L and abs(cz(got) - want) > 1e-9:
                    probs.append(('C11:from_wavepacket:prefactor', '%s: prefactor of the full-length string with %s on site %d is %s, expected %s' % (desc, op, i, got, want)))
            if 'is_hermitian' in r and r['is_hermitian'] != (maxdiff(W1, W1.conj().T) < 1e-12) and np.max(np.abs(W1)) > 1e-9:
                probs.append(('C11:from_wavepacket:is_hermitian', '%s: is_hermitian() = %s' % (desc, r['is_hermitian'])))
            if 'psi' in mats:
                phi = W1 @ mats['psi']
                if np.linalg.norm(phi) > 1e-9:
                    for meth in case['methods']:
                        res = mats.get('apply/' + meth)
                        tag('from_wavepacket:apply:' + meth)
                        if res is not None and np.linalg.norm(res - phi) > 1e-7 * np.linalg.norm(phi):
                            if meth == 'variational' and stuck(phi, [d.dims[0]] * L, r.get('apply_chi', {}).get(meth)):
                                probs.append((K_F113, '%s applied by variational compression stays below the Schmidt rank of the result' % desc))
                                continue
                            probs.append(('C11:from_wavepacket:apply', '%s applied by %s differs from the dense vector by %.2e' % (desc, meth, np.linalg.norm(res - phi))))
            if 'overlap' in r and 'W/w2' in mats:
                for got, want in zip(r['overlap'], (np.trace(W1.conj().T @ W2), np.trace(W2.conj().T @ W1), np.trace(W1.conj().T @ W1))):
                    if abs(cz(got) - want) > 1e-8 * max(1.0, abs(want)):
                        probs.append(('C11:from_wavepacket:overlap', '%s: overlap %s, dense %s' % (desc, got, want)))
            if 'is_equal' in r and 'W/w2' in mats:
                rel = np.sum(np.abs(W1 - W2) ** 2) / max(np.sum(np.abs(W1) ** 2) + np.sum(np.abs(W2) ** 2), 1e-300)
                if (rel > 1e-8 and r['is_equal'][0]) or not r['is_equal'][1]:
                    probs.append(('C11:from_wavepacket:is_equal', '%s: is_equal(w2), is_equal(w1) = %s' % (desc, r['is_equal'])))
            if 'is_equal_sum' in r and (not r['is_equal_sum'][0] or (r['is_equal_sum'][1] and np.max(np.abs(W1)) > 1e-6)):
                probs.append(('C11:from_wavepacket:is_equal', '%s: (w1 + w2).is_equal(w2 + w1), .is_equal(w1 + w2 + w1) = %s' % (desc, r['is_equal_sum'])))
    elif var == 'grids':
        N = case['N']
        finite = case['bc'] == 'finite'
        d = make_dense(r, ops, L, N, finite)
        flag = bool(case.get('explicit_plus_hc'))
        if 'spec' in case:
            ref = C.dense_grid(d, case['spec'], ops)
        elif 'terms' in case:
            ref = C.dense_terms_fast(d, case['terms'], infinite_cell=None if finite else L)
        else:
            ref = d.kron_list([cz(c_) * ops[o_] for o_, c_ in case['product_ops']])
        if flag:
            ref = ref + ref.conj().T
        kinds_ = sorted(set(e[0] for G in case['grids'] for row in G for e in row if e is not None))
        desc = 'MPO.from_grids(%s, L=%d, %s; entry kinds %s; IdL=%s, IdR=%s%s%s%s)' % (
            case['bc'], L, case['site'], kinds_, case['IdL'] if not isinstance(case['IdL'], list) else 'list', case['IdR'] if not isinstance(case['IdR'], list) else 'list',
            ', explicit_plus_hc' if flag else '', ', Ws_qtotal=%s' % case['Ws_qtotal'] if case.get('Ws_qtotal') is not None else '',
            ', legs given' if case.get('legs_roundtrip') else '')
        tag('from_grids', 'from_grids:bc=' + case['bc'], *['from_grids:entry-kind:' + k_ for k_ in kinds_])
        tag('from_grids:markers-%s' % ('scalar' if not isinstance(case['IdL'], list) else 'list'))
        for k_ in ('Ws_qtotal', 'legs_roundtrip', 'explicit_plus_hc', 'max_range'):
            if case.get(k_) not in (None, False):
                tag('from_grids:option:' + k_)
        if case.get('Ws_qtotal') is not None:
            tag('from_grids:Ws_qtotal-%s' % ('single' if len(case['Ws_qtotal']) == 1 and not isinstance(case['Ws_qtotal'][0], list) else 'per-site'))
        if case['site']['conserve'] is not None and not finite:
            tag('from_grids:infinite-with-charges')
        scale = max(1.0, float(np.max(np.abs(ref))))
        ok = 'W/H' in mats and maxdiff(mats['W/H'], ref) <= TOL * scale
        if 'W/H' in mats and not ok:
            probs.append(('C11:from_grids:dense', '%s: W tensors differ from the grid by %.3e' % (desc, maxdiff(mats['W/H'], ref))))
        if ok:
            if r['meta']['flag'] != flag:
                probs.append(('C11:from_grids:flag', '%s: explicit_plus_hc of the MPO is %s' % (desc, r['meta']['flag'])))
            if case.get('max_range') is not None and r['meta']['max_range'] != case['max_range']:
                probs.append(('C11:from_grids:max_range', '%s: max_range of the MPO is %s, given %s' % (desc, r['meta']['max_range'], case['max_range'])))
            if 'W/dagger' in mats and maxdiff(mats['W/dagger'], ref.conj().T) > TOL * scale:
                probs.append(('C11:from_grids:dagger', '%s: dagger() differs by %.3e' % (desc, maxdiff(mats['W/dagger'], ref.conj().T))))
            if 'W/addself' in mats and maxdiff(mats['W/addself'], 2 * ref) > TOL * scale:
                probs.append(('C11:from_grids:add', '%s: H + H differs from twice the operator by %.3e' % (desc, maxdiff(mats['W/addself'], 2 * ref))))
            hd = maxdiff(ref, ref.conj().T)
            if 'is_hermitian' in r and np.max(np.abs(ref)) > 1e-9 and ((hd <= TOL * scale and not r['is_hermitian']) or (hd > 1e-4 * scale and r['is_hermitian'])):
                probs.append(('C11:from_grids:is_hermitian', '%s: is_hermitian() = %s, defect %.2e' % (desc, r['is_hermitian'], hd)))
            if 'psi' in mats and 'expectation_value' in r:
                ev = np.vdot(mats['psi'], ref @ mats['psi'])
                if abs(cz(r['expectation_value']) - ev) > 1e-9 * scale:
                    probs.append(('C11:from_grids:expectation_value', '%s: expectation_value = %s, dense %s' % (desc, r['expectation_value'], ev)))
            if not finite and 'state' in r and 'terms' in case:
                Lp = len(r['state'])
                vec = lambda k: np.array([cz(x) for x in r['state'][k % Lp]])
                dens = sum(cz(st) * C.product_state_value(d, [(o_, k) for o_, k in t], vec) for t, st in case['terms']) / L
                for q in ('expectation_value', 'expectation_value_TM'):
                    if q in r and abs(cz(r[q]) - dens) > 1e-7 * scale:
                        probs.append(('C11:from_grids:' + q, '%s: %s = %s, density of the terms %s' % (desc, q, r[q], dens)))
            if 'bra' in mats:
                want = np.vdot(mats['bra'], ref @ mats['ket'])
                tag('MPOEnvironment:charged-W-between-different-sectors')
                nontrivial = abs(want) > 1e-9
                for i_, x in enumerate(r.get('full_contraction', [])):
                    if abs(cz(x) - want) > 1e-9 * scale:
                        probs.append(('C11:from_grids:Ws_qtotal:MPOEnvironment', '%s: <bra|O|ket> by full_contraction(%d) = %s, dense %s' % (desc, i_, x, want)))
                        break
                if 'apply/naive' in mats and np.linalg.norm(mats['apply/naive'] - ref @ mats['ket']) > 1e-8 * scale:
                    probs.append(('C11:from_grids:Ws_qtotal:apply_naively', '%s: apply_naively differs from the dense vector' % desc))
    elif var == 'wflat':
        N = case['N']
        finite = case['bc'] == 'finite'
        d = make_dense(r, ops, L, N, finite)
        ref = C.dense_terms_fast(d, case['terms'], infinite_cell=None if finite else L)
        scale = max(1.0, float(np.max(np.abs(ref))))
        perm_trivial = r['perm'] == sorted(r['perm'])
        desc = 'MPO.from_Wflat(%s, L=%d, %s, permute=%s%s) of the W arrays of %s' % (case['bc'], L, case['site'], case['permute'], ', dtype' if case['dtype'] else '', case['terms'])
        tag('from_Wflat', 'from_Wflat:permute=%s' % case['permute'], 'from_Wflat:bc=' + case['bc'])
        if case['site']['conserve'] is not None:
            tag('from_Wflat:charges', 'from_Wflat:charges:site.perm-%s:permute=%s' % ('trivial' if perm_trivial else 'nontrivial', case['permute']))
        if case['dtype']:
            tag('from_Wflat:dtype-option')
        if 'from_Wflat' in errors and case['permute'] in (None, True) and not perm_trivial:
            probs.append((K_WFLAT_PERM, '%s raised %s: the site permutes its basis (perm %s) and only the first leg of the W arrays is permuted'
                          % (desc, errors.pop('from_Wflat'), r['perm'])))
        for nm, want, what in (('W/H', ref, 'the MPO'), ('W/sum', 2 * ref, 'its sum with the MPOGraph MPO of the same terms')):
            if nm in mats and maxdiff(mats[nm], want) > TOL * scale:
                key_ = K_WFLAT_PERM if (case['permute'] in (None, True) and not perm_trivial) else 'C11:from_Wflat:dense'
                probs.append((key_, '%s: %s differs from the terms by %.3e' % (desc, what, maxdiff(mats[nm], want))))
                break
        if case['dtype'] and 'dtype' in r and r['dtype'] != 'complex128':
            probs.append(('C11:from_Wflat:dtype', '%s: dtype of the MPO is %s' % (desc, r['dtype'])))
    for nm, e in errors.items():
        probs.append(('C11:ctor:raises:' + nm.split(':')[0], '%s %s: %s raised %s' % (var, {k_: v_ for k_, v_ in case.items() if k_ in ('site', 'L', 'bc', 'v')}, nm, e)))
    ctx.count(stream, case, nontrivial=nontrivial, sample={'variant': case['v'], 'L': L, 'site': case['site']})
    report(ctx, case, stream, probs)


# ------------------------------------------------------------------------------------------
# sub 'evo': ExpMPOEvolution, the user of MPO.make_U (options approximation x order x compression_method; cache of the propagator)
# ------------------------------------------------------------------------------------------
EVO_COMBOS = [(a, o_, m) for a in ('I', 'II') for o_ in (1, 2) for m in ('SVD', 'variational', 'zip_up')]


def gen_evo(rng, idx):
    approx, order, meth = EVO_COMBOS[idx % len(EVO_COMBOS)]
    L = rng.choice([3, 4])
    terms = []
    for i in range(L - 1):
        J = round(rng.uniform(0.5, 1.5), 3)
        terms += [[[['Sp', i], ['Sm', i + 1]], [J, 0]], [[['Sm', i], ['Sp', i + 1]], [J, 0]], [[['Sz', i], ['Sz', i + 1]], [round(rng.uniform(-1, 1), 3), 0]]]
    for i in range(L):
        terms.append([[['Sx', i]], [round(rng.uniform(-1, 1), 3), 0]])
    if L == 4 and rng.random() < 0.5:
        terms.append([[['Sz', 0], ['Sz', 2]], [round(rng.uniform(-1, 1), 3), 0]])
    onsite = idx % 12 == 11
    if onsite:              # fields only: no virtual states besides IdL / IdR (boundary of make_W_II: exact exponential of the on-site block)
        terms = [[[[rng.choice(['Sx', 'Sz']), i]], [round(rng.uniform(-1, 1), 3), 0]] for i in range(L)]
    rng.shuffle(terms)
    opts = {'order': order, 'approximation': approx, 'compression_method': meth, 'trunc_params': {'chi_max': 100, 'svd_min': 1e-14}}
    if meth == 'variational':
        opts.update({'max_sweeps': 10, 'min_sweeps': 2})
    if meth == 'zip_up':
        opts.update({'m_temp': 2, 'trunc_weight': 1.0})
    if idx % 5 == 4:
        del opts['order'], opts['approximation']          # documented defaults: order 2, approximation 'II'
    return {'kind': 'ext', 'sub': 'evo', 'site': {'type': 'SpinHalf', 'conserve': None}, 'L': L, 'seed': 41000 + idx,
            'A': {'terms': terms, 'form': ['graph', 'sum', 'neg'][idx % 3], 'split': rng.randint(1, len(terms) - 1), 'range': 'known'},
            'state': {'kind': 'full'}, 'dt': rng.choice([0.1, 0.08]), 'N_steps': 2, 'options': opts, 'defaults': idx % 5 == 4, 'onsite': onsite}


def check_evo(ctx, case, r):
    stream = 'ext_evo'
    if 'runner_error' in r:
        ctx.fail('correspondence', 'runner failed: ' + r['runner_error'][-600:], label(case, stream))
        return
    import scipy.linalg as sl
    ops, mats = C.load(r)
    L = case['L']
    d = make_dense(r, ops, L, L, True)
    H = C.dense_terms_fast(d, case['A']['terms'])
    probs = []
    o_ = case['options']
    order = o_.get('order', 2)
    approx = o_.get('approximation', 'II')
    desc = 'ExpMPOEvolution(%s; dt=%s, N_steps=%d) of a %d-site chain (H as %s)' % ({k_: v_ for k_, v_ in o_.items() if k_ != 'trunc_params'},
                                                                                    case['dt'], case['N_steps'], L, case['A']['form'])
    tag('ExpMPOEvolution', 'ExpMPOEvolution:approximation=%s' % ('default' if case['defaults'] else approx),
        'ExpMPOEvolution:order=%s' % ('default' if case['defaults'] else order), 'ExpMPOEvolution:compression_method=' + o_['compression_method'],
        'ExpMPOEvolution:H-form=' + case['A']['form'])
    if case.get('onsite'):
        tag('make_W_II:on-site-terms-only')
    if maxdiff(mats['H'], H) > 1e-10:
        probs.append(('C11:evo:H', '%s: Hamiltonian MPO differs from its terms' % desc))
    if maxdiff(mats['psi0_after'], mats['psi0']) > 1e-12:
        probs.append(('C11:evo:modified-the-source-of-the-copy', '%s: evolving a copy changed the original state' % desc))
    T = case['dt'] * case['N_steps']
    errs = {}
    for nm in ('coarse', 'fine'):
        run = r['runs'][nm]
        for ph, info in enumerate(run['phases']):
            t = T * (ph + 1)
            tag('ExpMPOEvolution:phase:%s' % ['first-run', 'second-run-cached-U', 'new-dt-recomputed-U'][ph])
            if abs(cz(info['evolved_time']) - t) > 1e-12:
                probs.append(('C11:evo:evolved_time', '%s: evolved_time after run %d is %s, expected %s' % (desc, ph + 1, info['evolved_time'], t)))
            if info['n_U'] != order:
                probs.append(('C11:evo:number-of-propagators', '%s: %d propagators for order %d' % (desc, info['n_U'], order)))
            v = mats.get('psi/%s/%d' % (nm, ph))
            if v is None:
                continue
            ex = sl.expm(-1j * t * H) @ mats['psi0']
            errs[(nm, ph)] = float(np.linalg.norm(v - ex))
            if abs(info['norm'] - 1) > 1e-9 or info['eps'] > 1e-10:
                probs.append(('C11:evo:norm', '%s: norm %s / truncation error %s after run %d (real-time evolution without truncation)' % (desc, info['norm'], info['eps'], ph + 1)))
    for ph in range(3):
        a_, b_ = errs.get(('coarse', ph)), errs.get(('fine', ph))
        if a_ is None or b_ is None:
            continue
        # documented: "The total error up to time t scales as O(t*dt^order)"
        if a_ > 1e-11 and np.log2(a_ / max(b_, 1e-300)) < order - 0.5:
            probs.append(('C11:evo:order', '%s: distance to exp(-i t H)|psi> after run %d (t = %.2f) is %.2e with dt and %.2e with dt/2: below the documented order %d'
                          % (desc, ph + 1, T * (ph + 1), a_, b_, order)))
            break
        bound = 6.0 * (ph + 1) * T * (case['dt'] * max(1.0, float(np.linalg.norm(H, 2)))) ** order * max(1.0, float(np.linalg.norm(H, 2)))
        if a_ > bound:
            probs.append(('C11:evo:error', '%s: distance %.2e to exp(-i t H)|psi> after run %d exceeds %.2e' % (desc, a_, ph + 1, bound)))
            break
    for nm, e in r['errors'].items():
        probs.append(('C11:evo:raises', '%s: %s raised %s' % (desc, nm, e)))
    ctx.count(stream, case, nontrivial=True, sample={'L': L, 'options': {k_: v_ for k_, v_ in o_.items() if k_ != 'trunc_params'}, 'errors': {'%s/%d' % k_: v_ for k_, v_ in errs.items()}})
    report(ctx, case, stream, probs)


# ------------------------------------------------------------------------------------------
# sub 'iapply': MPO.apply on infinite MPS
# ------------------------------------------------------------------------------------------
def gen_iapply(rng, idx):
    conserve = [None, 'Sz'][idx % 2]
    meths = [{'method': 'SVD', 'trunc_params': {'chi_max': 64, 'svd_min': 1e-13}},
             {'method': 'variational', 'trunc_params': {'chi_max': 64, 'svd_min': 1e-13}, 'max_sweeps': 20, 'min_sweeps': 3, 'start_env_sites': 6, 'tol_theta_diff': 1e-12},
             {'method': 'naive'}]
    n_layers = 2 + (idx // 2) % 2
    p0 = (idx // 4) % 2
    layers = []
    for q in range(n_layers):
        # first layer on the product state: SVD compression is exact (disjoint gates); later layers: MPS.compress_svd of an infinite MPS is a
        # single sweep of local SVDs around guessed singular values (documented: only for MPOs close to the identity), so exactness is
        # required of apply_naively + canonical_form and of the variational compression only
        m = meths[0] if q == 0 else meths[1 + (idx + q) % 2]
        layers.append([round(rng.uniform(0.3, 1.2), 3), (p0 + q) % 2, m])
    return {'kind': 'ext', 'sub': 'iapply', 'site': {'type': 'SpinHalf', 'conserve': conserve}, 'L': 2, 'seed': 51000 + idx, 'psi_L': rng.choice([2, 4]),
            'state': {'charged': conserve is not None}, 'layers': layers, 'obs': ['Sz'] if conserve else ['Sz', 'Sx', 'Sy']}


def check_iapply(ctx, case, r):
    stream = 'ext_iapply'
    if 'runner_error' in r:
        ctx.fail('correspondence', 'runner failed: ' + r['runner_error'][-600:], label(case, stream))
        return
    import scipy.linalg as sl
    ops, mats = C.load(r)
    probs = []
    Lp = len(r['state'])
    lo, n = -6, 14                 # window of original sites lo .. lo + n - 1 around the measured unit cell
    hop = np.kron(ops['Sp'], ops['Sm']) + np.kron(ops['Sm'], ops['Sp'])
    vec = np.array([1.0 + 0j])
    for k in range(lo, lo + n):
        vec = np.kron(vec, np.array([cz(x) for x in r['state'][k % Lp]]))
    vec = vec.reshape([2] * n)
    desc0 = 'iMPS (unit cell %d, %s)' % (Lp, 'charged product state' if case['state']['charged'] else 'product state')
    done = []
    for q, ((theta, parity, meth), o) in enumerate(zip(case['layers'], r['layers'])):
        G = sl.expm(-1j * theta * hop)
        if 'U/%d' % q in mats and maxdiff(mats['U/%d' % q], G) > 1e-10:
            probs.append(('C11:iapply:gate', 'the MPO of from_grids differs from exp(-i theta (Sp Sm + h.c.)) by %.2e' % maxdiff(mats['U/%d' % q], G)))
            break
        if 'obs' not in o:
            break
        # exact: the layer of commuting two-site gates on the window (gates across the window edge are outside the light cone of the centre)
        G4 = G.reshape(2, 2, 2, 2)
        for k in range(lo, lo + n - 1):
            if k % 2 == parity:
                a = k - lo
                vec = np.moveaxis(np.tensordot(G4, vec, axes=[[2, 3], [a, a + 1]]), [0, 1], [a, a + 1])
        done.append([theta, parity, meth['method']])
        desc = '%s after the gate layers %s applied by MPO.apply / apply_naively' % (desc0, done)
        tag('apply:infinite', 'apply:infinite:' + meth['method'], 'apply:infinite:layer-%d' % q)
        if case['state']['charged']:
            tag('apply:infinite:charges')
        psi_ = vec.reshape(-1)
        for name in case['obs']:
            for i_ in range(Lp):
                site = i_ - lo
                want = np.vdot(psi_, np.moveaxis(np.tensordot(ops[name], vec, axes=[[1], [site]]), 0, site).reshape(-1))
                got = cz(o['obs'][name][i_])
                if abs(got - want) > 2e-7:
                    probs.append(('C11:iapply:%s' % meth['method'], '%s: <%s_%d> = %s, exact (light cone on a window of %d sites) %s' % (desc, name, i_, got, n, want)))
                    break
        want = np.vdot(psi_, np.moveaxis(np.tensordot(np.kron(ops['Sz'], ops['Sz']).reshape(2, 2, 2, 2), vec, axes=[[2, 3], [-lo, 1 - lo]]), [0, 1], [-lo, 1 - lo]).reshape(-1))
        if abs(cz(o['corr']) - want) > 2e-7:
            probs.append(('C11:iapply:%s' % meth['method'], '%s: <Sz_0 Sz_1> = %s, exact %s' % (desc, o['corr'], want)))
        if (o.get('eps') or 0.0) > 1e-9:
            probs.append(('C11:iapply:eps', '%s: truncation error %.2e reported although nothing needs to be truncated (chi %s)' % (desc, o['eps'], o['chi'])))
        if o['norm_err'] > 1e-7:
            probs.append(('C11:iapply:canonical-form', '%s: result is not in canonical form (norm_test %.2e)' % (desc, o['norm_err'])))
        if probs:
            break
    for nm, e in r['errors'].items():
        probs.append(('C11:iapply:raises', '%s: %s raised %s' % (desc0, nm, e)))
    ctx.count(stream, case, nontrivial=True, sample={'conserve': case['site']['conserve'], 'layers': [[l_[0], l_[1], l_[2]['method']] for l_ in case['layers']]})
    report(ctx, case, stream, probs)


# ------------------------------------------------------------------------------------------
# sub 'ienv': environments and transfer matrix of infinite (entangled) MPS
# ------------------------------------------------------------------------------------------
K_EV_INIT_ENV = 'C11:expectation_value:init_env_data:TypeError'


def gen_ienv(rng, idx):
    kind = ['SpinHalf', 'Fermion'][idx % 2]
    conserve = [None, 'Sz' if kind == 'SpinHalf' else 'N'][(idx // 2) % 2]
    L = [1, 2][(idx // 4) % 2]
    iter_ok = idx % 3 == 0             # (preconditions of the iterative initialisation forced: Hermitian H, no flag, equal unit cells)
    flag = idx % 5 == 3 and not iter_ok
    maxr = 2
    herm = iter_ok or rng.random() < 0.5
    A = C.gen_terms(rng, kind, 4 * L, conserve, False, herm, rng.randint(1, 3) if not herm else rng.randint(1, 2), maxrange=maxr, cell=L)
    psi_L = L if iter_ok else L * rng.choice([1, 2])
    ent = [0, 3, 4][(idx // 3) % 3] if idx % 7 else 0
    if ent and psi_L == 1:
        if iter_ok:
            ent = 0
        else:
            psi_L = 2                # (random two-site unitaries need two sites)
    return {'kind': 'ext', 'sub': 'ienv', 'site': {'type': kind, 'conserve': conserve}, 'L': L, 'N': 4 if L == 1 else 6, 'seed': 61000 + idx,
            'A': {'terms': A, 'form': ['graph', 'sum', 'neg'][idx % 3], 'split': 1, 'range': rng.choice(['known', 'known', 'none', 'inf']), 'how': 'ctor',
                  'plus_hc': flag},
            'psi_L': psi_L, 'state': {'charged': conserve is not None}, 'entangle': ent, 'reach': maxr, 'graph_reuse': iter_ok,
            'start_env_sites': rng.choice([1, 2]) * L}


def check_ienv(ctx, case, r):
    stream = 'ext_ienv'
    if 'runner_error' in r:
        ctx.fail('correspondence', 'runner failed: ' + r['runner_error'][-600:], label(case, stream))
        return
    ops, mats = C.load(r)
    L, N = case['L'], case['N']
    kind = case['site']['type']
    flag = bool(case['A'].get('plus_hc'))
    probs = []
    d = make_dense(r, ops, L, N, False)
    X = C.dense_terms_fast(d, case['A']['terms'], infinite_cell=L)
    ref = X + X.conj().T if flag else X
    scale = max(1.0, float(np.max(np.abs(ref))))
    desc = 'infinite %s MPO (L=%d, %s, form %s, max_range %s%s) in an iMPS with unit cell %d, chi %s' % (
        kind, L, case['site']['conserve'], case['A']['form'], case['A']['range'], ', explicit_plus_hc' if flag else '', case['psi_L'], r.get('psi_chi'))
    if maxdiff(mats['W/H'], ref) > TOL * scale:
        probs.append(('C11:ienv:operand', '%s: W tensors differ from the terms' % desc))
    per = r['period']
    entangled = max(r['psi_chi']) > 1
    tag('ienv', 'ienv:%s-state' % ('entangled' if entangled else 'product'), 'ienv:psi-unit-cell-%s' % ('equal' if case['psi_L'] == L else 'larger'))
    if flag:
        tag('ienv:explicit_plus_hc')

    def window_value(theta, first, terms):
        """sum of <term> over the terms inside the window first .. first + n - 1, from the reduced state theta (vL, physical, vR)"""
        n = int(round(np.log2(theta.shape[1])))
        dw = O.Dense(O.Geometry(C.chain_info(n, n, True)), [ops], [r['needs_JW']])
        val = 0
        for t, st in terms:
            for sh in range(-8 * L, 8 * L + 1, L):
                ks = [k + sh - first for _, k in t]
                if min(ks) < 0 or max(ks) >= n:
                    continue
                fac = C.site_factors(dw, [(o_, k + sh - first) for o_, k in t])
                M = dw.kron_list([fac.get(k, np.eye(2)) for k in range(n)])
                val += cz(st) * np.einsum('apb,pq,aqb->', theta.conj(), M, theta)
        return val
    # density: the terms starting in one period, in the reduced state of period + reach sites
    theta = mats['theta']
    dens = 0
    n_th = r['n_theta']
    dw = O.Dense(O.Geometry(C.chain_info(n_th, n_th, True)), [ops], [r['needs_JW']])
    for t, st in case['A']['terms']:
        m0 = min(k for _, k in t)
        for sh in range(0, per, L):
            tt = [(o_, k - (m0 // L) * L + sh) for o_, k in t]
            if max(k for _, k in tt) >= n_th:
                dens = None
                break
            fac = C.site_factors(dw, tt)
            M = dw.kron_list([fac.get(k, np.eye(2)) for k in range(n_th)])
            dens += cz(st) * np.einsum('apb,pq,aqb->', theta.conj(), M, theta)
        if dens is None:
            break
    if dens is not None:
        dens = dens / per
        if flag:
            dens = dens + np.conj(dens)
        for q in ('expectation_value', 'expectation_value_TM', 'expectation_value_power', 'expectation_value_power_tol', 'TM_guess', 'expectation_value_init_env_data',
                  'TM_badguess', 'expectation_value_TM_noncanonical', 'expectation_value_sorted'):
            if q in r:
                tag('ienv:' + q)
                tol_ = 1e-5 if q.endswith('_tol') else 1e-7
                if abs(cz(r[q]) - dens) > tol_ * scale:
                    probs.append(('C11:ienv:' + q, '%s: %s = %s, density from the reduced state of %d sites = %s' % (desc, q, r[q], n_th, dens)))
        for q in ('TM_Es', 'iter_Es', 'iter_Es_second', 'iter_Es_sorted', 'iter_Es_enlarged'):
            if q.startswith('iter_Es') and (flag or maxdiff(ref, ref.conj().T) > TOL * scale):
                continue        # (the iterative builder works on the stored tensors and takes the real part of the energy: Hamiltonians without the flag)
            for x in r.get(q, []):
                tag('ienv:' + q)
                if abs(cz(x) - dens) > 1e-7 * scale:
                    probs.append(('C11:ienv:' + q, '%s: energy per site %s of %s = %s, density from the reduced state = %s'
                                  % (desc, q, {'TM_Es': 'MPOTransferMatrix.find_init_LP_RP(calc_E=True)', 'iter_Es': 'MPOEnvironmentBuilder.init_LP_RP_iterative(calc_E=True)',
                                      'iter_Es_second': 'a second MPOEnvironmentBuilder on the same MPO (graph cached)',
                                      'iter_Es_sorted': 'MPOEnvironmentBuilder after H.sort_legcharges() (graph and cycles permuted)',
                                      'iter_Es_enlarged': 'MPOEnvironmentBuilder after enlarge_mps_unit_cell(2) of H and psi'}[q],
                                     x, dens)))
                    break
        # converged environments (LP[IdR] / RP[IdL] are fixed up to a multiple of the identity only): full_contraction(i) with i < period - 1
        # contracts one period more than full_contraction(period - 1), the difference is period * density whatever the gauge
        herm = maxdiff(ref, ref.conj().T) <= TOL * scale
        if 'W/H_sorted' in mats and maxdiff(mats['W/H_sorted'], ref) > TOL * scale:
            probs.append(('C11:ienv:sort_legcharges', '%s: after the iterative initialisation and sort_legcharges() the W tensors denote another operator' % desc))
        if 'had_graph' in r:
            tag('sort_legcharges:with-cached-graph', 'enlarge_mps_unit_cell:with-cached-graph')
        for meth in ('iter', 'TM', 'None', 'noncanonical'):
            fc = r.get('full_contraction/' + meth)
            if fc is None or per < 2:
                continue
            if meth == 'iter' and not herm:
                continue        # (MPOEnvironmentBuilder takes the real part of the energy per site: Hamiltonians only)
            tag('ienv:MPOEnvironment:force_init_method=' + meth)
            vals = [cz(x) for x in fc]
            if max(abs(v_ - vals[0]) for v_ in vals[:per - 1]) > 1e-7 * scale * max(1.0, abs(vals[0])) or \
                    abs(vals[0] - vals[per - 1] - per * dens) > 1e-7 * scale * max(1.0, abs(vals[0])):
                probs.append(('C11:ienv:MPOEnvironment:converged-environments', '%s: MPOEnvironment(force_init_method=%s).full_contraction(i) = %s for i < %d; '
                              'differences must be 0 and (first - last) = period * density = %s' % (desc, meth, fc, per, per * dens)))
    if 'full_contraction/start' in r and 'theta_start' in mats and per >= 2:
        k = case['start_env_sites']
        tag('ienv:MPOEnvironment:start_env_sites')
        want = window_value(mats['theta_start'], -k, case['A']['terms'])
        if flag:
            want = want + np.conj(want)
        if abs(cz(r['full_contraction/start']) - want) > 1e-8 * scale:
            probs.append(('C11:ienv:MPOEnvironment:start_env_sites', '%s: full_contraction(0) with start_env_sites=%d is %s; the terms inside the %d contracted sites give %s'
                          % (desc, k, r['full_contraction/start'], per + 2 * k, want)))
    if 'expectation_value_init_env_data_raises' in r:
        tag('ienv:expectation_value:init_env_data-option')
        probs.append((K_EV_INIT_ENV, '%s: expectation_value(psi, init_env_data=env.get_initialization_data()) raised %s' % (desc, r['expectation_value_init_env_data_raises'])))
    elif 'expectation_value_init_env_data' in r:
        tag('ienv:expectation_value:init_env_data-option')
    for nm, e in r['errors'].items():
        probs.append(('C11:ienv:raises:' + nm.split(':')[0], '%s: %s raised %s' % (desc, nm, e)))
    ctx.count(stream, case, nontrivial=float(np.max(np.abs(ref))) > 1e-9, sample={'L': L, 'site': case['site'], 'psi_L': case['psi_L'], 'chi': r.get('psi_chi')})
    report(ctx, case, stream, probs)


# ------------------------------------------------------------------------------------------
# sub 'opts': documented options and refusals of single routines
# ------------------------------------------------------------------------------------------
REFUSALS = {
    'make_U:unknown-approximation': 'ValueError', 'make_U_I:explicit_plus_hc': 'NotImplementedError', 'make_U_II:explicit_plus_hc': 'NotImplementedError',
    'variance:explicit_plus_hc': 'NotImplementedError', 'variance:infinite': 'ValueError', 'plus_identity:infinite': 'NotImplementedError',
    'plus_identity:explicit_plus_hc': 'NotImplementedError', 'plus_identity:sites-outside': 'ValueError', 'plus_identity:sites-non-contiguous': 'NotImplementedError',
    'apply:unknown-method': 'ValueError', 'apply_naively:bc-mismatch': 'ValueError', 'apply_naively:explicit_plus_hc': 'NotImplementedError',
    'apply_zipup:infinite': 'ValueError', 'apply_zipup:explicit_plus_hc': 'NotImplementedError', 'overlap:finite-vs-infinite': 'ValueError',
    'add:different-flags': 'ValueError', 'from_Wflat:wrong-length': 'ValueError', 'MPO:IdL-wrong-length': 'ValueError',
    'expectation_value_TM:finite-psi': 'ValueError', 'expectation_value_power:finite-psi': 'ValueError', 'enlarge_mps_unit_cell:factor-1': 'ValueError',
    'enlarge_mps_unit_cell:non-integer': 'ValueError', 'enlarge_mps_unit_cell:finite': 'ValueError', 'MPOTransferMatrix:finite': 'ValueError',
    'variance:L-mismatch': 'ValueError', 'apply_naively:L-mismatch': 'ValueError', 'apply_zipup:L-mismatch': 'ValueError', 'apply_zipup:bc-mismatch': 'ValueError',
    'MPOTransferMatrix:no-markers': 'ValueError', 'MPOEnvironment:no-IdL-marker': 'RuntimeError', 'ExpMPOEvolution:order-3': 'ValueError'}
K_TTL_START = 'C11:to_TermList:start-not-ascending:terms-dropped'
K_POWER_L1 = 'C11:expectation_value_power:single-site-unit-cell:max_range=1:UnboundLocalError'
K_L1_APPLY = 'C11:apply:single-site-chain:right-leg-not-projected-on-IdR'
K_L1_PLUSID = 'C11:plus_identity:single-site-chain:raises'
OPTS_VARIANTS = ['expdecay', 'is_equal_eps', 'refusals', 'expdecay', 'is_equal_eps', 'single_site', 'expdecay', 'is_equal_eps']


def distinct_terms(rng, kind, n, conserve, nt, maxr, big=True):
    """terms on distinct sites with pairwise different words; coefficient magnitudes either >= 0.5 or <= 0.05"""
    out, seen = [], set()
    for _ in range(60):
        t = C.gen_term(rng, kind, n, conserve, False, maxr, None)
        if len(set(k for _, k in t)) < len(t):
            continue
        w = tuple(sorted((k, o_) for o_, k in t))
        if w in seen:
            continue
        seen.add(w)
        mag = rng.uniform(0.5, 1.5) if (big or rng.random() < 0.6) else rng.uniform(0.01, 0.05)
        out.append([t, [round(mag * rng.choice([-1, 1]), 4), 0.0]])
        if len(out) == nt:
            break
    return out


def gen_opts(rng, idx):
    v = OPTS_VARIANTS[idx % len(OPTS_VARIANTS)]
    case = {'kind': 'ext', 'sub': 'opts', 'variant': v, 'seed': 71000 + idx}
    if v == 'refusals':
        L = 3
        terms = [[[['Sp', 0], ['Sm', 1]], [1.0, 0.5]], [[['Sz', 1], ['Sz', 2]], [0.7, 0]]]
        case.update({'site': {'type': 'SpinHalf', 'conserve': None}, 'L': L, 'terms': terms, 'terms_inf': [[[['Sz', 0], ['Sz', 1]], [1.0, 0]]]})
    elif v == 'single_site':
        terms = [[[['Sz', 0]], C.cpx(rng, False)], [[[rng.choice(['Sx', 'Sp', 'Sy']), 0]], C.cpx(rng, False)]]
        if rng.random() < 0.5:
            terms.append([[['Sm', 0], ['Sp', 0]], C.cpx(rng, False)])
        t0 = 0.05
        case.update({'site': {'type': 'SpinHalf', 'conserve': None}, 'L': 1, 'A': {'terms': terms, 'form': ['graph', 'sum', 'neg'][(idx // 8) % 3], 'split': 1, 'range': 'known'},
                     'dts': [[-t0 / 2 ** n, 0] for n in range(3)], 'alpha': C.cpx(rng, False), 'beta': C.cpx(rng, False)})
    elif v == 'expdecay':
        conserve = [None, 'Sz'][(idx // 8) % 2]
        L = rng.choice([1, 2])
        # (operators that are elements of the operator basis of to_TermList, so that `cutoff` acts on the strengths themselves)
        a, b, h_ = ('Sz', 'Sz', 'Sz') if conserve else rng.choice([('Sz', 'Sz', 'Sz'), ('Sp', 'Sm', 'Sz'), ('Sm', 'Sp', 'Sz'), ('Sz', 'Sz', 'Sp')])
        lam = rng.choice([0.5, 0.7])
        q = rng.randint(1, 3)
        case.update({'site': {'type': 'SpinHalf', 'conserve': conserve}, 'L': L, 'lam': lam, 'opa': a, 'opb': b, 'oph': h_, 'h': [round(rng.uniform(0.75, 1.0), 3), 0.0],
                     'range': ['none', 'inf'][(idx // 3) % 2], 'psi_L': L * rng.choice([1, 2]), 'state': {'charged': conserve is not None}, 'short': rng.choice([1, 2]),
                     'boundary': idx % 8 == 0,
                     'ttl_range': rng.randint(3, 6), 'cutoff': lam ** (q + 0.5), 'q': q,
                     'prefactors': [[0, [a] + ['Id'] * n_ + [b]] for n_ in range(0, 3)] + [[rng.randint(0, 3), [h_]]]})
        if case['boundary']:            # single-site unit cells, exactly one contracted site
            case.update({'L': 1, 'psi_L': 1, 'short': 1})
    else:
        kind = ['SpinHalf', 'Fermion'][1 if idx % 8 == 7 and (idx // 8) % 2 else 0]
        conserve = rng.choice([None, 'Sz' if kind == 'SpinHalf' else 'N'])
        L = rng.choice([3, 4])
        A = distinct_terms(rng, kind, L, conserve, rng.randint(2, 4), L - 1, big=False)
        if not any(abs(st[0]) >= 0.5 for _, st in A):
            A[0][1][0] = 0.8
        # Hermitian part + a small non-Hermitian perturbation of chosen relative size
        Ah = A + C.hc_terms(kind, A)
        delta = rng.choice([1e-4, 3e-2])
        k = rng.randrange(len(A))
        B = copy.deepcopy(Ah)
        B[k] = [B[k][0], [B[k][1][0] * (1 + delta), B[k][1][1]]]
        case.update({'site': {'type': kind, 'conserve': conserve}, 'L': L, 'N': L, 'bc': 'finite', 'terms': Ah, 'terms_b': B, 'eps': [1e-10, 1e-5, 0.05],
                     'cutoff': 0.2, 'A_half': A,
                     # `start`: "(list of) int": one site / ascending / not ascending, in turn
                     'start': [[rng.randrange(L)], sorted(rng.sample(range(L), 2)), sorted(rng.sample(range(L), 2), reverse=True), [L - 1, 0]][({1: 0, 4: 1, 7: 2}[idx % 8] + 3 * (idx // 8)) % 4]})
    return case


def check_opts(ctx, case, r):
    stream = 'ext_opts'
    if 'runner_error' in r:
        ctx.fail('correspondence', 'runner failed: ' + r['runner_error'][-600:], label(case, stream))
        return
    ops, mats = C.load(r)
    L = case['L']
    probs = []
    v = case['variant']
    if v == 'refusals':
        for nm, want in REFUSALS.items():
            got = r['refusals'].get(nm)
            tag('refusal:' + nm)
            if got != want:
                probs.append(('C11:refusal:' + nm, 'documented refusal %s: expected %s, the call %s' % (nm, want, got)))
    elif v == 'single_site':
        import scipy.linalg as sl
        d = make_dense(r, ops, 1, 1, True)
        A = C.dense_terms(d, case['A']['terms'])[0]
        desc = 'finite MPO on ONE site (%s, form %s)' % (case['A']['terms'], case['A']['form'])
        tag('single-site-chain')
        psi = mats['psi']
        for nm, ref, what in (('W/H', A, 'the MPO'), ('W/dagger', A.conj().T, 'dagger()'), ('W/add', A + A.conj().T, 'H + H.dagger()'),
                              ('W/plus_identity', cz(case['alpha']) * np.eye(2) + cz(case['beta']) * A, 'plus_identity')):
            if nm in mats and maxdiff(mats[nm], ref) > 1e-10:
                probs.append(('C11:single-site:' + nm[2:], '%s: %s differs from the dense operator by %.2e' % (desc, what, maxdiff(mats[nm], ref))))
        if 'plus_identity_raises' in r:
            probs.append((K_L1_PLUSID, '%s: plus_identity raised %s' % (desc, r['plus_identity_raises'])))
        ev = np.vdot(psi, A @ psi)
        if 'expectation_value' in r and abs(cz(r['expectation_value']) - ev) > 1e-10:
            probs.append(('C11:single-site:expectation_value', '%s: expectation_value %s, dense %s' % (desc, r['expectation_value'], ev)))
        if 'variance' in r and abs(cz(r['variance']) - (np.vdot(psi, A @ A @ psi) - ev ** 2)) > 1e-10:
            probs.append(('C11:single-site:variance', '%s: variance %s' % (desc, r['variance'])))
        herm = maxdiff(A, A.conj().T) < 1e-12
        if 'is_hermitian' in r and r['is_hermitian'] != herm and maxdiff(A, A.conj().T) not in (0,) and (herm or maxdiff(A, A.conj().T) > 1e-4):
            probs.append(('C11:single-site:is_hermitian', '%s: is_hermitian() = %s' % (desc, r['is_hermitian'])))
        if 'is_equal' in r and (r['is_equal'][0] != herm and (herm or maxdiff(A, A.conj().T) > 1e-4) or r['is_equal'][1] or not r['is_equal'][2]):
            probs.append(('C11:single-site:is_equal', '%s: is_equal(H.dagger()), is_equal(H + H), (H + H).is_equal(H + H) = %s' % (desc, r['is_equal'])))
        if 'overlap' in r and abs(cz(r['overlap']) - np.trace(A.conj().T @ A.conj().T)) > 1e-9:
            probs.append(('C11:single-site:overlap', '%s: overlap(H, H.dagger()) = %s' % (desc, r['overlap'])))
        if 'to_TermList' in r and maxdiff(C.tl_tensor_dense(d, r['to_TermList']), A) > 1e-10:
            probs.append(('C11:single-site:to_TermList', '%s: terms of to_TermList differ from the operator' % desc))
        for which in ('I', 'II'):
            errs = [float(np.linalg.norm(mats['U/%s/%d' % (which, q)] - sl.expm(cz(dt) * A), 2)) for q, dt in enumerate(case['dts']) if 'U/%s/%d' % (which, q) in mats]
            if len(errs) == 3 and any(a_ > 1e-12 and np.log2(a_ / max(b_, 1e-300)) < 1.4 for a_, b_ in ((errs[0], errs[1]), (errs[1], errs[2]))):
                probs.append(('C11:single-site:make_U_' + which, '%s: errors of make_U_%s at dt, dt/2, dt/4: %s' % (desc, which, errs)))
        phi = A @ psi
        for meth, o in r.get('apply', {}).items():
            res = mats.get('apply/' + meth)
            tag('single-site-chain:apply:' + meth)
            if o['chi_outer'] != [1, 1] or res is None or res.shape != phi.shape:
                probs.append((K_L1_APPLY, '%s: after apply by %s the single tensor of the finite MPS has outer bond dimensions %s (the right MPO leg is not projected on IdR)'
                              % (desc, meth, o['chi_outer'])))
            elif np.linalg.norm(res - phi) > 1e-9 * max(1.0, np.linalg.norm(phi)):
                probs.append(('C11:single-site:apply', '%s: H|psi> by %s = %s, dense %s' % (desc, meth, res, phi)))
    elif v == 'expdecay':
        lam = case['lam']
        Lp = len(r['state'])
        vec = lambda k: np.array([cz(x) for x in r['state'][k % Lp]])
        ev = lambda name, k: np.vdot(vec(k), ops[name] @ vec(k))
        per = int(np.lcm(L, Lp))
        h_ = cz(case['h'])

        def density(rmax):
            return sum(h_ * ev(case['oph'], i) + sum(lam ** (rr - 1) * ev(case['opa'], i) * ev(case['opb'], i + rr) for rr in range(1, rmax + 1)) for i in range(per)) / per
        dens = density(400)
        desc = 'iMPO sum_{i<j} %.1f^(j-i-1) %s_i %s_j + %s %s_i (from_grids, L=%d, max_range %s) in a product iMPS with unit cell %d' % (
            lam, case['opa'], case['opb'], case['h'][0], case['oph'], L, case['range'], Lp)
        tag('expdecay', 'expdecay:max_range=' + case['range'], 'expectation_value:max_range-None-or-large->TM')
        for q in ('expectation_value', 'expectation_value_TM', 'expectation_value_power'):
            if q in r and abs(cz(r[q]) - dens) > 1e-7:
                probs.append(('C11:expdecay:' + q, '%s: %s = %s, exact density %s' % (desc, q, r[q], dens)))
        e_ = r['errors'].pop('expectation_value_power:short', None)
        if e_ is not None:
            key_ = K_POWER_L1 if ('UnboundLocalError' in e_ and per == 1 and case['short'] == 1) else 'C11:expdecay:power:raises'
            probs.append((key_, '%s: expectation_value_power(max_range=%d) raised %s' % (desc, case['short'], e_)))
        if 'power_short' in r:
            tag('expectation_value_power:tolerance-not-reached-warning')
            if not r['power_short_warned']:
                probs.append(('C11:expdecay:power:no-warning', '%s: expectation_value_power(max_range=%d) did not warn that the tolerance is not reached' % (desc, case['short'])))
            # documented: "Contract at most self.L * max_range sites": terms starting in the first (common) unit cell up to that many sites
            nmax = max(case['short'], 1) * per
            part = sum(h_ * ev(case['oph'], i) + sum(lam ** (rr - 1) * ev(case['opa'], i) * ev(case['opb'], i + rr) for rr in range(1, nmax - i)) for i in range(per)) / per
            if abs(cz(r['power_short']) - part) > 1e-9:
                probs.append(('C11:expdecay:power:truncated-sum', '%s: expectation_value_power(max_range=%d) = %s, the terms inside the %d contracted sites give %s'
                              % (desc, case['short'], r['power_short'], nmax, part)))
        if 'is_hermitian' in r:
            herm = case['opa'] == 'Sz' and case['opb'] == 'Sz' and case['oph'] == 'Sz'
            if r['is_hermitian'] != herm:
                probs.append(('C11:expdecay:is_hermitian', '%s: is_hermitian() is %s' % (desc, r['is_hermitian'])))
        if 'to_TermList' in r:
            tag('to_TermList:option:cutoff', 'to_TermList:option:max_range', 'to_TermList:infinite-range-MPO')
            want = []
            for i in range(L):
                want.append([[[case['oph'], i]], case['h']])
                for rr in range(1, case['ttl_range'] + 1):
                    if rr - 1 <= case['q']:
                        want.append([[[case['opa'], i], [case['opb'], i + rr]], [lam ** (rr - 1), 0.0]])
            nw = L * ((case['ttl_range'] + L) // L + 1)
            dw = make_dense(r, ops, L, nw, False)
            T = C.tl_tensor_dense(dw, r['to_TermList'], cell=L)
            Wd = C.dense_terms_fast(dw, want, infinite_cell=L)
            longest = max([max(k for _, k in t) - min(k for _, k in t) for t, _ in r['to_TermList']] + [0])
            if maxdiff(T, Wd) > 1e-9:
                probs.append(('C11:expdecay:to_TermList', '%s: to_TermList(max_range=%d, cutoff=%.3g) (longest term %d, %d terms) differs from the terms with range <= %d '
                              'and strength >= cutoff by %.3e' % (desc, case['ttl_range'], case['cutoff'], longest, len(r['to_TermList']),
                                                                   min(case['ttl_range'], case['q'] + 1), maxdiff(T, Wd))))
        if 'prefactor' in r:
            for (i, ops_), got in zip(case['prefactors'], r['prefactor']):
                want = h_ if len(ops_) == 1 else lam ** (len(ops_) - 2)
                if len(ops_) == 1 and case['oph'] in (case['opa'], case['opb']):
                    continue
                tag('prefactor:infinite-range-MPO')
                if abs(cz(got) - want) > 1e-9:
                    probs.append(('C11:expdecay:prefactor', '%s: prefactor(%d, %s) = %s, expected %s' % (desc, i, ops_, got, want)))
    else:
        d = make_dense(r, ops, L, L, True)
        A = C.dense_terms_fast(d, case['terms'])
        B = C.dense_terms_fast(d, case['terms_b'])
        desc = 'finite %s MPOs (L=%d, %s) A (Hermitian) and B = A with one coefficient changed' % (case['site']['type'], L, case['site']['conserve'])
        if maxdiff(mats['W/A'], A) > TOL * 10 or maxdiff(mats['W/B'], B) > TOL * 10:
            probs.append(('C11:opts:operand', '%s: W tensors differ from the terms' % desc))
        nA, nB = float(np.sum(np.abs(A) ** 2)), float(np.sum(np.abs(B) ** 2))
        rel = float(np.sum(np.abs(A - B) ** 2)) / (nA + nB)
        relh = float(np.sum(np.abs(B - B.conj().T) ** 2)) / (2 * nB)
        for eps in case['eps']:
            tag('is_equal:eps-option', 'is_hermitian:eps-option')
            # documented: abs(<A|A> + <B|B> - 2 Re <A|B>) < eps * (<A|A> + <B|B>)
            for got, x, what in ((r['is_equal'].get('%g' % eps), rel, 'is_equal(eps=%g)' % eps), (r['is_hermitian'].get('%g' % eps), relh, 'B.is_hermitian(eps=%g)' % eps)):
                if got is None or 0.5 * eps < x < 2 * eps:
                    continue
                gl = got if isinstance(got, list) else [got]
                if any(g_ != (x <= eps) for g_ in gl):
                    probs.append(('C11:opts:eps', '%s: %s = %s, relative squared distance %.3e' % (desc, what, got, x)))
        if 'to_TermList_default' in r:
            tag('to_TermList:option:ignore-default')
            if case['site']['type'] == 'SpinHalf':
                T = C.tl_tensor_dense(d, r['to_TermList_default'])
                if maxdiff(T, A) > TOL * 10:
                    probs.append(('C11:opts:to_TermList:default-ignore', '%s: the terms of to_TermList() with the default `ignore` differ from A by %.3e' % (desc, maxdiff(T, A))))
        words = {}
        for t, st in case['terms']:
            w_ = tuple(sorted((k, o_) for o_, k in t))
            words[w_] = words.get(w_, 0) + cz(st)
        clear = case['site']['type'] == 'SpinHalf' and all(abs(x) >= 0.5 or abs(x) <= 0.11 for x in words.values())
        if 'to_TermList_start' in r and case['site']['type'] == 'SpinHalf':
            tag('to_TermList:option:start')
            T = C.tl_tensor_dense(d, r['to_TermList_start'])
            want = C.dense_terms_fast(d, [[t, st] for t, st in case['terms'] if min(k for _, k in t) in case['start']])
            asc = case['start'] == sorted(case['start'])
            tag('to_TermList:option:start:%s' % ('one-site' if len(case['start']) == 1 else 'ascending' if asc else 'not-ascending'))
            if maxdiff(T, want) > TOL * 10:
                probs.append((K_TTL_START if not asc else 'C11:opts:to_TermList:start', '%s: to_TermList(start=%s) differs from the terms of A whose left-most site is in `start` by %.3e'
                              % (desc, case['start'], maxdiff(T, want))))
        if 'to_TermList_cutoff' in r and clear:
            tag('to_TermList:option:cutoff')
            keep = [[[[o_, k] for k, o_ in w_], [x.real, x.imag]] for w_, x in words.items() if abs(x) >= case['cutoff']]
            T = C.tl_tensor_dense(d, r['to_TermList_cutoff'])
            want = C.dense_terms_fast(d, keep)
            if maxdiff(T, want) > TOL * 10:
                probs.append(('C11:opts:to_TermList:cutoff', '%s: to_TermList(cutoff=%s) differs from the terms with |strength| >= cutoff by %.3e (terms %s)'
                              % (desc, case['cutoff'], maxdiff(T, want), case['terms'])))
    for nm, e in r['errors'].items():
        probs.append(('C11:opts:raises:' + nm.split(':')[0], '%s: %s raised %s' % (v, nm, e)))
    ctx.count(stream, case, nontrivial=True, sample={'variant': v, 'L': L})
    report(ctx, case, stream, probs)


# ------------------------------------------------------------------------------------------
# assembling the streams; coverage table of the evidence
# ------------------------------------------------------------------------------------------
GENS = {'chain': gen_chain, 'ctor': gen_ctor, 'evo': gen_evo, 'iapply': gen_iapply, 'ienv': gen_ienv, 'opts': gen_opts}
CHECKS = {'chain': check_chain, 'ctor': check_ctor, 'evo': check_evo, 'iapply': check_iapply, 'ienv': check_ienv, 'opts': check_opts}


def ext_cases(ctx, rng, boost=1.0):
    counts = {'chain': ctx.pick(60, 324), 'ctor': ctx.pick(28, 140), 'evo': ctx.pick(12, 48), 'iapply': ctx.pick(8, 40), 'ienv': ctx.pick(12, 60),
              'opts': ctx.pick(16, 80)}
    out = []
    for sub, n in counts.items():
        out += [GENS[sub](rng, i) for i in range(int(n * boost))]
    return out


def check_ext(ctx, case, r):
    CHECKS[case['sub']](ctx, case, r)


# public names of the anchored classes -> how the check reaches them ('covered': the call counter of the runner must be positive in
# every run) or why they are outside the property ('excluded')
COVERED = 'covered'
CLASSIFY = {
    'MPO.__init__': (COVERED, 'all streams'), 'MPO.copy': (COVERED, 'ext_chain copy_mutate; dagger of explicit_plus_hc MPOs'),
    'MPO.save_hdf5': ('excluded', 'saving / loading is property C17'), 'MPO.from_hdf5': ('excluded', 'saving / loading is property C17'),
    'MPO.from_grids': (COVERED, 'algebra (grids), ext_ctor (entry kinds, scalar markers, bc infinite, Ws_qtotal, legs, explicit_plus_hc), plus_identity'),
    'MPO.from_wavepacket': (COVERED, 'ext_ctor'), 'MPO.from_Wflat': (COVERED, 'results (how=wflat), ext_chain wflat, ext_ctor (permute / dtype / charges)'),
    'MPO.test_sanity': (COVERED, 'all streams'), 'MPO.chi': (COVERED, 'all streams'), 'MPO.get_W': (COVERED, 'all streams'),
    'MPO.set_W': (COVERED, 'ext_chain set_W'), 'MPO.get_IdL': (COVERED, 'all streams'), 'MPO.get_IdR': (COVERED, 'all streams'),
    'MPO.enlarge_mps_unit_cell': (COVERED, 'ext_chain enlarge, ext_iapply'), 'MPO.group_sites': (COVERED, 'ext_chain group'),
    'MPO.extract_segment': (COVERED, 'ext_chain segment'), 'MPO.sort_legcharges': (COVERED, 'results, ext_chain sort'),
    'MPO.make_U': (COVERED, 'propagator, ext_chain make_U, ext_evo'), 'MPO.make_U_I': (COVERED, 'propagator, c11_make_U_I, ext_evo'),
    'MPO.make_U_II': (COVERED, 'propagator, ext_evo'), 'MPO.expectation_value': (COVERED, 'algebra, infinite, results, ext_chain, ext_ienv, ext_opts'),
    'MPO.expectation_value_finite': (COVERED, 'algebra, ext_chain'), 'MPO.expectation_value_TM': (COVERED, 'infinite, results, ext_ienv, ext_opts'),
    'MPO.expectation_value_power': (COVERED, 'infinite, results, ext_ienv, ext_opts'), 'MPO.variance': (COVERED, 'algebra, results, ext_chain'),
    'MPO.prefactor': (COVERED, 'algebra, results_plus_hc, ext_ctor, ext_opts'), 'MPO.to_TermList': (COVERED, 'algebra, infinite, results, ext_chain, ext_opts'),
    'MPO.dagger': (COVERED, 'all streams'), 'MPO.is_hermitian': (COVERED, 'all streams'), 'MPO.is_equal': (COVERED, 'all streams'),
    'MPO.apply': (COVERED, 'algebra, ext_chain, ext_ctor, ext_evo, ext_iapply'), 'MPO.apply_naively': (COVERED, 'algebra, ext_chain, ext_iapply'),
    'MPO.apply_zipup': (COVERED, 'algebra, ext_chain'), 'MPO.plus_identity': (COVERED, 'algebra, results, ext_chain'),
    'MPO.overlap': (COVERED, 'algebra, results_plus_hc, ext_chain (default window)'), 'MPO.distance': (COVERED, 'algebra, results_plus_hc, ext_chain'),
    'MPO.__add__': (COVERED, 'all streams'),
    'MPOGraph.__init__': (COVERED, 'all streams'), 'MPOGraph.from_terms': (COVERED, 'through from_term_list (the construction itself is property C10)'),
    'MPOGraph.from_term_list': (COVERED, 'all streams'), 'MPOGraph.test_sanity': (COVERED, 'all streams'), 'MPOGraph.add': (COVERED, 'c11_make_U_I (explicit graphs)'),
    'MPOGraph.add_string_left_to_right': (COVERED, 'through from_term_list (property C10)'),
    'MPOGraph.add_string_right_to_left': ('excluded', 'multi-coupling construction of CouplingModel: property C10'),
    'MPOGraph.add_missing_IdL_IdR': (COVERED, 'all streams'), 'MPOGraph.has_edge': (COVERED, 'through from_term_list'),
    'MPOGraph.build_MPO': (COVERED, 'all streams'), 'MPOGraph.__repr__': ('excluded', 'display only'), 'MPOGraph.__str__': ('excluded', 'display only'),
    'MPOEnvironment.__init__': (COVERED, 'algebra, ext_chain env, ext_ienv'), 'MPOEnvironment.init_first_LP_last_RP': (COVERED, 'ext_ienv (iter / TM / start_env_sites)'),
    'MPOEnvironment.test_sanity': (COVERED, 'all'), 'MPOEnvironment.init_LP': (COVERED, 'all'), 'MPOEnvironment.init_RP': (COVERED, 'all'),
    'MPOEnvironment.get_LP': (COVERED, 'all'), 'MPOEnvironment.get_RP': (COVERED, 'all'), 'MPOEnvironment.full_contraction': (COVERED, 'algebra, ext_chain env (bra != ket), ext_ienv'),
    'MPOEnvironmentBuilder.__init__': (COVERED, 'ext_ienv (Hermitian H, equal unit cells: asserted preconditions)'),
    'MPOEnvironmentBuilder.test_sanity': (COVERED, 'ext_ienv'), 'MPOEnvironmentBuilder.init_LP_RP_iterative': (COVERED, 'ext_ienv: energy per site, converged environments'),
    'MPOTransferMatrix.__init__': (COVERED, 'infinite, ext_ienv'), 'MPOTransferMatrix.matvec': (COVERED, 'infinite, ext_ienv'),
    'MPOTransferMatrix.dominant_eigenvector': (COVERED, 'infinite, ext_ienv'), 'MPOTransferMatrix.energy': (COVERED, 'infinite, ext_ienv'),
    'MPOTransferMatrix.find_init_LP_RP': (COVERED, 'ext_ienv (calc_E, guess, both gauges)'),
    'make_W_II': (COVERED, 'propagator, ext_evo'), 'grid_insert_ops': (COVERED, 'algebra, ext_ctor (all entry kinds)'),
    'ExpMPOEvolution.__init__': (COVERED, 'ext_evo'), 'ExpMPOEvolution.prepare_evolve': (COVERED, 'ext_evo'), 'ExpMPOEvolution.calc_U': (COVERED, 'ext_evo'),
    'ExpMPOEvolution.evolve_step': (COVERED, 'ext_evo'),
}
EXCLUDED_NOTES = [
    'extract_segment of a grouped MPO raises ZeroDivisionError (L // unit_cell_width = 0; MPS.extract_segment alike; grouping documents that unit_cell_width stays): not drawn',
    'MPO.__add__ documents "standard sum form": after plus_identity with beta != 1 (beta sits on the IdL -> IdL entry) no sum is taken; make_U_I asserts all markers (not after plus_identity, whose result has IdL[-1] = IdR[0] = None)',
    'MPS.compress_svd of an infinite MPS is a single sweep of local SVDs around guessed singular values (documented for MPOs close to the identity): exactness of MPO.apply on infinite MPS is required of apply_naively + canonical_form, of the variational compression and of the SVD compression of a product state under disjoint gates only',
    'MPOEnvironmentBuilder (default initialisation of infinite MPOEnvironments) asserts equal unit cells of H and psi and takes the real part of the energy per site: checked for Hermitian H without the flag explicit_plus_hc and psi.L == H.L (force_init_method TM / None for the rest)',
    'prefactor returns 0.0 when the IdL / IdR marker at an end of the string is unknown: for MPOs without inner markers (from_wavepacket) only full-length strings are evaluated',
    'MPO.distance: the branch "negative distance" (RuntimeError) and MPO._to_valid_index (deprecated) are not reached; expectation_value_finite for segment MPS only warns that boundary terms are ignored: not drawn',
    'TimeDependentExpMPOEvolution has no code of its own (run of TimeDependentHAlgorithm): not drawn',
]
# option / branch tags every run must reach (forced by the index stratification of the generators)
REQUIRED_TAGS = [
    'refusal:variance:L-mismatch', 'refusal:apply_naively:L-mismatch', 'refusal:apply_zipup:L-mismatch', 'refusal:apply_zipup:bc-mismatch',
    'refusal:MPOTransferMatrix:no-markers', 'refusal:MPOEnvironment:no-IdL-marker', 'refusal:ExpMPOEvolution:order-3',
    'chain:step:segment:explicit_plus_hc', 'chain:step:group:explicit_plus_hc', 'chain:step:enlarge:explicit_plus_hc',
    'sort_legcharges:with-cached-graph', 'enlarge_mps_unit_cell:with-cached-graph', 'ienv:TM_badguess', 'ienv:expectation_value_TM_noncanonical',
    'ienv:iter_Es_sorted', 'ienv:iter_Es_enlarged', 'ienv:iter_Es_second', 'ienv:MPOEnvironment:force_init_method=noncanonical',
    'single-site-chain', 'single-site-chain:apply:naive', 'single-site-chain:apply:SVD', 'single-site-chain:apply:zip_up',
    'make_W_II:on-site-terms-only', 'to_TermList:option:start:one-site', 'to_TermList:option:start:ascending', 'to_TermList:option:start:not-ascending',
    'chain:any-step:operand-with-negative-IdR',
    'ExpMPOEvolution', 'ExpMPOEvolution:H-form=graph', 'ExpMPOEvolution:H-form=neg', 'ExpMPOEvolution:H-form=sum', 'ExpMPOEvolution:approximation=I',
    'ExpMPOEvolution:approximation=II', 'ExpMPOEvolution:approximation=default', 'ExpMPOEvolution:compression_method=SVD',
    'ExpMPOEvolution:compression_method=variational', 'ExpMPOEvolution:compression_method=zip_up', 'ExpMPOEvolution:order=1',
    'ExpMPOEvolution:order=2', 'ExpMPOEvolution:order=default', 'ExpMPOEvolution:phase:first-run', 'ExpMPOEvolution:phase:new-dt-recomputed-U',
    'ExpMPOEvolution:phase:second-run-cached-U', 'MPOEnvironment:LHeff/RHeff', 'MPOEnvironment:bra!=ket',
    'MPOEnvironment:charged-W-between-different-sectors', 'apply:infinite', 'apply:infinite:SVD', 'apply:infinite:charges', 'apply:infinite:layer-0',
    'apply:infinite:layer-1', 'apply:infinite:layer-2', 'apply:infinite:naive', 'apply:infinite:variational', 'apply:m_temp=1', 'apply:m_temp=2',
    'apply:m_temp=3', 'apply:method:SVD', 'apply:method:naive', 'apply:method:variational', 'apply:method:variationalQR', 'apply:method:zip_up',
    'apply:method:zip_up_direct', 'apply:trunc_weight=0.5', 'apply:trunc_weight=1.0', 'apply_zipup:no-svd_min', 'chain:any-step:explicit_plus_hc',
    'chain:any-step:on-grouped', 'chain:any-step:on-segment', 'chain:final:apply', 'chain:final:apply:finite', 'chain:final:apply:on-grouped',
    'chain:final:env', 'chain:final:env:finite', 'chain:final:env:on-grouped', 'chain:final:expectation', 'chain:final:expectation:explicit_plus_hc',
    'chain:final:expectation:finite', 'chain:final:expectation:infinite', 'chain:final:expectation:on-grouped', 'chain:final:is_hermitian',
    'chain:final:is_hermitian:explicit_plus_hc', 'chain:final:is_hermitian:finite', 'chain:final:is_hermitian:infinite',
    'chain:final:is_hermitian:on-grouped', 'chain:final:is_hermitian:on-segment', 'chain:final:make_U', 'chain:final:make_U:finite',
    'chain:final:pair', 'chain:final:pair:explicit_plus_hc', 'chain:final:pair:finite', 'chain:final:pair:infinite', 'chain:final:pair:on-grouped',
    'chain:final:pair:on-segment', 'chain:final:to_TermList', 'chain:final:to_TermList:finite', 'chain:final:to_TermList:infinite', 'chain:step:add',
    'chain:step:addself', 'chain:step:copy_mutate', 'chain:step:copy_mutate:finite', 'chain:step:copy_mutate:infinite', 'chain:step:dagger',
    'chain:step:enlarge', 'chain:step:enlarge:infinite', 'chain:step:group', 'chain:step:group:default', 'chain:step:group:finite',
    'chain:step:group:infinite', 'chain:step:group:on-grouped', 'chain:step:plus_identity', 'chain:step:plus_identity:finite', 'chain:step:radd',
    'chain:step:segment', 'chain:step:segment:finite', 'chain:step:segment:infinite', 'chain:step:segment:on-segment', 'chain:step:set_W',
    'chain:step:sort', 'chain:step:wflat', 'expdecay', 'expdecay:max_range=inf', 'expdecay:max_range=none',
    'expectation_value:max_range-None-or-large->TM', 'expectation_value_power:tolerance-not-reached-warning', 'from_Wflat', 'from_Wflat:bc=finite',
    'from_Wflat:charges', 'from_Wflat:charges:site.perm-nontrivial:permute=None', 'from_Wflat:dtype-option', 'from_Wflat:permute=False',
    'from_Wflat:permute=None', 'from_Wflat:permute=True', 'from_grids', 'from_grids:Ws_qtotal-per-site', 'from_grids:Ws_qtotal-single',
    'from_grids:bc=finite', 'from_grids:bc=infinite', 'from_grids:entry-kind:arr', 'from_grids:entry-kind:list', 'from_grids:entry-kind:str',
    'from_grids:infinite-with-charges', 'from_grids:markers-list', 'from_grids:markers-scalar', 'from_grids:option:Ws_qtotal',
    'from_grids:option:explicit_plus_hc', 'from_grids:option:legs_roundtrip', 'from_grids:option:max_range', 'from_wavepacket',
    'from_wavepacket:apply:SVD', 'from_wavepacket:apply:naive', 'from_wavepacket:apply:variational', 'from_wavepacket:apply:zip_up',
    'from_wavepacket:dagger', 'from_wavepacket:eps-option', 'from_wavepacket:first-coefficient-below-eps',
    'from_wavepacket:first-coefficient-nonzero', 'from_wavepacket:inner-coefficient-below-eps', 'from_wavepacket:op-needs-JW=False',
    'from_wavepacket:op-needs-JW=True', 'from_wavepacket:sum', 'from_wavepacket:sum2', 'from_wavepacket:w1', 'ienv',
    'ienv:MPOEnvironment:force_init_method=None', 'ienv:MPOEnvironment:force_init_method=TM', 'ienv:MPOEnvironment:force_init_method=iter',
    'ienv:MPOEnvironment:start_env_sites', 'ienv:TM_Es', 'ienv:TM_guess', 'ienv:entangled-state', 'ienv:expectation_value',
    'ienv:expectation_value:init_env_data-option', 'ienv:expectation_value_TM', 'ienv:expectation_value_power', 'ienv:expectation_value_power_tol',
    'ienv:explicit_plus_hc', 'ienv:iter_Es', 'ienv:product-state', 'ienv:psi-unit-cell-equal', 'ienv:psi-unit-cell-larger', 'is_equal:eps-option',
    'is_equal:max_range-option', 'is_hermitian:eps-option', 'is_hermitian:max_range-option', 'make_U:of-a-result:I', 'make_U:of-a-result:II',
    'overlap:default-num_sites', 'overlap:default-num_sites:other-known', 'overlap:default-num_sites:other-unknown', 'pair:mixed-explicit_plus_hc',
    'pair:pert', 'pair:pert:finite', 'pair:pert:infinite', 'pair:same', 'pair:same:finite', 'pair:same:infinite', 'prefactor:infinite-range-MPO',
    'refusal:MPO:IdL-wrong-length', 'refusal:MPOTransferMatrix:finite', 'refusal:add:different-flags', 'refusal:apply:unknown-method',
    'refusal:apply_naively:bc-mismatch', 'refusal:apply_naively:explicit_plus_hc', 'refusal:apply_zipup:explicit_plus_hc',
    'refusal:apply_zipup:infinite', 'refusal:enlarge_mps_unit_cell:factor-1', 'refusal:enlarge_mps_unit_cell:finite',
    'refusal:enlarge_mps_unit_cell:non-integer', 'refusal:expectation_value_TM:finite-psi', 'refusal:expectation_value_power:finite-psi',
    'refusal:from_Wflat:wrong-length', 'refusal:make_U:unknown-approximation', 'refusal:make_U_I:explicit_plus_hc',
    'refusal:make_U_II:explicit_plus_hc', 'refusal:overlap:finite-vs-infinite', 'refusal:plus_identity:explicit_plus_hc',
    'refusal:plus_identity:infinite', 'refusal:plus_identity:sites-non-contiguous', 'refusal:plus_identity:sites-outside',
    'refusal:variance:explicit_plus_hc', 'refusal:variance:infinite', 'to_TermList:infinite-range-MPO', 'to_TermList:option:cutoff',
    'to_TermList:option:ignore', 'to_TermList:option:ignore-default', 'to_TermList:option:max_range', 'to_TermList:option:start',
    'variance:variance', 'variance:variance_ev0', 'variance:variance_evgiven',
]


def source_items(repo):
    """public functions of the anchored classes / modules, by reflection on the source (AST)"""
    items = []
    for rel, classes, funcs in (('tenpy/networks/mpo.py', ['MPO', 'MPOGraph', 'MPOEnvironment', 'MPOEnvironmentBuilder', 'MPOTransferMatrix'], True),
                                ('tenpy/algorithms/mpo_evolution.py', ['ExpMPOEvolution', 'TimeDependentExpMPOEvolution'], False)):
        tree = ast.parse(open(os.path.join(repo, rel)).read())
        for node in tree.body:
            if isinstance(node, ast.ClassDef) and node.name in classes:
                for m in node.body:
                    if isinstance(m, ast.FunctionDef):
                        items.append((node.name + '.' + m.name, m.name))
            elif isinstance(node, ast.ClassDef) and rel.endswith('mpo.py'):
                items.append((node.name, node.name))        # a class the table does not know yet
            elif isinstance(node, ast.FunctionDef) and funcs:
                items.append((node.name, node.name))
    return items


def coverage_report(ctx, api_calls):
    table = {}
    public = lambda short: not short.startswith('_') or (short.startswith('__') and short.endswith('__'))
    known_classes = ('MPO', 'MPOGraph', 'MPOEnvironment', 'MPOEnvironmentBuilder', 'MPOTransferMatrix')
    for name, short in source_items(common.REPO):
        calls = int(api_calls.get(name, 0))
        if name in known_classes:
            continue
        if name in CLASSIFY:
            how, why = CLASSIFY[name]
            table[name] = {'class': how, 'by': why, 'calls': calls}
            if how == COVERED and calls == 0:
                ctx.fail('correspondence', 'coverage: %s is classified as covered (%s) but the runner never called it in this run' % (name, why), None)
        elif public(short):
            table[name] = {'class': 'UNCLASSIFIED', 'calls': calls}
            ctx.fail('correspondence', 'coverage: public name %s of the anchored source is neither covered by a stream nor classified as outside the property '
                     '(harness/c11_ext.py CLASSIFY)' % name, None)
        else:
            table[name] = {'class': 'private', 'calls': calls}
    missing = [t for t in REQUIRED_TAGS if TAGS.get(t, 0) == 0]
    for t in missing[:8]:
        ctx.fail('correspondence', 'coverage: option / branch %r was not reached in this run (stratification of the generators broken)' % t, None)
    ctx.cov['C11_api_coverage'] = table
    ctx.cov['C11_option_coverage'] = dict(sorted(TAGS.items()))
    ctx.cov['C11_api_summary'] = {'public_covered': sum(1 for v in table.values() if v['class'] == COVERED),
                                  'public_excluded': sum(1 for v in table.values() if v['class'] == 'excluded'),
                                  'private_reached': sum(1 for v in table.values() if v['class'] == 'private' and v['calls'] > 0),
                                  'private_not_reached': sorted(k for k, v in table.items() if v['class'] == 'private' and v['calls'] == 0),
                                  'option_tags_reached': len(TAGS), 'option_tags_required': len(REQUIRED_TAGS)}
    ctx.assumptions += ['C11 coverage audit: ' + x for x in EXCLUDED_NOTES]
