"""Correspondence stream `swap-sign` of check C09: the sign matrix MPS.swap_sites(i, swap_op='auto') builds for MIXED
neighbouring sites (different type, dimension and JW_exponent vector, both orders) against Model/SwapSign.v
(theorem T09_swap_sign_table), plus an oracle from the documented rule (-1)^(n_i n_{i+1}) with the parities of
mps_gen.std_table.  Runner side: harness/impl/c09_swapsign_run.py (kind 'swapsign' of c07_exec.main)."""
import common
import mps_gen as G
from common import coq_lit, Nat

K_SIGN = 'C09:swap_sites:auto:sign-table-differs-from-documented-(-1)^(n_i*n_j)'
SYN = ['syn:0', 'syn:1', 'syn:01', 'syn:10', 'syn:011', 'syn:100', 'syn:101', 'syn:0110', 'syn:1101', 'syn:00100', 'syn:11']


def doc_parity(kind, SI):
    """parity of every stored basis state, from the documentation (std_table) - not from site.JW_exponent"""
    if kind.startswith('syn:'):
        return [int(c) for c in kind[4:]]
    d, _, par = G.std_table(kind)
    p = SI[kind]['perm']
    return [int(par[p[j]]) for j in range(d)]


def gen_cases(rng, SI, nmax=300):
    cases = []

    def dims(kinds):
        return [len(doc_parity(k, SI)) for k in kinds]

    def add(kinds, bc, i):
        cases.append({'kinds': kinds, 'bc': bc, 'i': i, 'p': [rng.randrange(d) for d in dims(kinds)]})
    # every ordered pair of site kinds with compatible charges, as a 2-site finite chain
    for fam in sorted(G.FAMILIES):
        pool = sorted(G.FAMILIES[fam]) + (SYN[2:8] if fam == 'none' else [])
        for a in pool:
            for b in pool:
                add([a, b], 'finite', 0)
    # pairs of synthetic sites (arbitrary JW vectors, dimensions 1..5)
    for a in SYN:
        for b in SYN:
            if len(cases) < 230 and rng.random() < 0.5:
                add([a, b], 'finite', 0)
    # longer chains, swap in the middle / across the boundary of an infinite unit cell (left site = last site)
    while len(cases) < nmax:
        fam = rng.choice(sorted(G.FAMILIES))
        pool = sorted(G.FAMILIES[fam]) + (SYN if fam == 'none' else [])
        L = rng.randint(2, 4)
        kinds = [rng.choice(pool) for _ in range(L)]
        bc = rng.choice(['finite', 'infinite'])
        i = rng.randrange(L - 1) if bc == 'finite' else rng.choice([L - 1, L - 1, rng.randrange(L), -1])
        add(kinds, bc, i)
    return cases[:nmax]


def swap_sign_stream(ctx, script, rng):
    SI = None
    r, err = common.run_impl(script, {'kind': 'siteinfo', 'kinds': sorted(G.KINDS)})
    if err:
        ctx.fail('correspondence', 'swap-sign: siteinfo runner failed: ' + err[-400:], None)
        return 0
    SI = r
    cases = gen_cases(rng, SI)
    res, err = common.run_impl(script, {'kind': 'swapsign', 'cases': cases})
    if err:
        ctx.fail('correspondence', 'swap-sign runner failed: ' + err[-600:], None)
        return 0
    lits, meta = [], []
    for c, o in zip(cases, res):
        info = {'stream': 'swap-sign', 'case': c, 'impl': {k: v for k, v in o.items() if k != 'tb'}}
        if 'error' in o:
            ctx.fail('correspondence', 'swap-sign: swap_sites raised on a product state of a mixed chain: ' + o['error'] + ' ' + o.get('tb', '')[-300:], info)
            continue
        L = len(c['kinds'])
        kL, kR = c['kinds'][c['i'] % L], c['kinds'][(c['i'] + 1) % L]
        jwL, jwR, op = o['jwL'], o['jwR'], o['op']
        if jwL is None or jwR is None or (op is not None and op['flat'] is None):
            ctx.fail('correspondence', 'swap-sign: JW exponents or swap operator entries are not integers', info)
            continue
        # ---- oracle from the documentation: diagonal (-1)^(n_i n_j), n_i of the LEFT site, index a*dR+b; None allowed
        # (only) when it is the identity; outgoing leg 'p0' carries the state of the former right site
        pL, pR = doc_parity(kL, SI), doc_parity(kR, SI)
        dL, dR = len(pL), len(pR)
        ok = o['sites_swapped']
        if op is None:
            ok = ok and not any(x * y for x in pL for y in pR)
        else:
            want = [0] * (dR * dL * dL * dR)
            for a in range(dL):
                for b in range(dR):
                    want[((b * dL + a) * dL + a) * dR + b] = -1 if (pL[a] * pR[b]) % 2 else 1
            ok = ok and op['shape'] == [dR, dL, dL, dR] and op['flat'] == want and o.get('legs_ok') and o.get('same_op_both')
        if not ok:
            ctx.fail('oracle', 'swap_sites(%d, "auto") between %s and %s: the swap operator contracted with theta is not '
                     'diag((-1)^(n_i n_j)) with n_i of the left and n_j of the right site (legs p0,p1,p0*,p1* = right,left,left,right)'
                     % (c['i'], kL, kR), info, match_key=K_SIGN)
        nontriv = op is not None and (dL != dR or pL != pR)
        ctx.count('swap-sign', [c['kinds'], c['bc'], c['i']], nontrivial=bool(nontriv),
                  sample={'left': kL, 'right': kR, 'jwL': jwL, 'jwR': jwR, 'used': None if op is None else 'diag'})
        impl = None if op is None else common.Some(([Nat(x) for x in op['shape']], op['flat']))
        lits.append(coq_lit((jwL, jwR, impl)))
        meta.append(info)
    if lits:
        bad, err = common.coq_failing_indices('c09_swapsign', ['Base.Prelude', 'Model.Perms', 'Model.SwapSign'], 'check_swap_sign_case', lits)
        if err:
            ctx.fail('correspondence', 'swap-sign: model evaluation failed: ' + err[-500:], None)
        for b in bad[:3]:
            ctx.fail('correspondence', 'Model/SwapSign.v and the swap operator MPS.swap_sites(swap_op="auto") contracts with theta disagree '
                     '(JW exponents of get_site(i) / get_site(i+1), shape and entries in label order p0,p1,p0*,p1*)', meta[b])
    return len(lits)
