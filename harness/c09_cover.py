"""Coverage bookkeeping of check C09: which public names of the anchored classes of tenpy/networks/mps.py the check
exercises (CLASSIFY), which option values of the transformation methods have to be reached in every run (OPTION_SPACE),
and which statements of these methods were executed inside the runner processes (line table from c09_cov_run).
Everything is read from the source of the tree under test by AST, so a new public method / a new parameter that is
neither exercised nor classified is reported as a correspondence failure."""
import ast
import os

import common

ANCHOR_CLASSES = ('MPSGeometry', 'BaseMPSExpectationValue', 'MPS')

# ------------------------------------------------------------------------------------------------ public names
# name -> ('C09', note) : exercised by this check, lines recorded;  ('other', reason) : deliberately not a subject of C09
_C09 = {
    'apply_local_op': 'streams finite / infinite / segment / fermi-terms',
    'apply_product_op': 'streams finite / infinite / segment / fermi-terms',
    'apply_local_term': 'streams finite / infinite / segment / fermi-terms',
    'swap_sites': 'streams finite / infinite / segment, swap-sign',
    'permute_sites': 'streams finite / infinite / segment',
    'compute_K': 'stream infinite (op compute_K)',
    'add': 'streams finite / segment, add-blocks',
    'compress': 'streams finite / infinite',
    'compress_svd': 'streams finite / infinite',
    'enlarge_chi': 'streams finite / infinite / segment',
    'subspace_expansion': 'stream finite',
    'perturb': 'streams finite / infinite',
    'group_sites': 'streams finite / infinite / segment',
    'group_split': 'streams finite / infinite / segment',
    'get_grouped_mps': 'streams finite / infinite',
    'spatial_inversion': 'streams finite / infinite / segment',
    'enlarge_mps_unit_cell': 'stream infinite',
    'roll_mps_unit_cell': 'stream infinite',
    'extract_segment': 'streams finite / infinite / segment (op extract_segment), constructor of the stream segment',
    'extract_enlarged_segment': 'stream segment (op extract_enlarged_segment)',
    'gauge_total_charge': 'streams finite / infinite / segment',
    'copy': 'every stream (op fork: the history continues on the copy, the original is observed again at the end)',
    'outer_virtual_legs': 'helper of add (segment / finite)',
    'apply_JW_string_left_of_virt_leg': 'helper of apply_local_op / apply_local_term (fermi-terms)',
}
_OTHER = {
    'constructor / storage (C07)': [
        'from_Bflat', 'from_desired_bond_dimension', 'from_full', 'from_hdf5', 'from_lat_product_state', 'from_product_mps_covering',
        'from_product_state', 'from_random_unitary_evolution', 'from_singlets', 'project_onto_charge_sector', 'save_hdf5', 'test_sanity'],
    'canonical forms and tensor accessors (C07)': [
        'canonical_form', 'canonical_form_finite', 'canonical_form_infinite1', 'canonical_form_infinite2', 'convert_form', 'get_B', 'set_B',
        'get_SL', 'get_SR', 'set_SL', 'set_SR', 'get_theta', 'set_svd_theta', 'norm_test', 'get_total_charge', 'entanglement_entropy',
        'entanglement_spectrum', 'L', 'dim', 'finite', 'chi', 'nontrivial_bonds', 'N_sites_per_hor_spacing', 'get_site', 'get_op',
        'shift_charges_unit_cells', 'shift_Site_unit_cells', 'shift_Array_unit_cells', 'get_charge_tree_for_given_charge_sector'],
    'measurement (C08)': [
        'expectation_value', 'expectation_value_multi_sites', 'expectation_value_term', 'expectation_value_terms_sum', 'correlation_function',
        'term_correlation_function_right', 'term_correlation_function_left', 'term_list_correlation_function_right', 'overlap',
        'overlap_translate_finite', 'get_rho_segment', 'mutinf_two_site', 'probability_per_charge', 'average_charge', 'charge_variance',
        'sample_measurements', 'entanglement_entropy_segment', 'entanglement_entropy_segment2', 'correlation_length', 'correlation_length2',
        'correlation_length_charge_sectors'],
}
CLASSIFY = {n: ('C09', t) for n, t in _C09.items()}
for _g, _names in _OTHER.items():
    for _n in _names:
        CLASSIFY[_n] = ('other', _g)

# private helpers whose lines are recorded as well
TRACE_PRIVATE = ['BaseMPSExpectationValue._term_to_ops_list', 'MPS._gauge_compatible_vL_vR', 'site:group_sites']


def reflect(repo=None):
    """{class: {public name: [parameter names]}} and {qualified name: (sorted statement lines, {line: source text})} of
    tenpy/networks/mps.py (+ the function group_sites of site.py) of the tree under test"""
    repo = repo or common.REPO
    out, stm = {}, {}
    for fn, prefix in (('tenpy/networks/mps.py', ''), ('tenpy/networks/site.py', 'site:')):
        src = open(os.path.join(repo, fn)).read()
        lines = src.split('\n')
        tree = ast.parse(src)

        def record(qual, node):
            body = list(node.body)
            if body and isinstance(body[0], ast.Expr) and isinstance(getattr(body[0], 'value', None), ast.Constant) and \
                    isinstance(body[0].value.value, str):
                body = body[1:]
            ls = set()
            for b in body:
                for x in ast.walk(b):
                    if isinstance(x, ast.stmt):
                        ls.add(x.lineno)
            stm[qual] = (sorted(ls), {l: lines[l - 1].strip() for l in ls})
        for n in tree.body:
            if isinstance(n, ast.ClassDef) and not prefix:
                d = {}
                for m in n.body:
                    if isinstance(m, ast.FunctionDef):
                        if not m.name.startswith('_'):
                            d[m.name] = [a.arg for a in m.args.posonlyargs + m.args.args + m.args.kwonlyargs if a.arg not in ('self', 'cls')] + \
                                ([m.args.kwarg.arg] if m.args.kwarg else [])
                        record('%s.%s' % (n.name, m.name), m)
                out[n.name] = d
            elif isinstance(n, ast.FunctionDef) and prefix:
                record(prefix + n.name, n)
    return out, stm


def trace_names(refl):
    names = []
    for cname in ANCHOR_CLASSES:
        for fn in refl.get(cname, {}):
            if CLASSIFY.get(fn, ('?',))[0] == 'C09':
                names.append('%s.%s' % (cname, fn))
    return names + TRACE_PRIVATE


# ------------------------------------------------------------------------------------------------ option space
# method -> parameter -> list of value classes every run has to reach (as logged by the runner for calls whose result
# is compared with the reference), or a string = classified as not drawn (reason).  '<bc>' = boundary conditions.
BCF, BCI, BCS = 'finite', 'infinite', 'segment'
OPTION_SPACE = {
    'apply_local_op': {'i': ['0', 'last', 'inner', 'negative', 'beyond-cell'], 'op': ['name', 'name-JW', 'Array:1', 'Array:2', 'Array:3', 'Array:legs-permuted'],
                       'unitary': ['default', 'None', 'True', 'False', 'False-on-unitary'], 'renormalize': ['default', 'False', 'True'],
                       'cutoff': ['default', '1e-10', '1e-15'], 'understood_infinite': ['default', 'True', 'False'], '<bc>': [BCF, BCI, BCS]},
    'apply_product_op': {'ops': ['list:L', 'list:divisor', 'single:name', '?single:Array'], 'unitary': ['default', 'None', 'True', 'False'],
                         'renormalize': ['default', 'False', 'True'], '<bc>': [BCF, BCI, BCS]},
    'apply_local_term': {'term': ['len1', 'len2', 'len3+', 'same-site', 'odd-JW', 'even-JW'], 'autoJW': ['default', 'True', 'False'],
                         'i_offset': ['default', '0', 'positive', 'negative'], 'canonicalize': ['default', 'True', 'False'],
                         'renormalize': ['default', 'False', 'True'], '<bc>': [BCF, BCI, BCS]},
    'swap_sites': {'i': ['0', 'last', 'inner', 'cell-boundary', 'beyond-cell'], 'swap_op': ['default', 'auto', 'autoInv', 'None', 'Array'],
                   'trunc_par': ['default', 'None', 'loose', 'truncating'], '<bc>': [BCF, BCI, BCS]},
    'permute_sites': {'perm': ['identity', 'transposition', 'cyclic', 'reversal', 'generic', 'ndarray'], 'swap_op': ['default', 'auto', 'autoInv', 'None', 'Array'],
                      'trunc_par': ['default', 'None', 'loose', 'truncating'], '<bc>': [BCF, BCI, BCS]},
    'compute_K': {'perm': ['list', 'ndarray', 'Lattice'], 'swap_op': ['default', 'auto', 'None'], 'trunc_par': ['default', 'loose'],
                  'canonicalize': ['default', 'tiny'], 'expected_mean_k': ['default', 'nonzero'], '<bc>': [BCI]},
    'add': {'other': ['MPS', 'self', 'other-form', 'other-charge-gauge'], 'alpha': ['real', 'complex', '0', '1'], 'beta': ['real', 'complex', '0', '1'],
            'cutoff': ['default', '1e-15', '1e-10', 'None'], '<bc>': [BCF, BCS]},
    'compress': {'options': ['SVD', 'variational'], '<bc>': [BCF, BCI]},
    'compress_svd': {'trunc_par': ['chi_max', 'svd_min', 'trunc_cut', 'no-truncation'], '<bc>': [BCF, BCI]},
    'enlarge_chi': {'extra_legs': ['int', 'int:0-only', 'None', 'LegCharge'], 'random_fct': ['default', 'RandomState.normal'], '<bc>': [BCF, BCI, BCS]},
    'subspace_expansion': {'expand_into': ['default', 'empty', 'MPS:1', 'MPS:2'], 'trunc_par': ['default', 'chi_max', 'svd_min'], '<bc>': [BCF]},
    'perturb': {'randomize_params': ['default', 'None', 'dict'], 'close_1': ['default', 'True', 'False'], 'canonicalize': ['default', 'None', 'True', 'False'],
                '<bc>': [BCF, BCI]},
    'group_sites': {'n': ['default', '2', '3', 'L', 'not-dividing-L'], 'grouped_sites': ['default', 'None', 'list'], '<bc>': [BCF, BCI, BCS]},
    'group_split': {'trunc_par': ['default', 'None', 'loose', 'truncating'], '<bc>': [BCF, BCI, BCS]},
    'get_grouped_mps': {'blocklen': ['2', '3'], '<bc>': [BCF, BCI]},
    'spatial_inversion': {'<recorded boundaries of a segment>': ['none', 'recorded'], '<bc>': [BCF, BCI, BCS]},
    'enlarge_mps_unit_cell': {'factor': ['default', '2', '3'], '<bc>': [BCI]},
    'roll_mps_unit_cell': {'shift': ['default', '0', '1', '-1', 'L', 'other'], '<bc>': [BCI]},
    'extract_segment': {'first': ['0', 'inner', 'negative'], 'last': ['L-1', 'inner', 'beyond-cell'],
                        '<recorded boundaries of a segment>': ['none', 'kept-left', 'kept-right', 'dropped'], '<bc>': [BCF, BCI, BCS]},
    'extract_enlarged_segment': {'psi_left': ['MPS'], 'psi_right': ['MPS'], 'first': ['<int>'], 'last': ['<int>'], 'add_unitcells': ['default', 'int', 'pair'],
                                 'new_first_last': ['default', 'pair', 'unchanged', 'one-side', 'both-sides', 'whole-finite-chain'], 'cutoff': ['default', '1e-12'], '<bc>': [BCS]},
    'gauge_total_charge': {'qtotal': ['default', 'None', 'charge', 'list'], 'vL_leg': ['default', 'None', 'LegCharge'], 'vR_leg': ['default', 'None', 'LegCharge'],
                           '<bc>': [BCF, BCI, BCS]},
    'copy': {'<bc>': [BCF, BCI, BCS]},
    'outer_virtual_legs': 'no parameters; reached through add',
    'apply_JW_string_left_of_virt_leg': 'helper: theta / virt_leg_index / i are chosen by apply_local_op and apply_local_term',
}


def value_reached(pattern, values):
    if pattern == '<int>':
        return any(v.lstrip('-').isdigit() for v in values)
    return pattern in values


def missing_classes(refl, optlog):
    """[(method, parameter, class)] of the required value classes that no call has received yet"""
    out = []
    for cname in ANCHOR_CLASSES:
        for fn, params in refl.get(cname, {}).items():
            space = OPTION_SPACE.get(fn)
            if CLASSIFY.get(fn, ('?',))[0] != 'C09' or not isinstance(space, dict):
                continue
            for pn, want in space.items():
                if isinstance(want, list):
                    got = optlog.get(fn, {}).get(pn, {})
                    out += [(fn, pn, w) for w in want if not w.startswith('?') and not value_reached(w, got)]
    return out


def option_coverage(refl, optlog):
    """-> (rows for the evidence, complaints)"""
    rows, missing = {}, []
    seen = {}
    for cname in ANCHOR_CLASSES:
        for fn, params in sorted(refl.get(cname, {}).items()):
            seen[fn] = params
            name = '%s.%s' % (cname, fn)
            cl = CLASSIFY.get(fn)
            if cl is None:
                missing.append('%s(%s): public name of an anchored class that is neither exercised by C09 nor classified' % (name, ', '.join(params)))
                rows[name] = 'NOT COVERED'
                continue
            if cl[0] == 'other':
                rows[name] = 'not a subject of C09: ' + cl[1]
                continue
            space = OPTION_SPACE.get(fn)
            if space is None:
                missing.append('%s: exercised method without option space' % name)
                continue
            if isinstance(space, str):
                rows[name] = space
                continue
            reached = optlog.get(fn, {})
            row = {}
            for pn in list(params) + [k for k in space if k.startswith('<')]:
                want = space.get(pn)
                if want is None:
                    missing.append('%s: parameter %r is neither drawn from an option space nor classified' % (name, pn))
                    row[pn] = 'NOT COVERED'
                elif isinstance(want, str):
                    row[pn] = 'not drawn: ' + want
                else:
                    got = reached.get(pn, {})
                    row[pn] = dict(sorted(got.items(), key=lambda kv: -kv[1])[:14])
                    lack = [w for w in want if not w.startswith('?') and not value_reached(w, got)]     # ('?': drawn, not required)
                    if lack:
                        missing.append('%s: parameter %s: value classes %s not reached (reached: %s)' % (name, pn, lack, sorted(got)[:12]))
            for pn in space:
                if not pn.startswith('<') and pn not in params:
                    missing.append('%s: parameter %r of the option space is not a parameter of the method any more' % (name, pn))
            rows[name] = row
    for fn, cl in CLASSIFY.items():
        if cl[0] == 'C09' and fn not in seen:
            missing.append('%s: method exercised by C09 does not exist in the anchored classes any more' % fn)
    return rows, missing


def line_table(stm, cov_lines, names):
    """per recorded function: statements, reached, unreached source lines"""
    rows = {}
    for name in names:
        if name not in stm:
            continue
        all_l, text = stm[name]
        hit = set(cov_lines.get(name, []))
        un = [l for l in all_l if l not in hit]
        rows[name] = {'statements': len(all_l), 'reached': len(all_l) - len(un), 'unreached': ['%d: %s' % (l, text[l][:90]) for l in un]}
    return rows
