"""C03, stream `mps-history`: random histories at the level of tenpy.networks.mps.MPS (constructor from the caller's tensors,
get_B(i, form, copy), set_B, measurements, operations - in particular in-place methods - on returned tensors), executed by
harness/impl/c03_mpshist_impl.py and replayed on the MPS layer of the store model (coq/Model/StoreMps.v) by
coq/Model/StoreMpsCheck.v `check_mps_history`.  The generator tracks object identities (which register is which stored tensor) only to
steer the histories towards aliasing (in-place methods on tensors that ARE stored tensors or share their buffers); the expected
change sets come from the Coq model alone."""
import common
from common import coq_lit, Nat, Some

FORMS = {'B': (0, 2), 'A': (2, 0), 'C': (1, 1), 'G': (0, 0), 'Th': (2, 2)}
MEAS = ['expectation_value', 'entanglement_entropy', 'overlap', 'get_theta', 'norm_test', 'correlation_function', 'copy',
        'expectation_value_multi']
IMPORTS = ['Base.Prelude', 'Model.Store', 'Model.StoreMps', 'Model.StoreMpsCheck']


def gen_case(rng):
    L = rng.choice([2, 3, 3, 4])
    forms = [rng.choice(['B', 'B', 'A', 'C', 'G', 'Th', None]) for _ in range(L)]
    orders = [rng.choice([[0, 1, 2], [0, 1, 2], [1, 0, 2], [2, 1, 0], [1, 2, 0]]) for _ in range(L)]
    case = {'L': L, 'conserve': rng.choice(['Sz', 'Sz', 'parity', 'None']), 'chi': rng.choice([2, 3, 4]), 'seed': rng.randrange(10 ** 6),
            'forms': forms, 'orders': orders, 'steps': []}
    # generator-side bookkeeping: object identity, site class and label order of every register
    nobj = [0]

    def fresh():
        nobj[0] += 1
        return nobj[0]
    regs = [{'oid': fresh(), 'site': j} for j in range(L)]           # the caller's tensors
    order = {r['oid']: tuple(orders[j]) for j, r in enumerate(regs)}
    site_oid = [fresh() for _ in range(L)]                            # the constructor copies
    for o in site_oid:
        order[o] = (0, 1, 2)
    cur = list(forms)

    def stored_regs():
        return [k for k, r in enumerate(regs) if r['oid'] in site_oid]

    for _ in range(rng.randint(6, 14)):
        x = rng.random()
        if x < 0.30 or len(regs) == L and x < 0.5:
            i = rng.randrange(L)
            fm = rng.choice([None, 'B', 'A', 'C', 'G', 'Th', cur[i], cur[i]])
            cp = rng.random() < 0.35
            raises = fm is not None and cur[i] is None
            case['steps'].append({'op': 'get', 'i': i, 'form': fm, 'copy': cp, 'expect_raise': raises})
            if not raises:
                if not cp and (fm is None or fm == cur[i]):
                    regs.append({'oid': site_oid[i], 'site': i})
                else:
                    o = fresh()
                    order[o] = order[site_oid[i]]
                    regs.append({'oid': o, 'site': i})
        elif x < 0.42:
            i = rng.randrange(L)
            cand = [k for k, r in enumerate(regs) if r['site'] == i]
            b = rng.choice(cand)
            fm = rng.choice(['B', 'A', 'C', None, cur[i]])
            case['steps'].append({'op': 'set', 'i': i, 'b': b, 'form': fm})
            site_oid[i] = regs[b]['oid']
            order[regs[b]['oid']] = (0, 1, 2)
            cur[i] = fm
        elif x < 0.56:
            case['steps'].append({'op': 'meas', 'name': rng.choice(MEAS), 'i': rng.randrange(L - 1)})
        elif x < 0.80:
            # in-place method, preferably through an alias of a stored tensor
            st = stored_regs()
            a = rng.choice(st) if st and rng.random() < 0.7 else rng.randrange(len(regs))
            k = rng.choice(['iscale', 'iscale', 'itranspose', 'iadd'])
            oa = regs[a]['oid']
            if k == 'iadd':
                cand = [j for j, r in enumerate(regs) if r['site'] == regs[a]['site'] and order[r['oid']] == order[oa]]
                case['steps'].append({'op': 'iadd', 'a': a, 'b': rng.choice(cand)})
            elif k == 'itranspose':
                perm = rng.choice([[1, 0, 2], [2, 1, 0], [0, 2, 1], [1, 2, 0]])
                case['steps'].append({'op': 'itranspose', 'a': a, 'perm': perm})
                order[oa] = tuple(order[oa][p] for p in perm)
            else:
                case['steps'].append({'op': 'iscale', 'a': a})
            regs.append({'oid': oa, 'site': regs[a]['site']})
        else:
            a = rng.randrange(len(regs))
            k = rng.choice(['copy_deep', 'copy_shallow', 'copy_shallow', 'mul', 'add'])
            oa = regs[a]['oid']
            if k == 'add':
                cand = [j for j, r in enumerate(regs) if r['site'] == regs[a]['site'] and order[r['oid']] == order[oa]]
                case['steps'].append({'op': 'add', 'a': a, 'b': rng.choice(cand)})
            else:
                case['steps'].append({'op': k, 'a': a})
            o = fresh()
            order[o] = order[oa]
            regs.append({'oid': o, 'site': regs[a]['site']})
    return case


def natl(xs):
    return common.CoqRaw('[' + '; '.join('%d%%nat' % x for x in xs) + ']' if xs else '(@nil nat)')


def form_lit(f):
    """'B' / None / [2 nuL, 2 nuR] -> Coq `form`"""
    if f is None:
        return common.CoqRaw('(@None (Z * Z))')
    if isinstance(f, str):
        f = FORMS[f]
    return common.CoqRaw('(Some ((%d)%%Z, (%d)%%Z))' % (f[0], f[1]))


def hop_of(op, cfg):
    if op == 'copy_deep':
        return 'HCopy true'
    if op == 'copy_shallow':
        return 'HCopy false'
    if op == 'iscale':
        return 'HMapWrite' if cfg == 'cy' else 'HRebind'      # compiled: writes INTO the buffers; python: binds fresh blocks
    if op == 'iadd':
        return 'HBinWrite' if cfg == 'cy' else 'HRebind'
    if op == 'itranspose':
        return 'HMeta'
    if op == 'mul':
        return 'HUnary'
    if op == 'add':
        return 'HAdd'
    raise KeyError(op)


def case_literal(case, res, cfg):
    """-> (Coq literal or None, problems).  The literal contains what the implementation did and observed."""
    probs = []
    L = case['L']
    if res.get('init_same') and any(res['init_same']):
        probs.append('MPS.__init__ stored the caller\'s tensor object itself')
    news = [(Nat(max(1, min(nb, 30))), natl([3 * j, 3 * j + 1, 3 * j + 2])) for j, nb in enumerate(res['nblocks'])]
    bs = [(Nat(j), natl(res['perms'][j])) for j in range(L)]
    fms = [form_lit(f) for f in case['forms']]
    steps = []
    for st, rec in zip(case['steps'], res['steps']):
        if 'desync' in rec:
            probs.append('step %s: %s' % (st, rec['desync']))
            break
        op = st['op']
        if op == 'get':
            o = 'MHGet %d%%nat %s %s %s %s %s' % (st['i'], form_lit(st['form']), coq_lit(bool(st['copy'])), coq_lit(bool(rec['raised'])),
                                               coq_lit(bool(rec.get('same', False))), coq_lit(bool(rec.get('shares', False))))
        elif op == 'set':
            if not rec.get('stored_is_arg'):
                probs.append('step %s: set_B did not store the caller\'s tensor object itself (Model/StoreMps.v set_B stores the reference)' % st)
            o = 'MHSet %d%%nat %d%%nat %s %s' % (st['i'], st['b'], form_lit(st['form']), natl(rec['perm']))
        elif op == 'meas':
            gets = ['(%d%%nat, %s, %s)' % (g[0], form_lit(g[1]), coq_lit(bool(g[2]))) for g in rec['gets'][:200]]
            o = 'MHMeas ' + ('[' + '; '.join(gets) + ']' if gets else '(@nil (nat * form * bool))')
        else:
            o = 'MHOp %s %d%%nat %d%%nat' % ('(' + hop_of(op, cfg) + ')', st['a'], st.get('b', 0))
        steps.append('((%s), %s, %s)' % (o, natl(rec['changed_regs']), natl(rec['changed_sites'])))
    if len(res['steps']) != len(case['steps']) and not probs:
        probs.append('runner executed %d of %d steps' % (len(res['steps']), len(case['steps'])))
    lit = '(mk_mps_hist_case (%d%%nat, %s, %s, %s, (%s, %s), %s))' % (
        3 * L, coq_lit(news), coq_lit(bs), coq_lit(fms), natl(res['init_changed']), coq_lit([bool(x) for x in res['init_shares']]),
        '[' + '; '.join(steps) + ']' if steps else '(@nil mh_step)')
    return lit, probs


def run_stream(ctx, n_quick=120, n_thorough=600, mult=1):
    """generate, run in both configurations (half of the cases each), compare with the model"""
    rng = ctx.rng
    if ctx.replay_in:
        import json
        doc = (json.load(open(ctx.replay_in)).get('input') or {})
        if doc.get('stream') != 'mps-history':
            return []
        parts = [(doc.get('config', 'py'), [doc['case']])]
    else:
        cases = [gen_case(rng) for _ in range(ctx.pick(n_quick, n_thorough) * mult)]
        half = len(cases) // 2
        parts = [('py', cases[:half]), ('cy', cases[half:])]
    lits, src = [], []
    stat = {}
    for cfg, part in parts:
        nchunk = max(1, min(4, len(part) // 10))
        chunks = [part[k::nchunk] for k in range(nchunk)]
        outs = common.run_impl_parallel('c03_impl.py', [{'cases': [['mpshist', c] for c in ch]} for ch in chunks], config=cfg)
        for k, (r, err) in enumerate(outs):
            if err or r['info'].get('have_cython') != (cfg == 'cy'):
                ctx.fail('correspondence', 'mps-history runner failed (%s): %s' % (cfg, (err or str(r['info']))[-600:]), None)
                continue
            for j, x in enumerate(r['results']):
                c = chunks[k][j]
                info = {'stream': 'mps-history', 'config': cfg, 'case': c}
                if not isinstance(x, dict) or 'steps' not in x:
                    ctx.fail('correspondence', 'mps-history runner failed (%s): %s' % (cfg, str(x)[-600:]), info)
                    continue
                inplace = sum(1 for s in c['steps'] if s['op'] in ('iscale', 'itranspose', 'iadd'))
                hit = sum(1 for rec in x['steps'] if rec.get('changed_sites'))
                ctx.count('mps-history-' + cfg, c, nontrivial=inplace > 0 or hit > 0,
                          sample={'ops': [s['op'] for s in c['steps']], 'changed_sites': [rec.get('changed_sites') for rec in x['steps']]})
                for s, rec in zip(c['steps'], x['steps']):
                    key = s['op'] + ('!' if rec.get('raised') else '') + ('*' if rec.get('changed_sites') else '')
                    stat[key] = stat.get(key, 0) + 1
                lit, probs = case_literal(c, x, cfg)
                for p in probs[:2]:
                    ctx.fail('correspondence', '[%s] mps-history: %s' % (cfg, p), dict(info, report=x))
                lits.append(lit)
                src.append((cfg, c, x))
    bad, err = common.coq_failing_indices('cases_c03_mh', IMPORTS, 'check_mps_history', lits, shard=60)
    if err:
        ctx.fail('correspondence', 'model evaluation failed (mps-history): ' + err[-600:], None)
    for b in bad[:6]:
        cfg, c, x = src[b]
        ctx.fail('correspondence', '[%s] Model/StoreMps.v and the MPS-level history disagree: a register or a stored tensor psi._B[j] changed '
                 'that the model does not allow to change (may_change / frame of get_B, set_B, measurements), or get_B raised / returned '
                 'the stored object / a tensor sharing its memory where the model says otherwise' % cfg,
                 {'stream': 'mps-history', 'config': cfg, 'case': c, 'report': x})
    ctx.cov['mps_histories_validated_against_model'] = len(lits)
    ctx.cov['mps_history_steps'] = stat
    return lits
