"""C09 - MPS transformations implement the documented map on states.

proof gate (coq/Props/C09.v: permute_sites loop / arrangement / fermionic sign, spatial_inversion, roll, enlarge on
labels+exponents+dimensions)  +  correspondence (sequence of adjacent swaps performed by permute_sites and the final
site arrangement against Model/Perms.v; labels and dimensions after roll / enlarge / inversion / convert_form against
Model/MpsForm.v)  +  oracle: the dense state (finite; numpy only) resp. explicit unit-cell tensors contracted with
the transfer matrix (infinite) are transformed by the DOCUMENTED map and compared with the MPS after every operation
(psi.norm included), for states in every stored form and with non-uniform bond dimensions.

streams
  finite / infinite / fermi-terms   random histories (generators below)
  options-finite / -infinite / -segment   stratified (harness/c09_ext.py): every value class of every parameter of every
            transformation method (table c09_cover.OPTION_SPACE; incl. compute_K, perturb, subspace_expansion, get_grouped_mps,
            extract_segment, extract_enlarged_segment, gauge_total_charge, copy) on every boundary condition it documents -
            finite chains, infinite unit cells, SEGMENTS of finite and infinite states (dense state U_L.theta.V_R in the original
            bases of the outer legs) - each call between earlier operations and later ones that use its result; objects returned
            by copy / get_grouped_mps / add / extract_segment / extract_enlarged_segment are continued while a bitwise fingerprint
            of the original is compared again at the end (aliasing)
  refusals  calls the documentation excludes have to raise and leave the state as it was
coverage (evidence + correspondence failures): public names of MPSGeometry / BaseMPSExpectationValue / MPS read from the source
  of the tree under test have to be exercised here or classified (c09_cover.CLASSIFY); every parameter of an exercised method
  needs an option space all of whose value classes were received by calls in this run (logged inside the runner); the
  statements of the exercised methods executed in the runner processes are listed (sys.monitoring) with the unreached ones.
"""
import os
for _v in ('OMP_NUM_THREADS', 'OPENBLAS_NUM_THREADS', 'MKL_NUM_THREADS'):
    os.environ.setdefault(_v, '1')
import numpy as np  # noqa: E402

import common  # noqa: E402
import mps_gen as G  # noqa: E402
import c07  # noqa: E402
import c09_addblocks  # noqa: E402
import c09_swapsign  # noqa: E402
import c09_cover  # noqa: E402
import c09_ext  # noqa: E402
from common import coq_lit, Nat  # noqa: E402

TOL = 5e-9
K_ROLL = 'C09:roll_mps_unit_cell:stored-forms-not-all-B'
K_INV = 'C09:spatial_inversion:infinite:_S-reversed-instead-of-mirrored-around-bond-0'
K_GROUP = 'C09:group_sites:last-group-has-one-site:get_theta(n=1)-ignores-formL-formR'
K_ADD = 'C09:add:same-charge-sector:per-tensor-qtotal-differs:ValueError-wrong-qtotal'
K_CPLX = 'C09:apply_local_op:infinite:complex-nonunitary-op-on-real-iMPS:canonical_form_infinite1-result-not-canonical'
K_VAR = 'C09:compress:variational:reported-max_trunc_err-is-that-of-the-last-sweep-only'
K_SINV = 'C09:spatial_inversion:segment-with-recorded-boundaries:segment_boundaries-not-mirrored'
K_ALIAS = 'C09:enlarge_mps_unit_cell:copies-of-the-unit-cell-share-tensor-objects:later-in-place-update-acts-on-both:psi.norm'
K_SUBEXP = 'C09:subspace_expansion:conserved-charges:singular-values-not-reordered-with-the-bond-basis'
K_SINGLE = 'C09:apply_product_op:ops-is-a-single-npc-Array:TypeError-no-len'
K_EES = 'C09:extract_enlarged_segment:one-side-unchanged:segment_boundaries-overwritten-with-old-ones'
K_ENL = 'C09:enlarge_chi:int-extra:mod-N-charge:vL-leg-with-qconj=-1(after-spatial_inversion):invalid-charge'
REFUSALS = ('QR for Gram-Schmidt messed up charges', "can't extract JW signs from the charges")


def mat_json(m):
    m = np.asarray(m, dtype=complex)
    return [m.real.tolist(), m.imag.tolist()]


def cplx(x):
    return complex(x[0], x[1])


# ------------------------------------------------------------------------------------------------ op generation

def named_ops(S, i, want_jw=None):
    names = [n for n in S.SI[S.kinds[i]]['ops'] if n not in ('Id', 'JW', 'JWu', 'JWd')]
    if want_jw is not None:
        names = [n for n in names if S.needs_JW(i, n) == want_jw]
    return sorted(names)


def is_unitary(m):
    return np.linalg.norm(m @ m.conj().T - np.eye(len(m))) < 1e-10


def gen_finite_ops(rng, nrng, S, nops, Q0=None):
    """random C09 history for a finite chain; returns list of ops (JSON) - the sites object is updated by
    permutations on the fly (kinds move with the sites)"""
    ops = []
    kinds = list(S.kinds)
    SI = S.SI
    charge_changed = False
    for _ in range(nops):
        Sx = G.Sites(kinds, SI)
        L = len(kinds)
        r = rng.random()
        fermionic = any(p.any() for p in Sx.par)
        # chains mixing fermionic and other sites: the shared charge does not determine the fermion parity, which is
        # the documented precondition of a Jordan-Wigner string that is open to the left -> no odd operators there
        mixed = fermionic and not all(p.any() for p in Sx.par)
        if r < 0.10:
            ops.append({'op': 'convert_form', 'forms': G.gen_forms(rng, L)})
        elif r < 0.30:
            i = rng.randrange(L)
            k = rng.random()
            renorm = rng.random() < 0.4
            if k < 0.35:
                cand = named_ops(Sx, i)
                if not cand:
                    continue
                name = rng.choice(cand)
                m = Sx.op(i, name)
                if np.linalg.norm(m) < 1e-12 or (mixed and Sx.needs_JW(i, name)):
                    continue
                ops.append({'op': 'apply_local_op', 'i': i, 'name': name, 'unitary': None, 'renormalize': renorm})
                charge_changed = True
            elif k < 0.6:
                uni = rng.random() < 0.5
                m = G.random_gate(nrng, Sx, [i], True, unitary=uni)
                ops.append({'op': 'apply_local_op', 'i': i, 'n': 1, 'mat': mat_json(m),
                            'unitary': rng.choice([None, uni]), 'renormalize': renorm})
            elif L >= 2:
                i = rng.randrange(L - 1)
                n = 2 if (L < 3 or rng.random() < 0.7) else 3
                i = min(i, L - n)
                uni = rng.random() < 0.5
                m = G.random_gate(nrng, Sx, list(range(i, i + n)), True, unitary=uni)
                ops.append({'op': 'apply_local_op', 'i': i, 'n': n, 'mat': mat_json(m),
                            'unitary': rng.choice([None, uni]), 'renormalize': renorm})
        elif r < 0.38:
            lst = []
            for i in range(L):
                k = rng.random()
                if k < 0.3:
                    lst.append('Id')
                elif k < 0.6:
                    cand = named_ops(Sx, i, want_jw=False)
                    lst.append(rng.choice(cand) if cand else 'Id')
                    charge_changed = True
                else:
                    lst.append(mat_json(G.random_gate(nrng, Sx, [i], True, unitary=rng.random() < 0.5)))
            ops.append({'op': 'apply_product_op', 'ops': lst, 'unitary': None, 'renormalize': rng.random() < 0.4})
        elif r < 0.48:
            nterm = rng.randint(1, 3)
            term = []
            off = rng.choice([0, 0, 1, -1, 2, -2, L])       # the term is given relative to the offset
            for _t in range(nterm):
                i = rng.randrange(L)
                cand = named_ops(Sx, i)
                if cand:
                    term.append([rng.choice(cand), i - off])
            if mixed and sum(1 for nm, i in term if Sx.needs_JW(i + off, nm)) % 2 == 1:
                continue
            if term:
                charge_changed = True
                ops.append({'op': 'apply_local_term', 'term': term, 'autoJW': True, 'i_offset': off, 'canonicalize': True,
                            'renormalize': rng.random() < 0.4})
        elif r < 0.58 and L >= 2:
            i = rng.randrange(L - 1)
            so = 'auto' if (fermionic or rng.random() < 0.7) else None
            ops.append({'op': 'swap_sites', 'i': i, 'swap_op': so})
            kinds[i], kinds[i + 1] = kinds[i + 1], kinds[i]
        elif r < 0.68 and L >= 2:
            perm = list(range(L))
            rng.shuffle(perm)
            ops.append({'op': 'permute_sites', 'perm': perm})
            new = [None] * L
            for a, p in enumerate(perm):
                new[p] = kinds[a]
            kinds = new
        elif r < 0.76:
            if charge_changed and Sx.mod:
                continue          # the other state must live in the same charge sector
            other = {'bc': 'finite', 'sites': list(kinds),
                     'build': G.gen_finite_build(rng, kinds, allow=['full', 'full_sparse'])}
            other['build']['normalize'] = True
            other['build']['Q'] = Q0
            ops.append({'op': 'add', 'other': other, 'alpha': [rng.choice([1.0, 0.5, -2.0]), rng.choice([0.0, 0.0, 1.0])],
                        'beta': [rng.choice([1.0, -0.7, 3.0]), rng.choice([0.0, 0.0, -0.5])],
                        'other_norm': rng.choice([1.0, 1.0, 2.5])})
        elif r < 0.82 and L >= 2:
            n = rng.choice([2, 2, 3])
            ops.append({'op': 'group_sites', 'n': n, 'observe': False})
            ops.append({'op': 'group_split', 'trunc': {'chi_max': 1000, 'svd_min': 1e-13}})
        elif r < 0.88:
            # (the added singular values are exactly zero: later conversions to forms needing 1/s are undefined,
            #  so enlarge_chi ends the history)
            extra = [0] + [rng.choice([0, 0, 1, 2]) for _ in range(L - 1)] + [0]
            ops.append({'op': 'enlarge_chi', 'extra': extra, 'seed': rng.randrange(1 << 30)})
            break
        elif r < 0.94:
            ops.append({'op': 'spatial_inversion'})
            kinds = kinds[::-1]
        else:
            ops.append({'op': rng.choice(['compress_svd', 'compress']),
                        'trunc': {'chi_max': rng.choice([1, 2, 3, 4, 100]), 'svd_min': rng.choice([1e-12, 1e-3, 0.1])}})
    return ops, kinds



# ------------------------------------------------------------------------------------------------ fermionic terms
FERMI_FAMILIES = {'N': ['F:N', 'SHF:N'], 'pN': ['F:par', 'SHF:par'], 'N2Sz': ['SHF:NSz']}
FERMI_OPS = ('C', 'Cd', 'Cu', 'Cdu', 'Cdd')
JW_BY_CHARGE = ('N', 'pN', 'N2Sz')       # families whose fermionic sites define charge_to_JW_parity


def gen_fermi_case(rng, nrng, SI):
    """finite chain of fermionic sites conserving N or the parity (the Jordan-Wigner signs are read off the bond
    charges), in a state with non-trivial fermion parity on every site, and a short history of apply_local_term /
    apply_local_op / apply_product_op over ALL their options: terms with an odd and an even number of fermionic
    operators (several on one site, not ordered by site), i_offset != 0, autoJW, canonicalize, renormalize, unitary.
    The dense reference is tracked along so that only histories with a non-zero result are generated."""
    fam = rng.choice(['N', 'N', 'pN', 'pN', 'N2Sz'])
    pool = FERMI_FAMILIES[fam]
    r = rng.random()
    if r < 0.65 or len(pool) == 1:
        k0 = pool[0]
        L = rng.randint(3, 4) if k0.startswith('SHF') else rng.randint(4, 8)
        kinds = [k0] * L
    elif r < 0.8:
        kinds = [pool[1]] * rng.randint(3, 4)
    else:
        kinds = [rng.choice(pool) for _ in range(rng.randint(3, 5))]
        while int(np.prod([G.std_table(k)[0] for k in kinds])) > 300:
            kinds = kinds[:-1]
    L = len(kinds)
    meth = rng.choice(['full', 'full', 'full', 'full', 'full_sparse', 'bflat', 'circuit'])
    spec = {'bc': 'finite', 'sites': kinds, 'build': G.gen_finite_build(rng, kinds, allow=[meth])}
    b = spec['build']
    if b['method'] == 'bflat' and max(b['chi']) == 1:         # (excluded in the general stream as well)
        spec['build'] = b = G.gen_finite_build(rng, kinds, allow=['full'])
    if b['method'] in ('full', 'full_sparse'):
        b['normalize'] = True
        if b['method'] == 'full_sparse':
            b['k'] = rng.randint(3, 6)
    S = G.Sites(kinds, SI)
    D0 = G.build_data(spec, SI)
    if b['method'] == 'full':
        # a sector with many basis states: every site (and every stretch of sites) has both parities
        b['Q'] = G.largest_sector(S, list(range(L)))
        D0 = G.build_data(spec, SI)
    ref = FRef(D0['vec'], kinds, SI)
    ops = []
    nops = rng.randint(1, 3)
    tries = 0
    while len(ops) < nops and tries < 30:
        tries += 1
        r = rng.random()
        renorm = rng.random() < 0.4
        if r < 0.7:
            want_odd = rng.random() < 0.6
            n = rng.randint(1, 4)
            off = rng.choice([0, 1, -1, 2, -2, 3, -3, L, -L, 1, 2, -1])
            autoJW = rng.random() < 0.85
            sites_ = [rng.randrange(L) for _ in range(n)]
            if rng.random() < 0.5:
                # compact support away from the left end: the bonds at i_min+i_offset and i_min+2*i_offset differ
                c = rng.randrange(L)
                sites_ = [min(L - 1, max(0, c + rng.randint(-1, 1))) for _ in range(n)]
            term = []
            for i in sites_:
                cand = named_ops(S, i)
                jw = [x for x in cand if S.needs_JW(i, x)]
                term.append([rng.choice(jw if (jw and rng.random() < 0.7) else cand), i - off])
            njw = sum(1 for name, i in term if S.needs_JW(i + off, name))
            if (njw % 2 == 1) != want_odd:
                i = rng.randrange(L)
                jw = [x for x in named_ops(S, i) if S.needs_JW(i, x)]
                term.insert(rng.randint(0, len(term)), [rng.choice(jw), i - off])
            op = {'op': 'apply_local_term', 'term': term, 'autoJW': autoJW, 'i_offset': off,
                  'canonicalize': rng.random() < 0.75, 'renormalize': renorm}
        elif r < 0.85:
            i = rng.randrange(L)
            op = {'op': 'apply_local_op', 'i': i, 'name': rng.choice(named_ops(S, i)),
                  'unitary': rng.choice([None, None, False]), 'renormalize': renorm}
        else:
            # product of named on-site operators (documented: NO Jordan-Wigner strings), also a shorter, repeated list
            if len(set(kinds)) == 1 and rng.random() < 0.4:
                n = rng.choice([d for d in range(1, L + 1) if L % d == 0])
            else:
                n = L
            lst = [rng.choice(['Id', 'Id'] + named_ops(S, i)) for i in range(n)]
            op = {'op': 'apply_product_op', 'ops': lst, 'unitary': rng.choice([None, None, False]), 'renormalize': renorm}
        trial = FRef(ref.vec, kinds, SI)
        trial.apply(op)
        if np.linalg.norm(trial.vec) < 1e-6 * np.linalg.norm(ref.vec) or trial.raw_ratio < 1e-6:
            continue                              # (operators destroying the state are covered by the general stream)
        ref.apply(op)
        ops.append(op)
        if op['op'] == 'apply_local_term' and not op['canonicalize']:
            break                                 # no canonical form afterwards: ends the history
    return {'state': spec, 'ops': ops, 'want': {}, 'fermi': True}, D0


# ------------------------------------------------------------------------------------------------ finite reference

def full_op(S, factors):
    """dense many-body operator from {site: matrix} (identity elsewhere)"""
    out = np.eye(1)
    for i in range(len(S.kinds)):
        out = np.kron(out, factors.get(i, np.eye(S.dims[i])))
    return out


def jw_diag(S, i):
    return np.diag(1. - 2. * S.par[i])


def apply_term(vec, S, term, autoJW=True):
    """ordered product of the operators of `term` (the last one acts first), each with its Jordan-Wigner string
    to the left (autoJW=False: no strings at all, as documented), applied to the dense state"""
    njw = 0
    v = vec
    for name, i in reversed(term):
        v = G.apply_on(v, S.op(i, name), [i])
        if autoJW and S.needs_JW(i, name):
            njw += 1
            v = G.jw_string(v, S.par, i)
    return v, njw


def swap_factor(pa, pb, how):
    """diagonal factor (len(pa), len(pb)) the documented swap operator multiplies before transposing the two sites:
    how = 'auto' (fermionic sign), None / 'plain' (nothing), 'autoInv' (sign and (-i)^n per site; the string option
    falls back to the plain transposition unless both sites have odd states), 'array:autoInv' (explicit operator of the
    docstring: always with the phases)"""
    pa, pb = np.asarray(pa), np.asarray(pb)
    if how in (None, 'plain'):
        return np.ones((len(pa), len(pb)), dtype=complex)
    sg = (1. - 2. * np.outer(pa, pb)).astype(complex)
    if how == 'auto':
        return sg
    if how == 'autoInv' and not (pa.any() and pb.any()):
        return np.ones((len(pa), len(pb)), dtype=complex)
    return sg * np.outer((-1.j) ** pa, (-1.j) ** pb)


def swap_how(op):
    so = op.get('swap_op', 'auto')
    if isinstance(so, dict):
        return 'array:autoInv' if so['array'] == 'autoInv' else so['array']
    return so


class FRef:
    """dense reference of a finite chain (axes = sites) or of a segment (nvirt=2: axes = sites, then the two outer
    virtual legs in their ORIGINAL bases, which no transformation touches)"""

    def __init__(self, vec, kinds, SI, nvirt=0):
        self.vec = np.array(vec, dtype=complex)       # the state including its norm
        self.kinds = list(kinds)
        self.SI = SI
        self.nvirt = nvirt
        self.sign_free = False                        # documented loss of a global sign (JW string via charges)
        self.trunc = None
        self.norm_in_tensors = False                  # canonicalize=False: the change of norm stays in the tensors
        self.zero_S = False                           # exactly zero singular values were appended (enlarge_chi ...)
        self.grouped = 1
        self.reseed = None

    def S(self):
        return G.Sites(self.kinds, self.SI)

    def clone(self):
        c = FRef(self.vec, self.kinds, self.SI, self.nvirt)
        for k in ('sign_free', 'norm_in_tensors', 'zero_S', 'grouped'):
            setattr(c, k, getattr(self, k))
        if self.norm_in_tensors:
            c.frozen_norm = self.frozen_norm
        if getattr(self, 'not_canonical', False):
            c.not_canonical = True
        return c

    def set_total(self, new, renormalize, norm_before):
        self.raw_ratio = np.linalg.norm(new) / max(1e-300, norm_before)     # |O psi| / |psi| before renormalising
        if renormalize and np.linalg.norm(new) > 0:
            n = np.linalg.norm(new)
            self.vec = new / n * norm_before
        else:
            self.vec = new

    def pair_swap(self, a, b, how):
        """exchange the neighbouring sites a < b = a+1 with the documented swap operator"""
        S = self.S()
        f = swap_factor(S.par[a], S.par[b], how)
        shp = [1] * self.vec.ndim
        shp[a], shp[b] = f.shape
        self.vec = np.swapaxes(self.vec * f.reshape(shp), a, b)
        self.kinds[a], self.kinds[b] = self.kinds[b], self.kinds[a]

    def apply(self, op, D_other=None):
        """returns None or a string describing why the op must have raised"""
        t = op['op']
        S = self.S()
        L = len(self.kinds)
        nb = np.linalg.norm(self.vec)
        self.trunc = None
        self.reseed = None
        self.raw_ratio = 1.
        if 'must_raise' in op:
            return                                    # documented refusal: the state stays as it is
        if t == 'apply_local_op':
            i = op['i'] % L
            if 'name' in op:
                m = S.op(i, op['name'])
                v = G.apply_on(self.vec, m, [i])
                if S.needs_JW(i, op['name']):
                    v = G.jw_string(v, S.par, i)
                    self.sign_free = True
            else:
                m = cplx_mat(op['mat'])
                v = G.apply_on(self.vec, m, list(range(i, i + op['n'])))
            self.set_total(v, op.get('renormalize', False), nb)
            uni = op.get('unitary')
            if uni is None:
                uni = is_unitary(m)
            if not uni:
                self.canonicalised()
        elif t == 'apply_product_op':
            v = self.vec
            lst = [op['single']] if 'single' in op else op['ops']
            uni = op.get('unitary')
            for i in range(L):                        # documented: ops[i % len(ops)] acts on site i, NO JW strings
                o = lst[i % len(lst)]
                if o == 'Id':
                    continue
                m = S.op(i, o) if isinstance(o, str) else cplx_mat(o)
                if uni is None and not is_unitary(m):
                    uni = False
                v = G.apply_on(v, m, [i])
            self.set_total(v, op.get('renormalize', False), nb)
            if not uni:
                self.canonicalised()
        elif t == 'apply_local_term':
            off = op.get('i_offset', 0)               # documented: offset added to the site indices of the term
            v, njw = apply_term(self.vec, S, [(name, (i + off) % L) for name, i in op['term']], op.get('autoJW', True))
            if njw % 2 == 1:
                self.sign_free = True
            if op.get('canonicalize', True):
                self.set_total(v, op.get('renormalize', False), nb)
                self.canonicalised()
            else:                                     # `renormalize` is documented to be ignored; no canonical form
                self.vec = v
                self.raw_ratio = np.linalg.norm(v) / max(1e-300, nb)
                self.not_canonical = True
                if not self.norm_in_tensors:
                    self.norm_in_tensors = True
                    self.frozen_norm = nb
        elif t == 'canonical_form':
            if self.norm_in_tensors:
                if op.get('renormalize', True):
                    self.vec = self.vec / max(1e-300, nb) * self.frozen_norm
                self.norm_in_tensors = False
            self.approx = False
            self.canonicalised()
        elif t == 'swap_sites':
            i = op['i'] % L
            self.pair_swap(i, i + 1, swap_how(op))
            if op.get('trunc_class') == 'truncating':
                self.trunc = 'swap'
        elif t == 'permute_sites':
            perm = list(op['perm'])
            how = swap_how(op)
            done = False                              # (every inverted pair is exchanged exactly once by any sorting
            while not done:                           #  with adjacent transpositions of inverted neighbours)
                done = True
                for i in range(L - 1):
                    if perm[i] > perm[i + 1]:
                        self.pair_swap(i, i + 1, how)
                        perm[i], perm[i + 1] = perm[i + 1], perm[i]
                        done = False
            if op.get('trunc_class') == 'truncating':
                self.trunc = 'swap'
        elif t == 'add':
            ox = op.get('other_x')
            if ox == 'self':
                ov = self.vec
            elif ox is not None:
                c = self.clone()
                for o2 in ox['fork_ops']:
                    c.apply(o2)
                ov = c.vec
            else:
                ov = D_other['vec'].reshape(D_other['vec'].shape + (1,) * self.nvirt)
                ov = ov / np.linalg.norm(ov) * op.get('other_norm', 1.0)
            self.vec = cplx(op['alpha']) * self.vec + cplx(op['beta']) * ov
            self.canonicalised()
            if 'cutoff' in op and op['cutoff'] is None:
                self.zero_S = True                    # no cutoff: exactly zero singular values of a rank-deficient sum are kept
        elif t == 'spatial_inversion':
            ax = list(range(L))[::-1] + ([L + 1, L] if self.nvirt else [])
            self.vec = np.transpose(self.vec, ax)
            self.kinds = self.kinds[::-1]
        elif t in ('compress_svd', 'compress'):
            self.trunc = 'variational' if op.get('method') == 'variational' else True
            self.canonicalised()
        elif t == 'group_sites':
            self.grouped = op.get('n', 2)
        elif t == 'get_grouped_mps':
            self.grouped = op['n']
        elif t == 'group_split':
            self.grouped = 1
            if op.get('trunc_class') == 'truncating' or op.get('trunc') is None:
                self.trunc = 'split'
        elif t in ('enlarge_chi', 'subspace_expansion'):
            self.zero_S = True
        elif t in ('perturb', 'extract_segment', 'extract_enlarged_segment'):
            self.reseed = t
        # convert_form, gauge_total_charge, copy: the state is unchanged

    def canonicalised(self):
        """the operation ends with canonical_form: zero singular values are gone, the labels are truthful again"""
        self.zero_S = False
        if not self.norm_in_tensors:
            self.not_canonical = False


def cplx_mat(m):
    return np.array(m[0]) + 1j * np.array(m[1])


def check_refusal(op, ex, failf):
    if ex.get('raised') is None:
        failf('the call was accepted although the documentation excludes it (%s)' % op['must_raise'])
    elif ex['raised'][0] not in ('ValueError', 'NotImplementedError', 'AssertionError', 'TypeError'):
        failf('refused with %s: %s instead of a ValueError (%s)' % (ex['raised'][0], ex['raised'][1], op['must_raise']))


def check_enlarge_perms(A, prev_kk, prev_o, kk, o, ex, finite, failf):
    """documented return value of enlarge_chi: new_S = concatenate(old_S, zeros)[perm] on every enlarged bond"""
    nS = o['nS']
    for b, perm in enumerate(ex['perms']):
        bb = b if (finite or b < nS) else 0
        n_extra = ex['extra_len'][bb] if bb < len(ex['extra_len']) else 0
        if perm is None:
            if n_extra:
                failf('bond %d was enlarged by %d but the returned permutation is None' % (b, n_extra))
            continue
        old = A.get('%s_S%d' % (prev_kk, bb))
        new = A.get('%s_S%d' % (kk, bb))
        if old is None or new is None:
            continue
        want = np.concatenate([old, np.zeros(n_extra)])
        if len(perm) != len(want) or sorted(perm) != list(range(len(want))):
            failf('returned permutation of bond %d is not a permutation of %d entries: %s' % (b, len(want), perm))
            continue
        want = want[np.array(perm, dtype=int)]
        if new.shape != want.shape or np.max(np.abs(new - want)) > 1e-13:
            failf('bond %d: stored singular values %s are not concatenate(old_S, zeros(%d))[returned perm] = %s' % (
                b, np.round(new, 6).tolist(), n_extra, np.round(want, 6).tolist()))


def check_gauge(op, ex, S, prev_o, failf):
    """documented effect of gauge_total_charge on the charge bookkeeping (the state itself is compared densely)"""
    q = ex.get('qtotal_arg', op.get('qtotal'))
    if q is not None and not (q and isinstance(q[0], list)):
        if ex['qtotal_after'] != S.valid(q):
            failf('get_total_charge() = %s after gauge_total_charge(qtotal=%s)' % (ex['qtotal_after'], q))
    elif q is not None:
        if [S.valid(x) for x in q] != [S.valid(x) for x in ex['B_qtotal']]:
            failf('tensor charges %s after gauge_total_charge(qtotal=%s)' % (ex['B_qtotal'], q))
    elif op.get('vL_leg') is not None and op.get('vR_leg') is not None and prev_o is not None and 'qtotal' in prev_o:
        want = S.valid([a + b + c for a, b, c in zip(prev_o['qtotal'], op['vL_leg'], op['vR_leg'])])
        if ex['qtotal_after'] != want:
            failf('total charge %s after gauging both outer legs (shifts %s, %s) of a state with total charge %s; expected %s' % (
                ex['qtotal_after'], op['vL_leg'], op['vR_leg'], prev_o['qtotal'], want))
    elif q is None and 'qtotal' in op and op.get('vL_leg') is None and op.get('vR_leg') is None:
        if any(ex['qtotal_after']):
            failf('get_total_charge() = %s after gauge_total_charge(qtotal=None): documented default 0' % ex['qtotal_after'])


def rdm_axes(vec, keep):
    """reduced density matrix of a dense tensor on the axes `keep` (trace 1)"""
    th = np.moveaxis(vec, keep, range(len(keep)))
    D = int(np.prod(th.shape[:len(keep)]))
    M = th.reshape(D, -1)
    rho = M @ M.conj().T
    return rho / np.trace(rho)


def broken_inversion(ops_before, obs):
    """a spatial_inversion of a segment with recorded boundaries lies in the history (known finding K_SINV: every later
    operation works on wrong boundaries)"""
    for j, o2 in enumerate(ops_before):
        if o2['op'] == 'spatial_inversion' and j < len(obs) and obs[j] is not None and obs[j].get('bc') == 'segment' and \
                (obs[j].get('seg_bound') or [False])[0]:
            return True
    return False


def ees_range(op):
    """(new_first, new_last) of extract_enlarged_segment as documented"""
    first, last = op['first'], op['last']
    if 'new_first_last' in op:
        return tuple(op['new_first_last'])
    Lp = len(op['parent']['sites'])
    a = op.get('add_unitcells', 0)
    aL, aR = (a, a) if not isinstance(a, list) else (a if len(a) == 2 else (a[0], a[0]))
    nl = max(Lp - 1, last)
    if op['parent']['bc'] == 'infinite':
        nl = nl - (nl % Lp) + Lp - 1 + aR * Lp
    return -aL * Lp, nl


def ees_one_sided(op, ex):
    """extract_enlarged_segment that enlarges on one side only (structural condition of the known finding K_EES)"""
    if op is None or op['op'] != 'extract_enlarged_segment' or 'new_first_last' not in ex:
        return False
    nf, nl = ex['new_first_last']
    return (nf == op['first']) != (nl == op['last'])


def check_reseed(ref, prev_vec, prev_kinds, prev_nvirt, op, ex, cur, o, A, kk, SI, failf):
    """operations whose result is not a function of the dense state alone: compare what the documentation fixes,
    return the reference that continues from the state of the run (None: stop)"""
    t = op['op']
    nrm_prev = np.linalg.norm(prev_vec)
    if t == 'perturb':
        new = ref.clone()
        if cur.size != prev_vec.size:
            failf('the dense state has %d entries after perturb, %d before' % (cur.size, prev_vec.size))
            return None
        new.vec = cur.reshape(prev_vec.shape)
        if abs(np.linalg.norm(cur) - nrm_prev) > 1e-7 * nrm_prev:
            failf('random unitaries changed the norm of the state: %.10f -> %.10f' % (nrm_prev, np.linalg.norm(cur)))
        if abs(abs(cplx(o['norm'])) - np.linalg.norm(cur)) > 1e-7 * nrm_prev:
            failf('psi.norm = %r, the dense state has norm %r' % (o['norm'], np.linalg.norm(cur)))
        S = ref.S()
        a, b = sector_support(prev_vec, S), sector_support(new.vec, S)
        if a is not None and not b <= a:
            failf('charge-conserving random unitaries moved weight into the charge sectors %s (before: %s)' % (sorted(b - a), sorted(a)))
        if ex.get('dtype_before') == 'f' and ex.get('dtype_after') != 'f':
            failf('a real MPS is documented to be perturbed by real orthogonal matrices, dtype kind after: %s' % ex.get('dtype_after'))
        canon = op.get('canonicalize')
        if canon is None:
            canon = not op.get('close_1', True)
        if canon:
            new.canonicalised()
            if o.get('norm_test', 0) > 1e-7:
                failf('norm_test() = %.2e after perturb(canonicalize=True)' % o['norm_test'])
        else:
            new.not_canonical = True
        return new
    if t == 'extract_segment':
        first, last = op['first'], op['last']
        L0 = len(prev_kinds)
        kinds = prev_kinds[first:last + 1]
        n = len(kinds)
        S2 = G.Sites(kinds, SI)
        if list(cur.shape[:n]) != S2.dims or cur.ndim != n + 2:
            failf('the segment has dimensions %s, expected sites %s and two outer legs' % (list(cur.shape), S2.dims))
            return None
        if abs(np.linalg.norm(cur) - nrm_prev) > 1e-8 * nrm_prev:
            failf('norm of the segment %.10f, of the state it was cut from %.10f' % (np.linalg.norm(cur), nrm_prev))
        keep_prev = list(range(first, last + 1))
        keep_cur = list(range(n))
        if prev_nvirt and first == 0:            # documented: the outer legs (and their recorded basis change) are kept
            keep_prev.append(L0)
            keep_cur.append(n)
        if prev_nvirt and last == L0 - 1:
            keep_prev.append(L0 + 1)
            keep_cur.append(n + 1)
        a, b = rdm_axes(prev_vec, keep_prev), rdm_axes(cur, keep_cur)
        if a.shape != b.shape or np.max(np.abs(a - b)) > 1e-8:
            failf('reduced density matrix of the segment on its sites%s differs from the one of the state it was cut from by %.2e' % (
                ' and kept outer legs' if len(keep_cur) > n else '', np.max(np.abs(a - b)) if a.shape == b.shape else -1))
        new = FRef(cur, kinds, SI, nvirt=2)
        return new
    if t == 'extract_enlarged_segment':
        nf, nl = ex['new_first_last']
        first, last = op['first'], op['last']
        pk = op['parent']['sites']
        kinds = [pk[i % len(pk)] for i in range(nf, first)] + list(prev_kinds) + [pk[i % len(pk)] for i in range(last + 1, nl + 1)]
        T = np.moveaxis(prev_vec, -2, 0)          # (cL, p..., cR)
        if kk + '_xL' in A:
            T = np.tensordot(A[kk + '_xL'], T, axes=(-1, 0))
        if kk + '_xR' in A:
            T = np.tensordot(T, A[kk + '_xR'], axes=(-1, 0))
        if o['bc'] == 'segment':
            want = np.moveaxis(T, 0, -2)
        else:
            want = T.reshape(T.shape[1:-1]) if T.shape[0] == 1 and T.shape[-1] == 1 else T
        if want.size != cur.size:
            failf('the enlarged segment [%d, %d] has %d entries, expected %d' % (nf, nl, cur.size, want.size))
            return None
        w, c = want.reshape(-1), cur.reshape(-1)
        d = np.linalg.norm(w / np.linalg.norm(w) - c / np.linalg.norm(c))
        if d > 1e-7:
            failf('the enlarged segment [%d, %d] (outer legs in the bases of the background state) is not the segment contracted with the '
                  'background tensors A[%d..%d], B[%d..%d]: normalised difference %.2e, overlap %s' % (
                      nf, nl, nf, first - 1, last + 1, nl, d, np.round(np.vdot(w, c) / np.linalg.norm(w) / np.linalg.norm(c), 8)),
                  K_EES if ees_one_sided(op, ex) else None)
        if o['bc'] == 'segment':
            return FRef(cur.reshape(want.shape), kinds, SI, nvirt=2)
        return FRef(cur.reshape(want.shape), kinds, SI)
    return None


def leg_order_only(o, ops_before):
    """test_sanity complains only about the ORDER of the legs of a tensor after apply_product_op(unitary=True), which writes
    tensordot(op, B) (legs p, vL, vR) back without canonical_form: every accessor works by leg label, the state is compared
    as usual; the storage order of legs is not a statement of the property"""
    return 'B has wrong labels' in o['sanity'] and any(o2['op'] == 'apply_product_op' and o2.get('unitary') is True for o2 in ops_before)


def canonical_alignment(Bs, Ss, forms, L, tol=1e-7):
    """None, or a description of the first tensor whose left- / right-canonical version (stored tensor rescaled by the stored
    singular values according to its label) is not an isometry (columns / rows of Schmidt states with zero weight excepted)"""
    for i in range(L):
        sl, sr = np.asarray(Ss[i], dtype=float), np.asarray(Ss[i + 1], dtype=float)
        A_ = G.explicit_theta(Bs, Ss, forms, i, 1, True, eL=2, eR=0)       # s Gamma
        nz = sr > 1e-12
        M = np.einsum('apb,apc->bc', A_.conj(), A_)[np.ix_(nz, nz)]
        if M.size and np.max(np.abs(M - np.eye(len(M)))) > tol:
            return 'site %d: s[%d].Gamma is not left-orthonormal on the Schmidt states of bond %d (deviation %.2e; singular values %s)' % (
                i, i, i + 1, np.max(np.abs(M - np.eye(len(M)))), np.round(sr, 5).tolist())
        B_ = G.explicit_theta(Bs, Ss, forms, i, 1, True, eL=0, eR=2)       # Gamma s
        nz = sl > 1e-12
        M = np.einsum('apb,cpb->ac', B_, B_.conj())[np.ix_(nz, nz)]
        if M.size and np.max(np.abs(M - np.eye(len(M)))) > tol:
            return 'site %d: Gamma.s[%d] is not right-orthonormal on the Schmidt states of bond %d (deviation %.2e)' % (
                i, i + 1, i, np.max(np.abs(M - np.eye(len(M)))))
    return None


def obs_dense(A, kk, o, seg):
    """the dense state an observation denotes (psi.norm included), in the layout of FRef; None + reason when it cannot
    be formed"""
    nrm = cplx(o['norm'])
    if seg:
        try:
            th = c07.segment_dense(A, kk, o)
        except ValueError as e:
            return None, 'the recorded segment_boundaries do not fit the outer legs of the tensors (%s)' % e
        if th is None:
            return None, 'a stored tensor of the segment lost its form label / singular values'
        return np.moveaxis(th, 0, -2), None
    if o.get('grouped', 1) > 1 or 'ungrouped_dims' in o:
        if 'ungrouped_error' in o:
            return None, 'splitting the legs of the grouped state raises ' + o['ungrouped_error']
        return A[kk + '_ungrouped'] * nrm, None
    if 'full_error' in o:
        return None, 'get_full_wavefunction raises ' + o['full_error']
    return A[kk + '_full'] * nrm, None


def sector_support(vec, S):
    """set of total charges (tuples) carrying weight of a dense state on the sites of S (trailing virtual axes ignored)"""
    if not S.mod:
        return None
    L = len(S.kinds)
    w = np.abs(vec.reshape(tuple(S.dims) + (-1,))) ** 2
    w = w.sum(axis=-1)
    tot = S.total_charge()
    out = set()
    for idx in zip(*np.nonzero(w > 1e-18 * max(1e-300, w.max()))):
        out.add(tuple(int(x) for x in tot[idx]))
    return out


def check_finite_case(ctx, case, r, A, key, D, SI, perm_lits, perm_meta):
    spec = case['state']
    ops = case['ops']
    seg = spec['bc'] == 'segment'
    bcname = 'segment' if seg else 'finite'
    obs = r['obs']
    info = {'stream': case.get('stream', bcname), 'case': case}
    method = spec['build']['method'] if not seg else 'extract_segment(%s) of a %s MPS' % (spec['segment'], spec['parent']['bc'])
    if seg:
        v0, why = obs_dense(A, key + '_0', obs[0], True)
        if v0 is None:
            ctx.fail('oracle', 'segment MPS as constructed: ' + why, info, match_key='C09:segment:constructor')
            return
        ref = FRef(v0, spec['sites'], SI, nvirt=2)
    else:
        ref = FRef(D['vec'], spec['sites'], SI)

    def fail(msg, step, mk=None):
        opn = ops[step - 1]['op'] if step > 0 else 'constructor'
        if opn == 'group_split' and mk is None and step >= 2 and ops[step - 2]['op'] == 'group_sites' and \
                prev is not None and prev['L'] % ops[step - 2].get('n', 2) == 1:
            mk = K_GROUP
        if mk is None and broken_inversion(ops[:step], obs):
            mk = K_SINV
        opts = {k_: v_ for k_, v_ in ops[step - 1].items() if k_ not in ('op', 'mat', 'other', 'ops', 'rdm_after', 'parent')} if step > 0 else {}
        ctx.fail('oracle', '%s%s on a %s MPS (built by %s, stored forms before: %s; history %s): %s' % (
            opn, opts if step > 0 else '', bcname, method, prev_form, [o['op'] for o in ops[:step]], msg), info, match_key=mk or 'C09:%s:%s' % (bcname, opn))
        state['dead'] = True
    prev_form = None
    prev = None
    prev_kk = None
    state = {'dead': False}
    fk = r.get('forks') or {}
    for b in fk.get('bad', [])[:2]:
        step = int(b['key'].rsplit('_', 1)[1]) if b['key'].rsplit('_', 1)[1].isdigit() else len(ops)
        ctx.fail('oracle', '%s on a %s MPS: the %s was modified by the call or by the later operations on the returned object (%s)' % (
            ops[step - 1]['op'] if 0 < step <= len(ops) else '?', bcname, b['label'], b['diff']), info,
            match_key='C09:%s:%s:aliasing' % (bcname, ops[step - 1]['op'] if 0 < step <= len(ops) else '?'))
    for k, o in enumerate(obs):
        if state['dead']:
            return
        prev_ref_vec = ref.vec
        prev_kinds = list(ref.kinds)
        prev_nvirt = ref.nvirt
        if k > 0:
            op = ops[k - 1]
            if getattr(ref, 'approx', False) and op['op'] != 'canonical_form':
                return           # after a truncation inside swap / split the canonical form holds only approximately
            Dother = G.build_data(op['other'], SI) if op['op'] == 'add' and 'other' in op else None
            ref.apply(op, Dother)
            if op['op'].startswith('apply_') and ref.raw_ratio < 1e-9:
                # the documented result is the zero vector, which a normalised MPS cannot represent: nothing to compare
                ctx.count(bcname + '-zero-result', [spec, ops[:k]], nontrivial=False)
                return
            if op['op'] == 'add' and np.linalg.norm(ref.vec) < 1e-9 * max(1., np.linalg.norm(prev_ref_vec)):
                ctx.count(bcname + '-zero-result', [spec, ops[:k]], nontrivial=False)
                return
            ex = r['extra'][k - 1] if k - 1 < len(r['extra']) else {}
            if 'must_raise' in op and ex:
                check_refusal(op, ex, lambda m_: fail(m_, k))
            if op['op'] == 'permute_sites' and prev is not None and ex:
                dims_b = prev['dims']
                dims_a = o['dims'] if o else None
                if dims_a is not None and not seg:
                    perm_lits.append(coq_lit((list(op['perm']), dims_b, [Nat(x) for x in ex['swaps']], dims_a)))
                    perm_meta.append(info)
                # oracle for the bookkeeping: number of swaps = number of inversions
                inv = sum(1 for a in range(len(op['perm'])) for b in range(a + 1, len(op['perm'])) if op['perm'][a] > op['perm'][b])
                if len(ex['swaps']) != inv:
                    fail('permute_sites(%s) performed %d swaps, the permutation has %d inversions' % (op['perm'], len(ex['swaps']), inv), k)
            if op['op'] == 'enlarge_chi' and prev is not None and o is not None and 'perms' in ex:
                check_enlarge_perms(A, prev_kk, prev, '%s_%d' % (key, k), o, ex, True, lambda m_: fail(m_, k))
            if op['op'] == 'gauge_total_charge' and ex and ref.S().mod:
                check_gauge(op, ex, ref.S(), prev, lambda m_: fail(m_, k))
            if op['op'] == 'spatial_inversion' and ex and ex.get('returns_self') is False:
                fail('spatial_inversion does not return the MPS itself', k)
            if op['op'] == 'extract_enlarged_segment' and ex:
                if ex.get('same_object') and ex['new_first_last'] != [op['first'], op['last']]:
                    fail('returned the segment itself although the requested range %s differs from [first, last]' % ex['new_first_last'], k)
        if o is None:
            continue
        kk = '%s_%d' % (key, k)
        S = ref.S()
        L = len(ref.kinds)
        opn = ops[k - 1] if k > 0 else None
        if 'sanity' in o and not leg_order_only(o, ops[:k]):
            fail('test_sanity raises ' + o['sanity'], k)
        nrm = cplx(o['norm'])
        now_seg = o['bc'] == 'segment'
        if ref.reseed:
            # the documented result is not a function of the dense state alone (random unitaries / new outer bases):
            # characterise it, then continue from the state of the run
            cur, why = obs_dense(A, kk, o, now_seg)
            ex = r['extra'][k - 1] if k - 1 < len(r['extra']) else {}
            if cur is None:
                fail(why, k, K_EES if ees_one_sided(opn, ex) else None)
                return
            newref = check_reseed(ref, prev_ref_vec, prev_kinds, prev_nvirt, opn, ex, cur, o, A, kk, SI, lambda m_, mk=None: fail(m_, k, mk))
            if newref is None or state['dead']:
                return
            ref = newref
            S = ref.S()
            L = len(ref.kinds)
        dims_o = o.get('ungrouped_dims', o['dims'])
        if dims_o != S.dims:
            fail('site dimensions %s, expected %s' % (dims_o, S.dims), k)
            return
        if ref.grouped > 1 and 'ungrouped_dims' in o and o['L'] != -(-L // ref.grouped):
            fail('%d grouped sites for L=%d, n=%d' % (o['L'], L, ref.grouped), k)
        want = ref.vec.reshape(-1)
        scale = max(1e-300, np.linalg.norm(want))
        if ref.trunc:
            # compression / truncating split: overlap with the untruncated state bounded by the reported truncation error
            ex = r['extra'][k - 1]
            v, why = obs_dense(A, kk, o, now_seg)
            if v is None:
                fail(why, k)
                return
            v = v.reshape(-1) / nrm
            eps = ex['eps']
            if v.shape != want.shape:
                fail('the dense state has %d entries, expected %d' % (v.size, want.size), k)
                return
            ov = abs(np.vdot(want, v)) / scale / max(1e-300, np.linalg.norm(v))
            angle = np.arccos(min(1., ov))
            nsteps = max(1, L - 1) if ref.trunc in (True, 'variational', 'split') else max(1, len(ex.get('swaps', [0])))
            bound = nsteps * np.arcsin(min(1., np.sqrt(max(0., eps) / nsteps)))
            if ref.trunc == 'variational':       # eps is the LARGEST two-site truncation error of the last sweep
                bound = 2 * nsteps * np.arcsin(min(1., np.sqrt(max(0., eps))))
            kvar = K_VAR if (ref.trunc == 'variational' and (opn.get('options') or {}).get('max_sweeps', 2) >= 2) else None
            if angle > bound + 1e-6:
                fail('truncation changed the state by angle %.3e, the reported truncation error eps=%.3e allows at most %.3e' % (angle, eps, bound), k, kvar)
            if eps < 1e-20 and angle > 1e-6:
                fail('no truncation reported but the state changed', k, kvar)
            if L == 2 and ref.trunc is True and abs((1 - ov ** 2) - eps) > 1e-8:
                fail('single truncated bond: 1-|<psi|psi_c>|^2 = %.3e, reported eps = %.3e' % (1 - ov ** 2, eps), k)
            nn = abs(nrm) / scale
            if nn > 1 + 1e-9 or nn ** 2 < (1 - eps) - 1e-7 - 2 * eps ** 2 * nsteps - (2 * eps * nsteps if ref.trunc == 'variational' else 0):
                fail('norm after truncation %.6f x old norm, inconsistent with eps=%.3e' % (nn, eps), k, kvar)
            if opn and 'chi_max' in (opn.get('trunc') or opn.get('trunc_par') or {}) and o.get('chi') and ref.trunc in (True, 'variational') and \
                    max(o['chi']) > (opn.get('trunc') or opn.get('trunc_par'))['chi_max']:
                fail('bond dimensions %s after compression with chi_max=%d' % (o['chi'], (opn.get('trunc') or opn.get('trunc_par'))['chi_max']), k)
            # continue with the truncated state as new reference
            ref.vec = (v * nrm).reshape(ref.vec.shape)
            if eps > 1e-14:
                ref.not_canonical = True       # truncation leaves the canonical form only approximately
                if ref.trunc in ('swap', 'split'):
                    ref.approx = True          # (tensors neither normalised nor orthonormal: only canonical_form may follow)
            want = ref.vec.reshape(-1)
            scale = max(1e-300, np.linalg.norm(want))
        if abs(abs(nrm) - scale) > 1e-8 * max(1., scale) and not ref.norm_in_tensors and not getattr(ref, 'approx', False) and \
                not (opn and opn['op'] in ('swap_sites', 'permute_sites', 'group_split')):
            fail('psi.norm = %r, the dense state has norm %r' % (nrm, scale), k)
        if ref.norm_in_tensors and abs(abs(nrm) - ref.frozen_norm) > 1e-8 * max(1., ref.frozen_norm):
            fail('psi.norm = %r changed although canonicalize=False (norm before %r)' % (nrm, ref.frozen_norm), k)
        v, why = obs_dense(A, kk, o, now_seg)
        if v is None:
            fail(why, k)
            return
        v = v.reshape(-1)
        d = np.linalg.norm(v - want) if v.shape == want.shape else 1e9
        if ref.sign_free:
            d2 = np.linalg.norm(v + want) if v.shape == want.shape else 1e9
            if d2 < d:
                ref.vec = -ref.vec
                want = -want
                d = d2
        if d > TOL * scale:
            fail('psi.norm * %s differs from the documented dense result by %.2e (relative), overlap/|ref|^2 = %s' % (
                'U_L.theta.V_R (dense state of the segment in the original bases of its outer legs)' if now_seg else 'full wavefunction',
                d / scale, np.vdot(want, v) / scale ** 2 if v.shape == want.shape else 'n/a'), k)
            return
        Bs, Ss, forms = c07.stored(A, kk, o)
        canon_ok = all(f is not None for f in forms) and all(s is not None for s in Ss) and not getattr(ref, 'not_canonical', False)
        if canon_ok and ref.grouped == 1 and 'ungrouped_dims' not in o:
            if not now_seg:
                th = G.explicit_theta(Bs, Ss, forms, 0, L, True).reshape(-1) * nrm
                if th.shape != want.shape or np.linalg.norm(th - want) > TOL * scale:
                    fail('stored tensors contracted according to the recorded forms %s differ from the dense state by %.2e' % (
                        o['form'], np.linalg.norm(th - want) / scale if th.shape == want.shape else -1), k)
                    return
            if o.get('norm_test', 0) > 1e-7 and not ref.zero_S:
                fail('norm_test() = %.2e' % o['norm_test'], k)
            # the stored singular values belong to the basis states of their bonds: s_i Gamma_i (left-canonical form, from the
            # stored tensors and labels) is an isometry on the Schmidt states of non-zero weight, Gamma_i s_i+1 on all of them
            m = canonical_alignment(Bs, Ss, forms, L)
            if m:
                fail('stored tensors and singular values are not a canonical form: ' + m, k,
                     K_SUBEXP if (ref.zero_S and S.mod and any(o2['op'] == 'subspace_expansion' for o2 in ops[:k])) else None)
            vt = ref.vec / np.linalg.norm(ref.vec)
            if now_seg:
                vt = np.moveaxis(vt, -2, 0)           # (cL, p..., cR): the outer legs are orthonormal Schmidt bases
                for cut in range(0, L + 1):
                    dl = int(np.prod(vt.shape[:1 + cut]))
                    sd = np.linalg.svd(vt.reshape(dl, -1), compute_uv=False)
                    m = c07.cmp_spec(Ss[cut], sd / np.linalg.norm(sd))
                    if m:
                        fail('stored _S[%d] of the segment are not the Schmidt coefficients at that cut (%s)' % (cut, m), k)
                        break
            else:
                for cut in range(1, L):
                    m = c07.cmp_spec(Ss[cut], c07.dense_schmidt(vt, cut))
                    if m:
                        fail('stored _S[%d] are not the Schmidt coefficients (%s)' % (cut, m), k)
                        break
        prev_form = o['form']
        prev = o
        prev_kk = kk
    return


# ------------------------------------------------------------------------------------------------ infinite reference

class RobustTM(G.TM):
    """G.TM whose dominant left / right eigenvectors are verified: numpy.linalg.eig occasionally returns an inaccurate
    eigenvector for the (highly non-normal, mostly nilpotent) transfer matrices of charge-conserving tensors; it is then
    recomputed by inverse iteration at the (accurate) dominant eigenvalue"""

    def __init__(self, Ms):
        super().__init__(Ms)
        T = self.E[0]
        for E in self.E[1:]:
            T = T @ E
        with np.errstate(all='ignore'):
            for name, mat in (('r0', T), ('l0', T.T)):
                v = getattr(self, name)
                if not np.isfinite(v).all() or not np.isfinite(mat).all() or abs(self.eta) < 1e-300:
                    continue
                if np.linalg.norm(mat @ v - self.eta * v) > 1e-10 * abs(self.eta) * np.linalg.norm(v):
                    x = np.random.default_rng(7).normal(size=len(v)) + 0j
                    shift = self.eta * (1 + 1e-9) + 1e-300
                    try:
                        for _ in range(4):
                            x = np.linalg.solve(mat - shift * np.eye(len(v)), x)
                            x = x / np.linalg.norm(x)
                        if np.linalg.norm(mat @ x - self.eta * x) < 1e-9 * abs(self.eta):
                            setattr(self, name, x)
                    except np.linalg.LinAlgError:
                        pass


class IRef:
    """explicit unit-cell tensors (vL, p, vR), transformed by the documented maps; observables via the transfer matrix"""

    def __init__(self, Ms, kinds, SI):
        self.Ms = [np.asarray(M, dtype=complex) for M in Ms]
        self.kinds = list(kinds)
        self.SI = SI
        self.norm = 1.0
        self._tm = None
        self.reseed = None

    def tm(self):
        if self._tm is None:
            self._tm = RobustTM(self.Ms)
        return self._tm

    def S(self):
        return G.Sites(self.kinds, self.SI)

    def exact_zero(self):
        """True iff the state is the zero vector by the pattern of exact zeros of its tensors: bond index a of the
        left end of the unit cell is connected to b at its right end iff some sequence of local states gives a product
        of non-zero entries; without a closed path through chi unit cells every amplitude of the infinite state is a sum
        of products that each contain an exact zero (typical cause: a term that changes a conserved charge in every unit
        cell).  The numerical eigenvalues of such a nilpotent transfer matrix need not be small, hence this test."""
        cell = None
        for M in self.Ms:
            pat = (np.abs(M) > 0).any(axis=1).astype(np.int64)
            cell = pat if cell is None else ((cell @ pat) > 0).astype(np.int64)
        if cell.shape[0] != cell.shape[1]:
            return False
        reach = cell
        for _ in range(cell.shape[0]):
            reach = ((reach @ cell) > 0).astype(np.int64)
            if not reach.any():
                return True
        return False

    def ratio(self, eta0):
        """|O psi|^2 / |psi|^2 per unit cell (0. for the zero state)"""
        with np.errstate(all='ignore'):
            if not all(np.isfinite(M).all() and np.abs(M).max() > 0 for M in self.Ms) or self.exact_zero():
                return 0.
            return abs(self.tm().eta) / eta0

    def two_site(self, i, fn):
        L = len(self.Ms)
        a, b = i % L, (i + 1) % L
        th = np.tensordot(self.Ms[a], self.Ms[b], axes=(2, 0))     # (vL, p, q, vR)
        th = fn(th)
        self.Ms[a], self.Ms[b] = G.split_two(th)

    def apply(self, op):
        t = op['op']
        L = len(self.Ms)
        S = self.S()
        eta0 = abs(self.tm().eta)
        self._tm = None
        self.raw_ratio = 1.
        self.reseed = None
        if 'must_raise' in op:
            return
        if t == 'roll_mps_unit_cell':
            k = op.get('shift', 1)
            self.Ms = [self.Ms[(j - k) % L] for j in range(L)]
            self.kinds = [self.kinds[(j - k) % L] for j in range(L)]
        elif t == 'enlarge_mps_unit_cell':
            self.Ms = self.Ms * op.get('factor', 2)
            self.kinds = self.kinds * op.get('factor', 2)
        elif t == 'spatial_inversion':
            self.Ms = [np.transpose(M, (2, 1, 0)) for M in self.Ms[::-1]]
            self.kinds = self.kinds[::-1]
        elif t == 'apply_local_op':
            i = op['i']
            if 'name' in op:
                m = S.op(i % L, op['name'])
                self.Ms[i % L] = np.einsum('pq,aqb->apb', m, self.Ms[i % L])
            elif op['n'] == 1:
                self.Ms[i % L] = np.einsum('pq,aqb->apb', cplx_mat(op['mat']), self.Ms[i % L])
            else:
                m = cplx_mat(op['mat'])
                d0, d1 = S.dims[i % L], S.dims[(i + 1) % L]
                m4 = m.reshape(d0, d1, d0, d1)
                self.two_site(i, lambda th: np.einsum('pqrs,arsb->apqb', m4, th))
            self.raw_ratio = self.ratio(eta0)
            if not (self.raw_ratio > 1e-12):
                return                                # the documented result is the zero state
            if not op.get('renormalize', False):
                self.norm = self.norm * np.sqrt(abs(self.tm().eta) / eta0)
        elif t == 'apply_product_op':
            lst = [op['single']] if 'single' in op else op['ops']
            for i in range(L):                        # documented: ops[i % len(ops)] on site i of every unit cell
                o = lst[i % len(lst)]
                if o == 'Id':
                    continue
                m = S.op(i, o) if isinstance(o, str) else cplx_mat(o)
                self.Ms[i] = np.einsum('pq,aqb->apb', m, self.Ms[i])
            self.raw_ratio = self.ratio(eta0)
            if not (self.raw_ratio > 1e-12):
                return
            if not op.get('renormalize', False):
                self.norm = self.norm * np.sqrt(abs(self.tm().eta) / eta0)
        elif t == 'apply_local_term':
            # documented: the term (indices shifted by i_offset) is applied in every unit cell; here the shifted sites
            # lie within L consecutive sites and the number of fermionic operators is even, so the terms of different
            # unit cells act on disjoint sites and commute: one operator per site, Jordan-Wigner factors in between
            off = op.get('i_offset', 0)
            term = [(name, i + off) for name, i in op['term']]
            for s_ in sorted(set(i for _, i in term) | set(range(min(i for _, i in term), max(i for _, i in term)))):
                m = np.eye(S.dims[s_ % L], dtype=complex)
                for name, i in term:
                    if i == s_:
                        m = m @ S.op(i % L, name)
                    elif s_ < i and op.get('autoJW', True) and S.needs_JW(i % L, name):
                        m = m @ jw_diag(S, s_ % L)
                self.Ms[s_ % L] = np.einsum('pq,aqb->apb', m, self.Ms[s_ % L])
            self.raw_ratio = self.ratio(eta0)
            if not (self.raw_ratio > 1e-12):
                return                                # the documented result is the zero state
            fac = np.sqrt(abs(self.tm().eta) / eta0)
            if not op.get('canonicalize', True):
                self.pending = getattr(self, 'pending', 1.) * fac      # the change of norm stays in the tensors
            elif not op.get('renormalize', False):
                self.norm = self.norm * fac
        elif t == 'canonical_form':
            if getattr(self, 'approx', False) and not op.get('renormalize', True):
                # after a truncation the stored tensors (from which this reference was re-seeded) are not exactly normalised:
                # canonical_form(renormalize=False) moves their norm per unit cell into psi.norm
                self.norm = self.norm * np.sqrt(abs(self.tm().eta))
                self._tm = None
            self.approx = False
            if getattr(self, 'pending', None) is not None:
                if not op.get('renormalize', True):
                    self.norm = self.norm * self.pending
                self.pending = None
        elif t == 'swap_sites':
            i = op['i']
            sg = swap_factor(S.par[i % L], S.par[(i + 1) % L], swap_how(op))
            self.two_site(i, lambda th: np.transpose(th * sg[None, :, :, None], (0, 2, 1, 3)))
            a, b = i % L, (i + 1) % L
            self.kinds[a], self.kinds[b] = self.kinds[b], self.kinds[a]
        elif t == 'permute_sites':
            perm = list(op['perm'])
            how = swap_how(op)
            # plain bubble sort on the reference (every inverted pair is exchanged exactly once)
            done = False
            while not done:
                done = True
                for i in range(L - 1):
                    if perm[i] > perm[i + 1]:
                        S2 = self.S()
                        sg = swap_factor(S2.par[i], S2.par[i + 1], how)
                        self.two_site(i, lambda th: np.transpose(th * sg[None, :, :, None], (0, 2, 1, 3)))
                        self.kinds[i], self.kinds[i + 1] = self.kinds[i + 1], self.kinds[i]
                        perm[i], perm[i + 1] = perm[i + 1], perm[i]
                        done = False
        elif t in ('compress', 'compress_svd', 'perturb'):
            self.reseed = t
        elif t == 'group_split' and (op.get('trunc') is None or op.get('trunc_class') == 'truncating'):
            self.reseed = t
        # convert_form, group_sites+group_split, enlarge_chi, gauge_total_charge, copy, get_grouped_mps, compute_K: unchanged
        self._tm = None


def gen_infinite_ops(rng, nrng, kinds, SI, nops, real_state=False):
    ops = []
    kinds = list(kinds)
    for _ in range(nops):
        L = len(kinds)
        Sx = G.Sites(kinds, SI)
        r = rng.random()
        dimcell = int(np.prod(Sx.dims))
        if r < 0.15:
            ops.append({'op': 'convert_form', 'forms': G.gen_forms(rng, L)})
        elif r < 0.38:
            k = rng.choice([1, -1, 2, L - 1, L, -L - 1, 3])
            ops.append({'op': 'roll_mps_unit_cell', 'shift': k})
            kinds = [kinds[(j - k) % L] for j in range(L)]
        elif r < 0.48 and dimcell ** 2 <= 40:
            ops.append({'op': 'enlarge_mps_unit_cell', 'factor': 2})
            kinds = kinds * 2
        elif r < 0.60:
            ops.append({'op': 'spatial_inversion'})
            kinds = kinds[::-1]
        elif r < 0.78:
            i = rng.randint(-L, 2 * L)
            if rng.random() < 0.5 or L == 1:
                uni = rng.random() < 0.6
                m = G.random_gate(nrng, Sx, [i % L], True, unitary=uni)
                ops.append({'op': 'apply_local_op', 'i': i, 'n': 1, 'mat': mat_json(m), 'unitary': None,
                            'renormalize': rng.random() < 0.5})
            else:
                m = G.random_gate(nrng, Sx, [i % L, (i + 1) % L], True, unitary=True)
                if L == 2 and False:
                    continue
                ops.append({'op': 'apply_local_op', 'i': i, 'n': 2, 'mat': mat_json(m), 'unitary': None, 'renormalize': False})
        elif r < 0.86:
            # term with an even number of fermionic operators (an open string is refused for infinite MPS), sites
            # within L consecutive sites anywhere relative to the unit cell, given relative to a random i_offset
            i0 = rng.randint(-L, 2 * L)
            off = rng.choice([0, 1, -1, 2, L, -L, 2 * L + 1, -3])
            autoJW = rng.random() < 0.85
            term = []
            for _t in range(rng.randint(1, 3)):
                i = i0 + rng.randrange(L)
                cand = [x for x in named_ops(Sx, i % L) if real_state is False or np.abs(Sx.op(i % L, x).imag).max() == 0]
                if cand:
                    term.append([rng.choice(cand), i - off])
            njw = [k_ for k_, (nm, i) in enumerate(term) if Sx.needs_JW((i + off) % L, nm)]
            if autoJW and len(njw) % 2 == 1:
                i = i0 + rng.randrange(L)
                jw = [x for x in named_ops(Sx, i % L) if Sx.needs_JW(i % L, x)]
                if jw:
                    term.insert(rng.randint(0, len(term)), [rng.choice(jw), i - off])
                else:
                    term.pop(njw[0])
            if term:
                ops.append({'op': 'apply_local_term', 'term': term, 'autoJW': autoJW, 'i_offset': off, 'canonicalize': True,
                            'renormalize': rng.random() < 0.5})
        elif r < 0.91 and L >= 3:
            i = rng.randrange(L - 1)
            ops.append({'op': 'swap_sites', 'i': i, 'swap_op': 'auto'})
            kinds[i], kinds[i + 1] = kinds[i + 1], kinds[i]
        elif r < 0.95 and L >= 3:
            perm = list(range(L))
            rng.shuffle(perm)
            ops.append({'op': 'permute_sites', 'perm': perm})
            new = [None] * L
            for a, p in enumerate(perm):
                new[p] = kinds[a]
            kinds = new
        elif r < 0.975 and L % 2 == 0:
            ops.append({'op': 'group_sites', 'n': 2, 'observe': False})
            ops.append({'op': 'group_split', 'trunc': {'chi_max': 1000, 'svd_min': 1e-13}})
        else:
            ops.append({'op': 'enlarge_chi', 'extra': [rng.choice([0, 1, 2]) for _ in range(L)], 'seed': rng.randrange(1 << 30)})
            break
    return ops


APPLY_OPS = ('apply_local_op', 'apply_product_op', 'apply_local_term', 'add')       # can produce the zero vector


def documented_zero(case, D, SI, step, v0=None):
    """is the documented result of the operator application case['ops'][step] (dense / explicit unit-cell reference
    of the history before it) the zero vector?  False when the reference cannot be reconstructed (after a compression
    the reference continues from the compressed state of the run).  v0: dense state of a segment as constructed."""
    spec = case['state']
    ops = case['ops']
    if any(o2['op'] in ('compress', 'compress_svd', 'perturb', 'extract_segment', 'extract_enlarged_segment') or o2.get('trunc_class') == 'truncating'
           or (o2['op'] == 'group_split' and 'trunc' not in o2) for o2 in ops[:step]):
        return False

    def other(o2):
        return G.build_data(o2['other'], SI) if o2['op'] == 'add' and 'other' in o2 else None
    if spec['bc'] in ('finite', 'segment'):
        if spec['bc'] == 'segment':
            if v0 is None:
                return False
            fr = FRef(v0, spec['sites'], SI, nvirt=2)
        else:
            fr = FRef(D['vec'], spec['sites'], SI)
        for o2 in ops[:step]:
            fr.apply(o2, other(o2))
        n0 = np.linalg.norm(fr.vec)
        o3 = dict(ops[step])
        o3['renormalize'] = False
        fr.apply(o3, other(o3))
        return bool(np.linalg.norm(fr.vec) < 1e-9 * max(1., n0))
    ir = IRef(D['Ms'], spec['sites'], SI)
    for o2 in ops[:step + 1]:
        ir.apply(o2)
        if not (ir.raw_ratio > 1e-9):
            return o2 is ops[step]
    return False


def ms_from_obs(A, kk, o):
    """explicit unit-cell tensors in right-canonical form from the stored tensors and their form labels"""
    Bs, Ss, forms = c07.stored(A, kk, o)
    if any(f is None for f in forms) or any(x is None for x in Ss):
        return None
    return [G.explicit_theta(Bs, Ss, forms, i, 1, False, eL=0, eR=2) for i in range(o['L'])]


def mixed_tm_spectrum(Ms, Ns):
    """eigenvalues of the transfer matrix of one unit cell between ket tensors Ms and bra tensors Ns"""
    T = None
    for M, N in zip(Ms, Ns):
        E = np.einsum('apb,cpd->acbd', M, N.conj()).reshape(M.shape[0] * N.shape[0], M.shape[2] * N.shape[2])
        T = E if T is None else T @ E
    return np.linalg.eigvals(T)


def check_compute_K(ref, op, ex, A, kk, failf):
    """compute_K(perm): ov is documented as the eigenvalue of the mixed transfer matrix <psi|T|psi> per L sites between the
    state and its permuted copy; for a state that is invariant under the permutation |ov| = 1, W = s^2 exp(iK) carries the
    squared Schmidt values of bond 0 and sum(W) = exp(i expected_mean_k), U is unitary"""
    perm = ex.get('lat_perm', op['perm'])
    c = IRef(ref.Ms, ref.kinds, ref.SI)
    c.apply({'op': 'permute_sites', 'perm': list(perm), 'swap_op': op.get('swap_op', 'auto')})
    ev = mixed_tm_spectrum(c.Ms, ref.Ms)
    eta = abs(ref.tm().eta)
    ev = ev / eta
    ov = cplx(ex['ov'])
    if 'lat_perm' in ex and sorted(perm) != list(range(len(ref.Ms))):
        failf('the lattice translation gives %s, not a permutation' % perm)
    if np.min(np.abs(ev - ov)) > 1e-6 and np.min(np.abs(ev - np.conj(ov))) > 1e-6:
        failf('ov = %r is not an eigenvalue of the mixed transfer matrix between the state and its permuted copy (closest %r)' % (
            ov, ev[int(np.argmin(np.abs(ev - ov)))]))
    if not ref.S().mod and abs(abs(ov) - np.max(np.abs(ev))) > 1e-6:
        failf('|ov| = %.8f, the dominant eigenvalue of the mixed transfer matrix has modulus %.8f' % (abs(ov), np.max(np.abs(ev))))
    W = A[kk + '_K_W']
    U = A[kk + '_K_U']
    s0 = A[kk + '_K_S0']
    if abs(np.sum(np.abs(W)) - 1) > 1e-8:
        failf('sum |W| = %.10f, documented normalisation sum(S^2) = 1' % np.sum(np.abs(W)))
    if op.get('invariant'):
        if abs(abs(ov) - 1) > 1e-7:
            failf('the state is invariant under the permutation but |ov| = %.10f' % abs(ov))
        a = np.sort(np.abs(W))[::-1]
        b = np.sort(s0 ** 2)[::-1]
        b = b / b.sum()
        if a.shape != b.shape or np.max(np.abs(a - b)) > 1e-7:
            failf('|W| = %s are not the squared Schmidt values %s of bond 0' % (np.round(a, 8).tolist(), np.round(b, 8).tolist()))
        k = op.get('expected_mean_k', 0.)
        if abs(np.sum(W) - np.exp(1j * k)) > 1e-6:
            failf('sum(W) = %r, documented exp(i expected_mean_k) = %r' % (np.sum(W), np.exp(1j * k)))
        if U.shape[0] != U.shape[1] or np.linalg.norm(U @ U.conj().T - np.eye(len(U))) > 1e-6:
            failf('U is not unitary (deviation %.2e)' % (np.linalg.norm(U @ U.conj().T - np.eye(len(U))) if U.shape[0] == U.shape[1] else -1))
    if ex['eps'] > 1e-12 and 'trunc_par' not in op:
        failf('truncation error %.3e reported for swaps of a state with chi <= 100' % ex['eps'])


def check_infinite_case(ctx, case, r, A, key, D, SI, perm_lits, perm_meta):
    spec = case['state']
    ops = case['ops']
    ref = IRef(D['Ms'], spec['sites'], SI)
    obs = r['obs']
    info = {'stream': case.get('stream', 'infinite'), 'case': case}
    prev_form = None
    prev = None
    prev_kk = None
    state = {'dead': False}

    def fail(msg, step, mk=None):
        opn = ops[step - 1]['op'] if step > 0 else 'constructor'
        key_ = mk or 'C09:infinite:%s' % opn
        if opn == 'roll_mps_unit_cell' and prev_form is not None and any(f != [0, 2] for f in prev_form):
            key_ = K_ROLL
        if opn == 'spatial_inversion':
            key_ = K_INV
        if opn == 'apply_local_op' and mk is None:
            opx = ops[step - 1]
            b = spec['build']
            real_state = (not b.get('cplx')) or b['method'] == 'product'
            first_complex = not any(o2['op'] in ('apply_local_op', 'swap_sites', 'permute_sites') for o2 in ops[:step - 1])
            nonunitary = 'mat' in opx and not is_unitary(cplx_mat(opx['mat']))
            if real_state and first_complex and nonunitary and opx.get('n') == 1 and np.abs(cplx_mat(opx['mat']).imag).max() > 0:
                key_ = K_CPLX
        opts = {k_: v_ for k_, v_ in ops[step - 1].items() if k_ not in ('op', 'mat', 'other', 'ops', 'rdm_after', 'parent')} if step > 0 else {}
        ctx.fail('oracle', '%s%s on an infinite MPS (stored forms before: %s; history %s): %s' % (
            opn, opts if step > 0 else '', prev_form, [o['op'] for o in ops[:step]], msg), info, match_key=key_)
        state['dead'] = True
    fk = r.get('forks') or {}
    for b in fk.get('bad', [])[:2]:
        step = int(b['key'].rsplit('_', 1)[1]) if b['key'].rsplit('_', 1)[1].isdigit() else len(ops)
        opn_ = ops[step - 1]['op'] if 0 < step <= len(ops) else '?'
        ctx.fail('oracle', '%s on an infinite MPS: the %s was modified by the call or by the later operations on the returned object (%s)' % (
            opn_, b['label'], b['diff']), info, match_key='C09:infinite:%s:aliasing' % opn_)
    for k, o in enumerate(obs):
        if k > 0:
            old_ref = ref
            op = ops[k - 1]
            ex = r['extra'][k - 1] if k - 1 < len(r['extra']) else {}
            if op['op'] == 'compute_K' and ex:
                check_compute_K(ref, op, ex, A, '%s_%d' % (key, k), lambda m_: fail(m_, k))
            if op['op'] == 'extract_segment':
                if o is not None:
                    check_inf_segment(ref, op, o, A, '%s_%d' % (key, k), lambda m_: fail(m_, k))
                return
            if 'must_raise' in op and ex:
                check_refusal(op, ex, lambda m_: fail(m_, k))
            ref.apply(op)
            if not (ref.raw_ratio > 1e-9):
                ctx.count('infinite-zero-result', [spec, ops[:k]], nontrivial=False)    # nothing to compare with
                return
            if op['op'].startswith('apply_') and ref.tm().gap > 1 - 1e-7:
                # the documented result has a degenerate dominant transfer-matrix eigenvalue: a superposition of several
                # pure infinite states, for which no canonical form (unique Schmidt decomposition per bond) exists
                ctx.count('infinite-degenerate-result', [spec, ops[:k]], nontrivial=False)
                return
            if op['op'] == 'permute_sites' and prev is not None and o is not None and ex:
                perm_lits.append(coq_lit((list(op['perm']), prev['dims'], [Nat(x) for x in ex['swaps']], o['dims'])))
                perm_meta.append(info)
            if op['op'] == 'enlarge_chi' and prev is not None and o is not None and 'perms' in ex:
                check_enlarge_perms(A, prev_kk, prev, '%s_%d' % (key, k), o, ex, False, lambda m_: fail(m_, k))
            if op['op'] == 'gauge_total_charge' and ex and ref.S().mod:
                check_gauge(op, ex, ref.S(), prev, lambda m_: fail(m_, k))
            if op['op'] == 'apply_local_op' and ex and 'warned' in ex and ('understood_infinite' in op or op.get('ui_default')):
                want_warn = not op.get('understood_infinite', False)
                if bool(ex['warned']) != want_warn:
                    fail('understood_infinite=%s: %s' % (op.get('understood_infinite', 'default (False)'),
                                                         'no warning about the parallel application in every unit cell' if want_warn else 'warned although suppressed'), k)
        if o is None:
            continue
        kk = '%s_%d' % (key, k)
        if 'sanity' in o and not leg_order_only(o, ops[:k]):
            fail('test_sanity raises ' + o['sanity'], k)
        nrm = cplx(o['norm'])
        if ref.reseed:
            Ms = ms_from_obs(A, kk, o)
            if Ms is None:
                fail('a stored tensor lost its form label / singular values', k)
                return
            new = IRef(Ms, ref.kinds, SI)
            new.norm = ref.norm
            segs = ops[k - 1].get('rdm_after') or case['want']['rdm']
            eps = r['extra'][k - 1].get('eps', 0.) if k - 1 < len(r['extra']) else 0.
            opx = ops[k - 1]
            if ref.reseed != 'perturb':
                worst = 0.
                for seg_ in segs[:6]:
                    a_, b_ = ref.tm().rdm(seg_), new.tm().rdm(seg_)
                    if a_.shape != b_.shape:
                        fail('site dimensions changed', k)
                        return
                    worst = max(worst, float(np.sum(np.linalg.svd(a_ - b_, compute_uv=False))))
                if eps < 1e-20 and worst > 1e-6:
                    fail('no truncation reported but the reduced density matrices changed by %.2e (trace norm)' % worst, k)
                if worst > 20 * np.sqrt(max(eps, 0.) * len(Ms)) + 1e-6:
                    fail('reduced density matrices changed by %.3e (trace norm), reported truncation error eps=%.3e' % (worst, eps), k)
                tp = opx.get('trunc') or {}
                if 'chi_max' in tp and o.get('chi') and max(o['chi']) > tp['chi_max']:
                    fail('bond dimensions %s after truncation with chi_max=%d' % (o['chi'], tp['chi_max']), k)
                new.approx = eps > 1e-14       # truncation leaves the canonical form only approximately
            ref = new
        L = len(ref.kinds)
        S = ref.S()
        if o['dims'] != S.dims:
            fail('site dimensions %s, expected %s' % (o['dims'], S.dims), k)
        if abs(abs(nrm) - ref.norm) > 1e-6 * max(1, ref.norm):
            fail('psi.norm = %r, expected %r%s' % (nrm, ref.norm, ' (tensors of different sites were the same object before this call)'
                                                   if prev is not None and prev.get('aliased_B') else ''), k,
                 K_ALIAS if (prev is not None and prev.get('aliased_B') and any(o2['op'] == 'enlarge_mps_unit_cell' for o2 in ops[:k])) else None)
        segs = (ops[k - 1].get('rdm_after') if k > 0 else None) or case['want']['rdm']
        if getattr(ref, 'pending', None) is not None or getattr(ref, 'approx', False):
            prev_form, prev, prev_kk = o['form'], o, kk          # not (exactly) canonical: nothing else to compare
            continue
        if not state['dead']:
            c07.seg_rdm_check(ctx, A, kk, o, segs, ref.tm().rdm, False, info, fail, k)
        zero_S = any(o2['op'] == 'enlarge_chi' for o2 in ops[:k]) and not any(
            o2['op'] in ('canonical_form', 'compress', 'compress_svd') for o2 in ops[:k])
        if not state['dead'] and o.get('norm_test', 0) > 1e-6 and not zero_S and not (k > 0 and ops[k - 1]['op'] in ('compress', 'compress_svd', 'perturb', 'group_split')):
            fail('norm_test() = %.2e' % o['norm_test'], k)
        if state['dead']:
            return
        prev_form = o['form']
        prev = o
        prev_kk = kk


def check_inf_segment(ref, op, o, A, kk, failf):
    """extract_segment(first, last) of an infinite MPS: the segment tensor with its outer Schmidt legs has the reduced density
    matrix of the infinite state on the sites first..last and its outer singular values are the Schmidt values of those bonds"""
    first, last = op['first'], op['last']
    th = c07.segment_dense(A, kk, o)
    if th is None:
        failf('a stored tensor of the segment lost its form label / singular values')
        return
    L = len(ref.kinds)
    dims = [ref.S().dims[i % L] for i in range(first, last + 1)]
    if list(th.shape[1:-1]) != dims:
        failf('segment sites have dimensions %s, expected %s' % (list(th.shape[1:-1]), dims))
        return
    if abs(np.linalg.norm(th) - ref.norm) > 1e-7 * max(1., ref.norm):
        failf('norm of the segment %.10f, psi.norm of the infinite state %.10f' % (np.linalg.norm(th), ref.norm))
    a = rdm_axes(th, list(range(1, th.ndim - 1)))
    b = ref.tm().rdm(list(range(first, last + 1)))
    if a.shape != b.shape or np.max(np.abs(a - b)) > 1e-7:
        failf('reduced density matrix of the segment on its sites differs from the one of the infinite state on sites %d..%d by %.2e' % (
            first, last, np.max(np.abs(a - b)) if a.shape == b.shape else -1))


def inf_segs(rng, L, dims):
    segs = [[i] for i in range(L)] + [[i, i + 1] for i in range(L)]
    for k in sorted(set([L, L + 1, 2 * L - 1, 2 * L + 1])):
        i = rng.randrange(L)
        if k >= 2:
            segs.append([i, i + k])
    return segs


# ------------------------------------------------------------------------------------------------ main

def run_chunks(script, cases, cov_names, nchunks=None):
    """as c07.run_chunks, plus the union of the executed lines of the recorded methods and the merged option log"""
    n = nchunks or min(common.NPROC, max(1, len(cases) // 4))
    chunks = [cases[i::n] for i in range(n)]
    res = common.run_impl_parallel(script, [{'kind': 'cases', 'cases': ch, 'cov_names': cov_names} for ch in chunks if ch])
    out = [None] * len(cases)
    errs, lines, optlog = [], {}, {}
    ci = 0
    for k, ch in enumerate(chunks):
        if not ch:
            continue
        r, err = res[ci]
        ci += 1
        if err:
            errs.append(err)
            continue
        A = np.load(r['npz'])
        A = {key: A[key] for key in A.files}
        for j, x in enumerate(r['results']):
            out[k + j * n] = (x, A, 'c%d' % j)
        for name, ls in (r.get('cov_lines') or {}).items():
            lines.setdefault(name, set()).update(ls)
        for m, row in (r.get('optlog') or {}).items():
            for pn, col in row.items():
                tgt = optlog.setdefault(m, {}).setdefault(pn, {})
                for v, c in col.items():
                    tgt[v] = tgt.get(v, 0) + c
    return out, errs, lines, optlog


def main(ctx):
    rng = ctx.rng
    script = 'c09_impl.py'
    ctx.proof = common.check_proofs('C09', extra_targets=['Model/MpsAddCheck.vo', 'Model/SwapSign.vo'])
    mult = 1 if ctx.proof.ok else 3
    SI = c07.get_siteinfo(script)
    import random as _random
    n_addblocks = c09_addblocks.add_blocks_stream(ctx, script, _random.Random(ctx.seed * 7919 + 909), ctx.pick(120, 300) * mult) or 0
    n_swapsign = c09_swapsign.swap_sign_stream(ctx, script, _random.Random(ctx.seed * 7919 + 910)) or 0
    nrng = np.random.default_rng(ctx.seed * 7919 + 9)
    nfin = ctx.pick(170, 1700) * mult
    ninf = ctx.pick(110, 1100) * mult
    cases, datas = [], []
    for c in common.corpus_cases('C09'):
        cases.append(c['case'])
        datas.append(G.build_data(c['case']['state'], SI) if c['case']['state']['bc'] == 'finite' else G.build_data_infinite(c['case']['state'], SI))
    for n in range(nfin):
        spec = c07.gen_finite_case(rng, allow=['product', 'full', 'full_sparse', 'bflat', 'circuit', 'singlets'], Lmax=7, maxdim=600)
        b = spec['build']
        if b['method'] == 'bflat' and max(b['chi']) == 1:
            continue
        if b['method'] in ('full', 'full_sparse'):
            b['normalize'] = True
        S = G.Sites(spec['sites'], SI)
        D0 = G.build_data(spec, SI)
        nzi = np.unravel_index(int(np.argmax(np.abs(D0['vec']))), D0['vec'].shape)
        Q0 = S.valid(np.sum([S.q[i][nzi[i]] for i in range(len(S.kinds))], axis=0)) if S.mod else []
        ops, _ = gen_finite_ops(rng, nrng, S, rng.randint(1, 5), Q0=Q0)
        if rng.random() < 0.15 and len(spec['sites']) >= 3:
            pass
        cases.append({'state': spec, 'ops': ops, 'want': {}})
        datas.append(G.build_data(spec, SI))
    # fermionic terms over all options of apply_local_term / apply_local_op / apply_product_op (own generators, so
    # that the streams above do not depend on it)
    frng = _random.Random(ctx.seed * 7919 + 911)
    fnrng = np.random.default_rng(ctx.seed * 7919 + 912)
    for n in range(ctx.pick(160, 1200) * mult):
        case, D0 = gen_fermi_case(frng, fnrng, SI)
        if case['ops']:
            cases.append(case)
            datas.append(D0)
    for n in range(ninf):
        L = rng.choice([2, 2, 3, 3, 4])
        kinds = G.gen_sites(rng, L, maxdim=20)
        L = len(kinds)
        if L < 2:
            continue
        spec = {'bc': 'infinite', 'sites': kinds, 'build': G.gen_infinite_build(rng, kinds)}
        if spec['build']['method'] == 'singlets':
            spec['build'] = {'method': 'product', 'seed': rng.randrange(1 << 30), 'cplx': False, 'form': G.gen_forms(rng, L)}
        D = G.build_data_infinite(spec, SI)
        if spec['build']['method'] == 'bflat' and not D['ok']:
            continue
        ops = [{'op': 'convert_form', 'forms': G.gen_forms(rng, L)}] if rng.random() < 0.7 else []
        real_state = (not spec['build'].get('cplx')) or spec['build']['method'] == 'product'
        ops += gen_infinite_ops(rng, nrng, kinds, SI, rng.randint(1, 4), real_state=real_state)
        # segments to compare after every operation (the unit cell may have grown)
        Lc = L
        dims = [G.std_table(k)[0] for k in kinds]
        for op in ops:
            if op['op'] == 'enlarge_mps_unit_cell':
                Lc *= op['factor']
            op['rdm_after'] = inf_segs(rng, Lc, dims)
        cases.append({'state': spec, 'ops': ops, 'want': {'rdm': inf_segs(rng, L, dims)}})
        datas.append(D)
    # every option class of every transformation method on every boundary condition (stratified; own generators)
    xrng = _random.Random(ctx.seed * 7919 + 913)
    xnrng = np.random.default_rng(ctx.seed * 7919 + 914)
    for case, D in c09_ext.gen_cases(xrng, xnrng, SI, reps=ctx.pick(1, 6) * mult):
        cases.append(case)
        datas.append(D)
    refl, stm = c09_cover.reflect()
    tnames = c09_cover.trace_names(refl)
    results, errs, cov_lines, optlog = run_chunks(script, cases, tnames)
    for attempt in range(2):
        # value classes whose calls were all refused / annihilated the state: draw again (the table below needs every class)
        lack = c09_cover.missing_classes(refl, optlog)
        if not lack or errs:
            break
        extra = c09_ext.gen_topup_cases(xrng, xnrng, SI, lack)
        if not extra:
            break
        res2, errs2, cov2, opt2 = run_chunks(script, [c_ for c_, _ in extra], tnames)
        cases += [c_ for c_, _ in extra]
        datas += [d_ for _, d_ in extra]
        results += res2
        errs += errs2
        for name, ls in cov2.items():
            cov_lines.setdefault(name, set()).update(ls)
        for m_, row in opt2.items():
            for pn, col in row.items():
                tgt = optlog.setdefault(m_, {}).setdefault(pn, {})
                for v_, c_ in col.items():
                    tgt[v_] = tgt.get(v_, 0) + c_
    for e in errs:
        ctx.fail('correspondence', 'implementation runner failed: ' + e[-600:], None)
    perm_lits, perm_meta, form_lits, form_meta = [], [], [], []
    hist = {}
    for case, D, res in zip(cases, datas, results):
        if res is None:
            continue
        r, A, key = res
        spec = case['state']
        bc = spec['bc']
        info = {'stream': case.get('stream', bc), 'case': case}
        for o in case['ops']:
            hist[bc + '/' + o['op']] = hist.get(bc + '/' + o['op'], 0) + 1
            if o['op'] == 'apply_local_term':
                hk = 'apply_local_term:%s%s%s%s' % ('odd' if sum(1 for nm, i_ in o['term'] if nm in FERMI_OPS) % 2 else 'even',
                                                    ',i_offset' if o.get('i_offset') else '', '' if o.get('autoJW', True) else ',noJW',
                                                    '' if o.get('canonicalize', True) else ',nocanon')
                hist[hk] = hist.get(hk, 0) + 1
        if 'build_error' in r:
            ctx.fail('correspondence', 'constructor raised (covered by C07): ' + r['build_error'][:300], info)
            continue
        if 'op_error' in r:
            e = r['op_error']
            opx = case['ops'][e['step']]
            fam = G.KINDS[spec['sites'][0]][2]
            if REFUSALS[1] in e['msg'] and fam in JW_BY_CHARGE and opx['op'] in ('apply_local_term', 'apply_local_op'):
                # the sites conserve N / the parity: the Jordan-Wigner signs ARE determined by the bond charges
                ctx.fail('oracle', '%s(%s) on a valid finite chain of %s raised %s: %s although the fermion parity is a '
                         'conserved charge and all shifted site indices lie inside the chain' % (
                             opx['op'], {k_: v_ for k_, v_ in opx.items() if k_ != 'op'}, sorted(set(spec['sites'])),
                             e['type'], e['msg'][:200]), info, match_key='C09:%s:%s:JW-refused' % (bc, opx['op']))
            elif any(m in e['msg'] for m in REFUSALS):
                ctx.count(bc + '-refused', [spec, case['ops']], nontrivial=False)     # explicit, documented refusal
            elif opx['op'] in ('gauge_total_charge', 'add') and e['type'] == 'NotImplementedError' and 'could be implemented' in e['msg'] and \
                    (bc == 'segment' or any(o2['op'] == 'extract_segment' for o2 in case['ops'][:e['step']])):
                ctx.count(bc + '-refused', [spec, case['ops']], nontrivial=False)     # explicit refusal: segment with recorded boundaries
            elif opx['op'] in APPLY_OPS and documented_zero(case, D, SI, e['step'],
                                                            v0=obs_dense(A, key + '_0', r['obs'][0], True)[0] if bc == 'segment' else None):
                # the documented result of the operator application / linear combination is the zero vector, which no (normalised) MPS
                # represents: the property says nothing about it, and tenpy documents no particular exception for it
                # ('destroys state', ZeroDivisionError in canonical_form, ArpackError 'Starting vector is zero' of the
                # nilpotent transfer matrix of an infinite state have all been observed)
                ctx.count(bc + '-zero-result', [spec, case['ops'][:e['step'] + 1]], nontrivial=False)
            elif opx['op'] == 'canonical_form' and e['step'] > 0 and case['ops'][e['step'] - 1]['op'] == 'apply_local_term' and \
                    documented_zero(case, D, SI, e['step'] - 1, v0=obs_dense(A, key + '_0', r['obs'][0], True)[0] if bc == 'segment' else None):
                ctx.count(bc + '-zero-result', [spec, case['ops'][:e['step'] + 1]], nontrivial=False)    # (term applied with canonicalize=False)
            elif 'destroys state' in e['msg'] or e['type'] == 'ZeroDivisionError':
                # legitimate only when the documented result is the zero vector
                ok = False
                if any(o2['op'] in ('compress', 'compress_svd', 'perturb') or o2.get('trunc_class') == 'truncating' for o2 in case['ops'][:e['step']]):
                    ok = True      # (reference not reconstructible here: the compressed state is taken from the run)
                if not ok:
                    ctx.fail('oracle', '%s raised %s: %s although the result is not the zero vector' % (opx['op'], e['type'], e['msg'][:150]), info,
                             match_key='C09:%s:%s:raises' % (bc, opx['op']))
            elif opx['op'] == 'enlarge_chi' and 'charges invalid for ChargeInfo' in e['msg'] and \
                    any(o2['op'] == 'spatial_inversion' for o2 in case['ops'][:e['step']]):
                ctx.fail('oracle', 'enlarge_chi with an integer extra leg raises ValueError(charges invalid) for mod-N charges after spatial_inversion '
                         '(vL legs then have qconj=-1 and get_charge returns -q, which is not reduced mod N)', info, match_key=K_ENL)
            elif opx['op'] == 'apply_product_op' and e['type'] == 'TypeError' and 'has no len' in e['msg'] and not isinstance(opx.get('single', ''), str):
                ctx.fail('oracle', 'apply_product_op(ops) with a single npc.Array (documented: "(list of) str | npc.Array") raises TypeError: ' + e['msg'][:80],
                         info, match_key=K_SINGLE)
            elif opx['op'] == 'extract_enlarged_segment' and e['type'] == 'AttributeError' and "'NoneType' object has no attribute" in e['msg'] and \
                    ees_one_sided(opx, {'new_first_last': list(ees_range(opx))}) and opx['parent']['bc'] == 'finite' and \
                    ees_range(opx) == (0, len(opx['parent']['sites']) - 1):
                ctx.fail('oracle', 'extract_enlarged_segment%s of a segment with recorded boundaries to the whole finite chain raises AttributeError: the final block '
                         'multiplies the old boundary with the (None) boundary of the finite result' % (
                             {k_: v_ for k_, v_ in opx.items() if k_ not in ('op', 'parent')},), info, match_key=K_EES)
            elif opx['op'] == 'add' and 'wrong qtotal' in e['msg']:
                ctx.fail('oracle', 'add() of two finite MPS in the same charge sector raises ValueError(wrong qtotal): the total charge is '
                         'distributed differently over the tensors of the two states', info, match_key=K_ADD)
            elif bc == 'infinite' and opx['op'] == 'spatial_inversion' and 'incompatible with len of singular values' in e['msg']:
                ctx.fail('oracle', 'spatial_inversion of an infinite MPS with non-uniform bond dimensions raises in test_sanity: _S is reversed '
                         'instead of mirrored around bond 0', info, match_key=K_INV)
            else:
                broken = any(o2['op'] == 'extract_enlarged_segment' and ees_one_sided(o2, {'new_first_last': list(ees_range(o2))})
                             for o2 in case['ops'][:e['step']])         # (operand with the wrong boundaries of the known finding)
                ctx.fail('oracle', '%s raised %s: %s on a valid %s MPS (history %s)' % (opx['op'], e['type'], e['msg'][:200], bc,
                                                                                  [o['op'] for o in case['ops'][:e['step']]]),
                         info, match_key=K_EES if broken else (K_SINV if broken_inversion(case['ops'][:e['step']], r['obs']) else
                                                               'C09:%s:%s:raises' % (bc, opx['op'])))
        if bc in ('finite', 'segment'):
            check_finite_case(ctx, case, r, A, key, D, SI, perm_lits, perm_meta)
        else:
            check_infinite_case(ctx, case, r, A, key, D, SI, perm_lits, perm_meta)
        chis = [max(o['chi']) for o in r['obs'] if o and o.get('chi')]
        ctx.count('fermi-terms' if case.get('fermi') else case.get('stream', bc), [spec, case['ops']], nontrivial=max(chis + [1]) > 1,
                  sample={'sites': spec['sites'], 'build': spec['build']['method'] if 'build' in spec else 'segment %s of %s' % (spec['segment'], spec['parent']['bc']),
                          'ops': [o['op'] for o in case['ops']], 'form0': r['obs'][0]['form'], 'chi0': r['obs'][0].get('chi')})
        fcase = dict(case, ops=[{'op': 'refused'} if 'must_raise' in o else
                                (dict({'shift': 1, 'factor': 2}, **o) if o['op'] in ('roll_mps_unit_cell', 'enlarge_mps_unit_cell') else o) for o in case['ops']])
        for lit in c07.form_cases(fcase, r, A, key, bc != 'infinite'):
            if isinstance(lit, tuple):
                form_lits.append(lit[1])
                form_meta.append(info)
    for name, imports, fn, lits, meta, what in (
            ('c09_perm', ['Base.Prelude', 'Model.Perms'], 'check_permute_case', perm_lits, perm_meta,
             'Model/Perms.v and permute_sites disagree on the sequence of adjacent swaps or the final arrangement of sites'),
            ('c09_form', ['Base.Prelude', 'Model.MpsIndex', 'Model.MpsForm'], 'check_form_case', form_lits, form_meta,
             'Model/MpsForm.v and the implementation disagree on labels / dimensions after one operation')):
        if not lits:
            continue
        bad, err = common.coq_failing_indices(name, imports, fn, lits)
        if err:
            ctx.fail('correspondence', 'model evaluation failed: ' + err[-500:], None)
        for b in bad[:3]:
            ctx.fail('correspondence', what + ' | ' + str(lits[b])[:600], meta[b])
        for _ in lits:
            ctx.count(name, len(ctx._distinct), nontrivial=False)
    ctx.cov['traces_validated_against_impl'] = len(perm_lits) + len(form_lits) + n_addblocks + n_swapsign
    ctx.cov['input_distribution'] = hist
    ctx.cov['line_table (statements of the anchored transformation methods executed in the runner processes)'] = c09_cover.line_table(stm, cov_lines, tnames)
    orows, omissing = c09_cover.option_coverage(refl, optlog)
    ctx.cov['option_table (public name x parameter -> value classes the calls received: count)'] = orows
    for x in omissing:
        ctx.fail('correspondence', 'coverage of the MPS transformation methods (public names and parameters of the anchored classes read from the '
                 'source): ' + x, {'stream': 'coverage', 'what': x})
    ctx.assumptions += [
        'C09 model: permutation loop and structure operations on labels/exponents/dimensions; block structure of add (Model/MpsAdd.v, stream add-blocks: integer tensors, trivial charges, canonical_form_finite stubbed); other tensor contents, SVD splits, compression and the canonicalisation inside add are oracle-checked only',
        'C09 oracle: dense states in the stored local basis (site operator matrices taken from the site classes, which C12 checks); fermionic signs of site permutations computed from occupation parities; '
        'operators whose Jordan-Wigner string is applied through bond charges are compared up to the documented global sign (relative signs are compared) and are only generated on chains whose sites are all fermionic; a refusal (cannot extract JW signs) is accepted only when no conserved charge carries the fermion parity; '
        'histories whose documented result is the zero vector (|O psi| < 1e-9 |psi|; infinite: dominant eigenvalue ratio of the unit-cell transfer matrix < 1e-9, or the transformed unit-cell tensors have no closed path of non-zero entries through the unit cell = nilpotent transfer matrix, which is what a term changing a conserved charge in every unit cell produces) are excluded from that point on: no normalised MPS represents the zero vector, so the property cannot speak about it, and whatever exception the operator application raises there (ValueError destroys state, ZeroDivisionError, ArpackError starting vector is zero) is accepted, while an exception on a non-zero documented result is reported; compression is checked against the angle bound sum arcsin sqrt(eps_i); '
        'infinite states through reduced density matrices from the transfer matrix of explicitly transformed unit-cell tensors (dominant eigenvectors verified / recomputed by inverse iteration); '
        'an operator application whose documented result has a degenerate dominant transfer-matrix eigenvalue (superposition of pure infinite states, no canonical form) ends the comparison',
        'C09 segments: the state of a segment MPS is psi.norm * U_L.theta.V_R in the ORIGINAL bases of its outer legs (segment_boundaries included, as in C07); the reference starts from the first observation of the segment '
        '(constructor: C07); operators needing a Jordan-Wigner string to the left of a segment are not generated (the string lives in the environment); gauge_total_charge / add refuse segments with recorded boundaries '
        '(NotImplementedError: accepted); enlarge_chi leaves the outer legs of a segment alone',
        'C09 truncating options: swap_sites / permute_sites / group_split with a truncating trunc_par (or the documented default chi_max = max(chi) of group_split) and compress(_svd): the state may change by the angle '
        'sum arcsin sqrt(eps_i) of the reported error (variational compression: 2 (L-1) arcsin sqrt(max eps), heuristic); afterwards the reference continues from the state of the run, and since such a truncation leaves '
        'the tensors only approximately canonical the next operation has to be canonical_form (generated that way); infinite states: reduced density matrices within 20 sqrt(eps L) + 1e-6 in trace norm (heuristic), exact when eps = 0',
        'C09 results that are not functions of the dense state: perturb (norm, charge sector, dtype real for real states, canonical form when requested; then continued from the run), extract_segment (norm, reduced density '
        'matrix on the kept sites and kept outer legs, Schmidt values), extract_enlarged_segment (normalised state = background A tensors . segment . background B tensors dumped from the background MPS; psi.norm is not compared: '
        'the method documents none), compute_K (ov is an eigenvalue - without charges the dominant one - of the dense mixed transfer matrix with the permuted unit cell; identity permutation: |W| = s^2, sum W = exp(i k), U unitary; '
        'non-trivial permutations only exchange sites of the same kind and, with charges, only the identity is drawn because the overlap may vanish in the charge sector compute_K looks at)',
        'C09 exclusions decided against the property text: swap_op=autoInv is drawn only on chains that are entirely fermionic or entirely non-fermionic (on mixed neighbours the string option takes the plain transposition '
        'while the documented operator would carry the phases (-i)^n; neither is a site permutation in the sense of the property); swap_op=None only without fermions; test_sanity complaining about the ORDER of tensor legs after '
        'apply_product_op(unitary=True) is ignored (every accessor works by label; the state is compared as usual); after operations that append exactly zero singular values (enlarge_chi, subspace_expansion, add(cutoff=None)) '
        'only operations that do not divide by singular values follow and norm_test() is not required to vanish (the alignment of singular values and bond basis is checked from the stored tensors instead); '
        'enlarge_mps_unit_cell / roll on finite chains, non-trivial charge shifts (no such sites among the C07 states) and the error branches listed as unreached in the line table are outside the quantifier',
    ]
    return ctx.finish(RULE, 'theorems of coq/Props/C09.v on the models; permute_sites swap sequences and structural label/dimension bookkeeping replayed on the models; '
                      'dense oracle after every operation of every history')


RULE = ('finite chains L 2-7 and infinite unit cells 2-4(-8 after enlarging) of spin/fermion/boson sites with and without conserved charges, built by the constructors of C07, '
        'in random stored forms; histories of 1-6 operations out of apply_local_op (named incl. fermionic, random 1-3 site, unitary or not, renormalize or not), apply_product_op, '
        'apply_local_term (odd and even numbers of fermionic operators, i_offset, autoJW, canonicalize, renormalize; infinite: even terms within one unit-cell length), swap_sites, permute_sites, add, group_sites+group_split, enlarge_chi, compress(_svd), spatial_inversion, roll_mps_unit_cell, enlarge_mps_unit_cell, convert_form; '
        'stream fermi-terms: chains of 3-8 fermionic sites conserving N / parity in states with both parities on every site, histories of 1-3 term / named-operator / product applications over all their options; '
        'streams options-*: for each of the 24 transformation methods of tenpy.networks.mps.MPS (incl. compute_K, perturb, subspace_expansion, get_grouped_mps, extract_(enlarged_)segment, gauge_total_charge, copy), each boundary condition '
        'it documents (finite L 2-6, infinite unit cells 2-4, segments of 2-5 sites of finite and infinite states with outer bonds chi > 1) and each value class of each parameter (c09_cover.OPTION_SPACE: defaults = keyword not passed, '
        'boundary indices 0 / L-1 / negative / beyond the unit cell / across the cell boundary, shift 0 / L, alpha, beta in {0, 1, real, complex}, swap_op auto / autoInv / None / explicit Array, trunc_par default / None / loose / truncating, '
        'cutoffs, LegCharge / None / int extra legs, operator legs in permuted order, single operator instead of a list, ...) at least one history [earlier operations] -> the call -> [operations on its result], re-drawn when the call was refused; '
        'stream refusals: 25 calls the documentation excludes; '
        'non-trivial = some bond dimension > 1; distinct = distinct (state spec, history)')
