"""C06 coverage audit, host side.

* line coverage of the anchored pure-python fusion code (LegCharge / LegPipe of tenpy/linalg/charges.py, the fusion entry
  points of Array in tenpy/linalg/np_conserved.py and their python workers) merged over all runner processes, per stream;
* classification of every function defined in the anchored classes (COVERED: every executable line has to be reached by
  some stream unless listed in LINE_EXCLUDED with a reason; EXCLUDED: reason from the property text);
* option table: every documented parameter of the fusion entry points x the classes of values the generators draw, with
  the number of cases per class (filled by harness/c06.py from the case tags).

A name that is neither covered nor classified, a covered function with an unreached line, a changed signature of an entry
point and an option class that was never drawn are correspondence failures (no failing input): the audit has to be redone
before the check can be trusted again."""
import re

LINES = {}        # stream -> {key: set(lines)}
EXECUTABLE = {}   # key -> sorted lines (None: function not found)


def add_lines(stream, rep):
    if not rep:
        return
    for k, v in rep['executable'].items():
        if k not in EXECUTABLE or EXECUTABLE[k] is None:
            EXECUTABLE[k] = v
    d = LINES.setdefault(stream, {})
    for k, v in rep['hit'].items():
        d.setdefault(k, set()).update(v)


def merged_hits():
    out = {}
    for stream, d in LINES.items():
        for k, v in d.items():
            o = out.setdefault(k, {})
            for l in v:
                o.setdefault(l, set()).add(stream)
    return out


def option_table(ctx, tag_counts, required, required_struct):
    """{tag: {config: n}} for every drawn option class / structural class; a required class with count 0 in the python
    configuration is a coverage hole"""
    table = {}
    for t in sorted(set(tag_counts) | set(required) | set(required_struct)):
        table[t] = {'cases_py': tag_counts.get(t, {}).get('py', 0), 'cases_cy': tag_counts.get(t, {}).get('cy', 0),
                    'required': t in required or t in required_struct}
    for t in list(required) + list(required_struct):
        if table[t]['cases_py'] == 0:
            ctx.fail('correspondence', 'coverage hole: option / structure class %r of the fusion entry points was not drawn in this run' % t, None)
    return table


# ------------------------------------------------------------------------------------------------
# classification of the functions of the anchored code
# ------------------------------------------------------------------------------------------------
# functions whose lines are NOT demanded, with the reason (from the property text)
EXCLUDED_FUNCS = {
    r'charges:Leg(Charge|Pipe)\.(save_hdf5|from_hdf5)$': 'HDF5 input/output of legs: property C17, not C06',
    r'charges:LegCharge\.from_(add|drop|change)_charge$': 'changes the ChargeInfo (adds / drops / changes a conserved quantity): no fusion and none of the leg '
                                                         'operations named by C06 (sort, bunch, project, extend, flip, conj)',
    r'charges:Leg(Charge|Pipe)\.__repr__$': 'debug output',
}
# helpers shared with other parts of np_conserved: only the branches the fusion code can reach are demanded
HELPERS = {
    'charges:_make_stride': 'the F-style branch (cstyle=False) is only used by tensordot / inner / detect_qtotal (C07-C09)',
    'charges:_map_blocks': 'the empty-input branch cannot be reached from split_legs (stored_blocks == 0 is handled before the worker)',
    'charges:_partial_qtotal': 'the add_qtotal / no-legs branches are only used by tensordot; LegPipe.__init__ calls it with add_qtotal=None',
}
# single lines of covered functions that no input of the property can reach: (function regex, regex on the line, regex on the previous line, reason)
LINE_EXCLUDED = [
    (r'.*', r'^\s*return$', r'OptimizationFlag\.skip_arg_checks', 'optimisation level 3 (skip_arg_checks) disables the check; the level is configuration, not an '
                                                                 'input of the property (runs use TENPY_OPTIMIZE=0 for python and the default level for the extension)'),
    (r'np_conserved:_split_legs_worker$', r'^\s*return res$', r'if self\.stored_blocks == 0:', 'dead code: Array.split_legs handles stored_blocks == 0 before calling the worker'),
]

# public names of LegCharge / LegPipe -> how the check covers them ('excluded: reason' when it does not)
PUBLIC = {
    'method stream (every result checked against the documented effect + pipe contract + Array split/recombine)': [
        'copy', 'conj', 'flip_charges_qconj', 'outer_conj', 'to_LegCharge', 'bunch', 'sort', 'project', 'extend', 'apply_charge_mapping'],
    'leg stream: accessor oracle (result compared with the blocks of the case)': [
        'get_slice', 'get_charge', 'get_qindex', 'get_qindex_of_charges', 'to_qflat', 'to_qdict', 'is_blocked', 'is_sorted', 'is_bunched',
        'get_block_sizes', 'charge_sectors', 'perm_flat_from_perm_qind', 'test_contractible', 'test_equal', 'test_sanity'],
    'leg stream: constructors (from_qind builds every case; from_qflat / from_qdict / from_trivial rebuilt from the accessors)': [
        'from_qind', 'from_qflat', 'from_qdict', 'from_trivial'],
    'pipe stream: every index tuple, negative / tuple / ndarray forms, rejections': ['map_incoming_flat'],
    'attribute': ['legs', 'nlegs', 'subshape', 'subqshape', 'q_map', 'q_map_slices', 'charges', 'slices', 'qconj', 'chinfo', 'ind_len',
                  'block_number', 'sorted', 'bunched'],
    'excluded: HDF5 input/output (C17)': ['save_hdf5', 'from_hdf5'],
    'excluded: changes the ChargeInfo, no statement of C06': ['from_add_charge', 'from_drop_charge', 'from_change_charge'],
    'excluded: not named by C06 (called once; a note records that it does not invert perm_flat_from_perm_qind for blocks larger than 1)': [
        'perm_qind_from_perm_flat'],
}

# signatures the option tables were written for (parameter names and defaults as repr)
SIGNATURES = {
    'charges:LegPipe.__init__': [['self', None], ['legs', None], ['qconj', '1'], ['sort', 'True'], ['bunch', 'True']],
    'charges:LegPipe._init_from_legs': [['self', None], ['sort', 'True'], ['bunch', 'True']],
    'charges:LegPipe.map_incoming_flat': [['self', None], ['incoming_indices', None]],
    'charges:LegPipe._map_incoming_qind': [['self', None], ['qind_incoming', None]],
    'charges:LegCharge.sort': [['self', None], ['bunch', 'True']],
    'charges:LegCharge.bunch': [['self', None]],
    'charges:LegCharge.project': [['self', None], ['mask', None]],
    'charges:LegCharge.extend': [['self', None], ['extra', None]],
    'charges:LegCharge.get_qindex': [['self', None], ['flat_index', None]],
    'charges:LegCharge.apply_charge_mapping': [['self', None], ['map_func', None], ['func_args', '()'], ['func_kwargs', '{}']],
    'np_conserved:Array.combine_legs': [['self', None], ['combine_legs', None], ['new_axes', 'None'], ['pipes', 'None'], ['qconj', 'None']],
    'np_conserved:Array.split_legs': [['self', None], ['axes', 'None'], ['cutoff', '0.0']],
    'np_conserved:Array.make_pipe': [['self', None], ['axes', None], ['kwargs', None]],
    'np_conserved:Array.as_completely_blocked': [['self', None]],
    'np_conserved:Array.sort_legcharge': [['self', None], ['sort', 'True'], ['bunch', 'True']],
}


def _source_lines(repo, key):
    import os
    mod = key.split(':')[0]
    fn = os.path.join(repo, 'tenpy', 'linalg', mod + '.py')
    try:
        return open(fn).read().split('\n')
    except OSError:
        return []


def function_table(ctx, repo, reflect):
    """evidence table function -> {class, lines, hit, streams, unreached}; fails for coverage holes / unclassified names"""
    hits = merged_hits()
    table = {}
    src_cache = {}
    summary = {'functions': 0, 'covered_functions': 0, 'excluded_functions': 0, 'helper_functions': 0, 'lines_demanded': 0, 'lines_reached': 0,
               'lines_excluded': 0, 'holes': 0}
    if not EXECUTABLE:
        ctx.fail('correspondence', 'no line coverage came back from the runners (sys.monitoring unavailable?)', None)
        return table, summary
    for key, ex in sorted(EXECUTABLE.items()):
        summary['functions'] += 1
        e = {'kind': (reflect or {}).get(key, {}).get('kind')}
        if ex is None:
            ctx.fail('correspondence', 'anchored function %s does not exist any more: redo the coverage audit of C06' % key, None)
            table[key] = {'class': 'missing'}
            continue
        h = hits.get(key, {})
        streams = {}
        for l, ss in h.items():
            for st in ss:
                streams[st] = streams.get(st, 0) + 1
        e['executable_lines'] = len(ex)
        e['lines_hit'] = len([l for l in ex if l in h])
        e['lines_hit_by_stream'] = dict(sorted(streams.items()))
        excl = [why for pat, why in EXCLUDED_FUNCS.items() if re.match(pat, key)]
        if excl:
            e['class'] = 'excluded: ' + excl[0]
            summary['excluded_functions'] += 1
            table[key] = e
            continue
        if key in HELPERS:
            e['class'] = 'helper (only the branches reachable from fusion are demanded): ' + HELPERS[key]
            summary['helper_functions'] += 1
            if e['lines_hit'] == 0:
                ctx.fail('correspondence', 'coverage hole: helper %s was never executed' % key, None)
                summary['holes'] += 1
            table[key] = e
            continue
        e['class'] = 'covered'
        summary['covered_functions'] += 1
        mod = key.split(':')[0]
        if mod not in src_cache:
            src_cache[mod] = _source_lines(repo, key)
        src = src_cache[mod]
        unreached = []
        for l in ex:
            if l in h:
                summary['lines_demanded'] += 1
                summary['lines_reached'] += 1
                continue
            text = src[l - 1] if 0 < l <= len(src) else ''
            prev = src[l - 2] if 1 < l <= len(src) else ''
            why = [r for fpat, lpat, ppat, r in LINE_EXCLUDED if re.match(fpat, key) and re.search(lpat, text) and re.search(ppat, prev)]
            if why:
                unreached.append({'line': l, 'text': text.strip(), 'excluded': why[0]})
                summary['lines_excluded'] += 1
            else:
                unreached.append({'line': l, 'text': text.strip(), 'excluded': None})
                summary['lines_demanded'] += 1
                summary['holes'] += 1
                ctx.fail('correspondence', 'coverage hole: line %d of %s (%s) was executed by no stream of the check' % (l, key, text.strip()), None)
        if unreached:
            e['unreached'] = unreached
        table[key] = e
    return table, summary


def public_table(ctx, reflect):
    """every public name of LegCharge / LegPipe has to be classified in PUBLIC; signatures of the entry points as in SIGNATURES"""
    out = {}
    if not reflect:
        ctx.fail('correspondence', 'no reflection of the anchored classes came back from the runner', None)
        return out
    how = {}
    for cls, names in PUBLIC.items():
        for n in names:
            how[n] = cls
    for cn in ('LegCharge', 'LegPipe'):
        names = reflect.get('public:' + cn)
        if names is None:
            ctx.fail('correspondence', 'class %s not found by reflection' % cn, None)
            continue
        t = {}
        for n in names:
            if n not in how:
                ctx.fail('correspondence', 'public name %s.%s is neither covered nor classified by the C06 check (harness/c06_cov.py: PUBLIC)' % (cn, n), None)
                t[n] = 'UNCLASSIFIED'
            else:
                t[n] = how[n]
        out[cn] = t
    sig = {}
    for key, want in SIGNATURES.items():
        got = (reflect.get(key) or {}).get('params')
        got2 = None if got is None else [[p[0], p[1]] for p in got]
        sig[key] = 'as audited' if got2 == want else 'CHANGED: %s' % (got2,)
        if got2 != want:
            ctx.fail('correspondence', 'signature of %s changed (%s, audited %s): the option table of C06 has to be revised' % (key, got2, want), None)
    out['signatures'] = sig
    return out
