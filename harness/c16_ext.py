"""C16 coverage audit: further generators and oracles (imported by harness/c16.py).

* wrapper trees (Sum / Shift / Boost / Orthogonal nested up to depth 3): matvec, to_matrix, adjoint, unwrapped, attribute
  delegation, list-valued vectors against the dense matrix written from the class documentation; the same trees are given to
  the Krylov solvers (wrap='tree') and to FlatLinearOperator,
* FlatLinearOperator / FlatHermitianOperator.eigenvectors (which, num_ev, v0 / v0_npc, cutoff, hermitian, charge_sector
  given / 0 / None / changed through the setter after use) against dense eig of the sector block,
* lanczos_arpack on one- and two-leg vectors,
* Ritz oracles written from the definition (Galerkin condition on the exact Krylov space of dimension N): used by
  oracle_lanczos / oracle_arnoldi of c16.py for ALL N (not only N = dim), plus the stop rule of the documented options
  N_min / N_max / P_tol / E_tol / min_gap / cutoff recomputed from the tridiagonal matrix of the run,
* gram_schmidt against a dense transcription of the documented procedure (rcond drawn from 1e-14 .. 2, rescaled inputs).
"""
import numpy as np
import scipy.linalg

import c16_gen as G

EPS = float(np.finfo(float).eps)


def sector_dim(spec):
    return len(G.sector_indices(spec['leg'], spec['sector']))


# ------------------------------------------------------------------------------ wrapper trees
def gen_tree(rng, spec, herm, depth=None, kinds=('sum', 'shift', 'boost', 'ortho'), for_solver=False, m=None):
    """a random wrapper tree; herm=True: the operator it stands for is Hermitian (real shifts and boosts, Hermitian leaves)"""
    m = sector_dim(spec) if m is None else m
    depth = rng.choice([1, 1, 2, 2, 3]) if depth is None else depth
    tree = ['leaf', rng.choice([0, 3]), bool(herm)]
    tag = 20
    for level in range(depth):
        kind = rng.choice(list(kinds))
        tag += 1
        cplx_vecs = bool(spec['cplx'] or rng.random() < 0.4)
        if kind == 'sum':
            other = ['leaf', rng.choice([5, 8]), bool(herm)]
            if rng.random() < 0.3:
                other = ['shift', other, [rng.choice([1.5, -0.25]), 0.0]]
            tree = ['sum', tree, other] if rng.random() < 0.7 else ['sum', other, tree]
        elif kind == 'shift':
            re = rng.choice([0.7, -4.0, 12.5, 0.0] if not for_solver else [0.7, -4.0, 12.5])
            im = 0.0 if (herm or rng.random() < 0.5) else rng.choice([0.5, -2.0])
            tree = ['shift', tree, [re, im]]
        elif kind == 'boost':
            nb = rng.choice([0, 1, 1, 2, 3]) if not for_solver else rng.choice([1, 1, 2, 3])
            bs = [[rng.choice([-3.0, 2.5, 10.0, 0.5]), 0.0 if (herm or rng.random() < 0.5) else rng.choice([1.0, -0.5])] for _ in range(nb)]
            tree = ['boost', tree, bs, tag, cplx_vecs, [rng.choice([1.0, 1.0, 0.5, 3.0]) for _ in range(max(1, nb))]]
        else:
            cnt = rng.choice([0, 1, 1, 2, 3]) if not for_solver else rng.choice([1, 1, 2, 3])
            if for_solver:
                cnt = min(cnt, max(0, m - 1))
            dep = bool(cnt >= 2 and rng.random() < 0.25)
            # (linearly dependent vectors only with norm O(1): what gram_schmidt leaves of them stays below its absolute rcond, see F16.10)
            scales = [1.0] if (dep or cnt > m) else [rng.choice([1.0, 1.0, 1e-3, 50.0]) for _ in range(max(1, cnt))]
            tree = ['ortho', tree, cnt, tag, cplx_vecs, dep, scales]
    return tree


def tree_is_complex(spec, tree):
    return bool(np.iscomplexobj(G.tree_dense(spec, tree)) and np.any(G.tree_dense(spec, tree).imag != 0))


def gen_spec2(rng, seed, spec, gen_spec):
    """a second leg with the same ChargeInfo (two-leg vectors theta[a, b])"""
    spec2 = gen_spec(rng, seed + 1, herm=spec['herm'], nmax=5)
    spec2['leg'] = G.random_leg_spec(rng, rng.choice([1, 2, 3, 4]))
    spec2['leg']['mods'] = spec['leg']['mods']
    spec2['leg']['charges'] = [[rng.randint(-1, 1) if mm == 1 else rng.randrange(mm) for mm in spec['leg']['mods']]
                               for _ in spec2['leg']['sizes']]
    spec2['sector'] = rng.randrange(len(spec2['leg']['sizes']))
    spec2['cplx'] = spec['cplx']
    spec2['start'] = 'random'
    spec2['scale'] = 1.0
    return spec2


def gen_wrapper(rng, seed, gen_spec):
    herm = rng.random() < 0.5
    two = rng.random() < 0.35
    spec = gen_spec(rng, seed, herm=herm, nmax=6 if two else 20)
    spec['start'] = 'random'
    spec2 = gen_spec2(rng, seed, spec, gen_spec) if two else None
    tree_herm = bool(herm and rng.random() < 0.7)
    d = len(G.pair_indices(spec, spec2)) if two else sector_dim(spec)
    tree = gen_tree(rng, spec, tree_herm, m=d)
    kinds = set(G.tree_kinds(tree))
    case = {'kind': 'wrapper', 'spec': spec, 'tree': tree, 'x_cplx': bool(spec['cplx'] or rng.random() < 0.5),
            'list_ok': kinds <= {'leaf', 'sum', 'shift'}, 'alpha': [rng.choice([0.5, -2.0, 1.0, 0.0]), rng.choice([0.0, 1.5])],
            'scale': rng.choice([2.0, -0.5, 1.0])}
    if two:
        case['spec2'] = spec2
    if tree_herm and d >= 2:
        nmax = min(d, 25)
        case['solve'] = {'N_min': nmax, 'N_max': nmax, 'N_cache': rng.choice([nmax, 2, 3]), 'reortho': rng.random() < 0.5, 'cutoff': 1e-11}
    return case


BOOST_KEY = 'C16:BoostNpcLinearOperator.to_matrix:shift-attribute'
ORTHO_KEY = 'C16:OrthogonalNpcLinearOperator.to_matrix:new-pipe-differs-from-matrix-leg:incompatible-LegCharge'


def cond_tol(scale, ratios, N):
    """tolerance for Ritz data: orthogonality of a Krylov basis is lost like eps / (smallest relative norm of a new vector)"""
    c = 1.0
    for r in ratios[:max(0, N - 1)]:
        c *= min(1.0, 10 * r)
    return scale * min(1e-3, max(1e-8, 1e-13 / max(c, 1e-300)))


def oracle_wrapper(case, r):
    """returns (problems, known-problems, info)"""
    spec, tree = case['spec'], case['tree']
    spec2 = case.get('spec2')
    D = G.tree_dense(spec, tree, spec2)
    n = D.shape[0]
    x = G.tree_vectors(spec, 1, 9, case['x_cplx'], None, spec2)[0]
    sc = max(1.0, np.linalg.norm(D, 2))
    tolv = 1e-10 * sc * max(1.0, np.linalg.norm(x))
    probs, known = [], []
    kinds = G.tree_kinds(tree)
    has_boost = 'boost' in kinds

    def cmp(name, ref, tol, what, boost_masks=False):
        v = r.get(name)
        if isinstance(v, dict) and 'error' in v:
            if boost_masks and has_boost:
                known.append('BoostNpcLinearOperator.to_matrix: %s raised %s' % (what, v['error']))
            elif boost_masks and 'ortho' in kinds and 'incompatible LegCharge' in v['error'] and \
                    ((spec2 is None and not r.get('leg_sorted_blocked', True)) or (spec2 is not None and spec['leg']['qconj'] == -1)):
                # combine_legs of the legs of the vectors gives a new pipe (sorted and bunched, qconj of the first leg) that differs from the
                # leg of the matrix: a single leg that is not sorted and bunched / several legs the first of which has qconj = -1
                known.append('OrthogonalNpcLinearOperator.to_matrix: %s raised %s' % (what, v['error'][:60]))
            else:
                probs.append('%s raised %s' % (what, v['error']))
            return
        a = G.dec(v)
        if a.shape != np.shape(ref):
            probs.append('%s has shape %s, expected %s' % (what, a.shape, np.shape(ref)))
            return
        d = np.linalg.norm(a - ref)
        if not d <= tol:
            if boost_masks and has_boost:
                known.append('BoostNpcLinearOperator.to_matrix: %s differs from the documented operator by %.3e (tree %s)' % (what, d, kinds))
            else:
                probs.append('%s differs from the documented operator by %.3e (tree %s)' % (what, d, kinds))
    cmp('mv', D @ x, tolv, 'matvec(x)')
    cmp('mv2', D @ x, tolv, 'matvec(x) after to_matrix()/adjoint() were taken from the same object')
    cmp('adj_mv', D.conj().T @ x, tolv, 'adjoint().matvec(x)')
    cmp('adj_adj_mv', D @ x, tolv, 'adjoint().adjoint().matvec(x)')
    cmp('mat', D, 1e-10 * sc * n, 'to_matrix()', True)
    cmp('adj_mat', D.conj().T, 1e-10 * sc * n, 'adjoint().to_matrix()', True)
    if not r.get('x_untouched'):
        probs.append('matvec modified its argument')
    if r.get('unwrapped_is_first_leaf') is not True:
        probs.append('unwrapped() is not the innermost original operator: %s' % (r.get('unwrapped_is_first_leaf'),))
    leaf = G.tree_first_leaf(tree)
    if r.get('delegated') != [1000 + leaf[1], ['a', 'b'] if spec2 else ['v'], 1000 + leaf[1]]:
        probs.append('attribute of the wrapped operator not reachable through the wrappers: %s' % (r.get('delegated'),))
    if case.get('list_ok'):
        ml = r.get('mv_list')
        x2 = G.dec(r['x2']) if 'x2' in r else None
        if isinstance(ml, dict) or ml is None or len(ml) != 2:
            probs.append('matvec on a list of two vectors: %s' % (ml,))
        elif np.linalg.norm(G.dec(ml[0]) - D @ x) > tolv or np.linalg.norm(G.dec(ml[1]) - D @ x2) > tolv:
            probs.append('matvec on a list of two vectors differs from the dense operator applied to each')
    hk = r.get('hooks_list')
    if hk is None or not isinstance(hk, dict) or 'error' in hk:
        probs.append('iadd_prefactor_other / iscale_prefactor on lists: %s' % (hk,))
    else:
        for a, b in zip(hk['w'] + hk['v'], hk['ref'] + hk['vref']):
            if np.linalg.norm(G.dec(a) - G.dec(b)) > 1e-12 * max(1.0, np.linalg.norm(G.dec(b))):
                probs.append('iadd_prefactor_other / iscale_prefactor on lists: w != (w + alpha v) * scale or v modified')
                break
    I = G.pair_indices(spec, spec2) if spec2 else G.sector_indices(spec['leg'], spec['sector'])
    if case.get('solve') and 'solve' in r:
        sv = r['solve']
        if 'error' in sv:
            probs.append('LanczosGroundState on the wrapped operator raised ' + sv['error'])
        else:
            Ms = D[np.ix_(I, I)]
            xs = G.dec(sv['psi'])
            if np.linalg.norm(np.delete(xs, I)) > 0:
                probs.append('LanczosGroundState on the wrapped operator: result leaves the charge sector')
            if sv['labels'] != (['a', 'b'] if spec2 else ['v']):
                probs.append('LanczosGroundState on the wrapped operator: labels %s' % sv['labels'])
            V, dk, ratios = krylov_basis(Ms, x[I], sv['N'])
            loss = plain_lanczos_loss(Ms, x[I], sv['N'])
            if dk == sv['N'] and loss < 1e-4:
                rp, _ = ritz_lanczos(Ms, x[I], sv['N'], sv['E'], xs[I], max(cond_tol(sc, ratios, sv['N']), 10 * sc * loss), sc)
                probs += ['LanczosGroundState on the wrapped operator (%s-leg vectors): %s' % (2 if spec2 else 1, p) for p in rp]
    return probs, known, {'kinds': kinds, 'dim': len(I), 'two': bool(spec2)}


# ------------------------------------------------------------------------------ FlatLinearOperator.eigenvectors
def wkey(which, z):
    which = {'LA': 'LR', 'SA': 'SR'}.get(which, which)
    return {'LM': -abs(z), 'SM': abs(z), 'LR': -z.real, 'SR': z.real, 'LI': -z.imag, 'SI': z.imag}[which]


def leg_sector_value(leg, block):
    """qtotal of a vector living in block `block` of the leg (includes qconj)"""
    return [leg['qconj'] * c for c in leg['charges'][block]]


def zero_sector_indices(leg):
    fc = G.flat_charges(leg)
    return [i for i, c in enumerate(fc) if all((v % mm == 0) if mm > 1 else v == 0 for v, mm in zip(c, leg['mods']))]


def target_indices(spec, cs):
    if cs is None:
        return list(range(sum(spec['leg']['sizes'])))
    if cs == 0:
        return zero_sector_indices(spec['leg'])
    return G.sector_indices(spec['leg'], spec['sector'])


def gen_flateig(rng, seed, gen_spec):
    herm = rng.random() < 0.55
    spec = gen_spec(rng, seed, herm=herm, nmax=20)
    spec['start'] = 'random'
    leg = spec['leg']
    cs = rng.choice(['block', 'block', 'block', None, None, 0])
    if cs == 0 and not zero_sector_indices(leg):
        cs = 'block'
    d = len(target_indices(spec, cs))
    num_ev = max(1, rng.choice([1, 1, 2, 3, d - 1, d, d + 1]))
    tree = None
    dense_path = num_ev >= d - 1
    if rng.random() < 0.3:
        # boost / ortho vectors live in the charge sector spec['sector']: such operators only act on vectors of that sector
        in_sector = cs == 'block' or (cs == 0 and target_indices(spec, 0) == G.sector_indices(leg, spec['sector']))
        kinds = ('sum', 'shift') if not in_sector else ('sum', 'shift', 'boost', 'ortho') if dense_path else ('sum', 'shift', 'boost')
        tree = gen_tree(rng, spec, herm, depth=rng.choice([1, 2]), kinds=kinds)
    if not dense_path and spec['spectrum'] in ('degenerate', 'lowrank', 'integer'):
        spec['spectrum'] = None        # ARPACK (one start vector) resolves an exactly degenerate eigenvalue only by rounding noise
    herm_cls = bool(herm and rng.random() < 0.5)
    herm_flag = bool(herm and not herm_cls and rng.random() < 0.3)
    if herm_cls or herm_flag:
        which = rng.choice(['LM', 'SM', 'LA', 'SA'])
    else:
        which = rng.choice(['LM', 'SM', 'LR', 'SR'] + (['LI', 'SI'] if (spec['cplx'] and not herm) else []))
    compact = rng.choice([None, None, True, False])
    use_setter = rng.random() < 0.4 and not (tree and set(G.tree_kinds(tree)) & {'boost', 'ortho'})
    cs_init = cs
    if use_setter:
        opts = [leg_sector_value(leg, rng.randrange(len(leg['sizes'])))]
        if zero_sector_indices(leg):
            opts.append(0)
        if compact is not True:
            opts.append(None)
        cs_init = rng.choice(opts)
    return {'kind': 'flateig', 'spec': spec, 'tree': tree, 'charge_sector': cs, 'cs_init': cs_init, 'use_setter': use_setter,
            'compact_flat': compact, 'herm_cls': herm_cls, 'hermitian_flag': herm_flag, 'which': which,
            'which_default': bool(which == 'LM' and rng.random() < 0.5), 'num_ev': num_ev, 'v0': rng.choice([None, 'flat', 'npc'] if cs is not None else [None, 'flat']),
            'cutoff': rng.choice([None, None, 1e-8]), 'max_num_ev': rng.choice([None, None, num_ev + 1]), 'tol': rng.choice([None, None, 1e-10]),
            'ctor_defaults': bool(tree and cs_init == 0 and compact is None and rng.random() < 0.7),
            'cs_kw_omitted': bool(not tree and cs_init == 0 and rng.random() < 0.5),
            'num_ev_default': bool(num_ev == 1 and rng.random() < 0.5)}


def oracle_flateig(case, r):
    """returns (problems, info)"""
    spec = case['spec']
    leg = spec['leg']
    cs = case['charge_sector']
    M = G.tree_dense(spec, case['tree']) if case.get('tree') else G.dense_operator(spec)
    I = target_indices(spec, cs)
    d = len(I)
    info = {'dim': d, 'rejected': False, 'path': 'dense' if case['num_ev'] >= d - 1 else 'arpack'}
    probs = []
    if 'init_error' in r:
        ok = case['compact_flat'] is True and (not r['blocked'] or case['cs_init'] is None)
        if not ok:
            probs.append('FlatLinearOperator(...) raised ValueError: ' + r['init_error'])
        info['rejected'] = True
        return probs, info
    if 'use_error' in r:
        none_involved = cs is None or case['cs_init'] is None
        if none_involved and not (r['blocked'] and r['sorted']) and r['use_error'].startswith('ValueError'):
            info['rejected'] = True     # all-sector vectors need a sorted, blocked leg (the pipes of tenpy are)
            return probs, info
        if cs is None and case['use_setter'] and r.get('compact0') and "Can't use `compact_flat`" in r['use_error']:
            info['rejected'] = True     # documented: compact flat vectors need one charge sector
            return probs, info
        if cs is None and case.get('ctor_defaults') and 'Label not found: None' in r['use_error']:
            info['known'] = 'FlatLinearOperator(npc_matvec, leg, dtype) [vec_label=None] with charge_sector=None: matvec raised ' + r['use_error']
            return probs, info
        probs.append('FlatLinearOperator matvec / charge_sector setter raised ' + r['use_error'])
        return probs, info
    if r['shape'] != [d, d] or r['mask_idx'] != I:
        probs.append('after %s: shape %s / flat indices %s, the charge sector has indices %s'
                     % ('the charge_sector setter' if case['use_setter'] else 'construction', r['shape'], r['mask_idx'][:8], I[:8]))
        return probs, info
    Md = M[np.ix_(I, I)]
    sc = max(1.0, np.linalg.norm(Md, 2)) if d else 1.0
    xr, xc = G.dec(r['xr']).real, G.dec(r['xc'])
    for name, xx in (('mv_real', xr), ('mv_cplx', xc), ('mv_col', xr)):
        if np.linalg.norm(G.dec(r[name]) - Md @ xx) > 1e-10 * sc * max(1.0, np.linalg.norm(xx)):
            probs.append('matvec (%s input) differs from the dense block' % {'mv_real': 'real', 'mv_cplx': 'complex', 'mv_col': 'N x 1'}[name])
    if r['mv_col_shape'] != [d]:
        probs.append('_matvec of an N x 1 matrix has shape %s' % r['mv_col_shape'])
    mm = G.dec(r['matmat'])
    if mm.shape != (d, 2) or np.linalg.norm(mm - Md @ np.stack([xr, xc], axis=1)) > 1e-10 * sc * max(1.0, np.linalg.norm(xc)):
        probs.append('matmat differs from the dense block')
    if case['herm_cls']:
        if not r.get('adjoint_is_self'):
            probs.append('FlatHermitianOperator.adjoint() is not the operator itself')
        if np.linalg.norm(G.dec(r['rmatvec']) - Md.conj().T @ xc) > 1e-10 * sc * max(1.0, np.linalg.norm(xc)):
            probs.append('FlatHermitianOperator.rmatvec differs from the dense block')
    if r['count_delta'] != 5 + bool(case['herm_cls']):
        probs.append('matvec_count increased by %d over %d products' % (r['count_delta'], 5 + bool(case['herm_cls'])))
    if 'arpack_noconv' in r:
        info['noconv'] = True
        return probs, info
    if 'eig_error' in r:
        probs.append('eigenvectors raised ' + r['eig_error'])
        return probs, info
    which = case['which']
    ev = np.linalg.eigvals(Md) if d else np.zeros(0)
    dense_keys = sorted(wkey(which, z) for z in ev)
    hermitian = bool(spec['herm'] and (case['herm_cls'] or case['hermitian_flag']))      # eigsh / eigh: orthonormal eigenvectors
    real_li = which in ('LI', 'SI') and not np.iscomplexobj(M) and info['path'] == 'arpack'
    loose = case.get('maxiter') is not None         # ARPACK was stopped early: only what the documentation promises for the retry
    rtol = 1e-7 if not loose else 100 * max(case.get('max_tol') or 1e-12, 1e-12)
    info['retried'] = bool(r.get('retried'))
    for nm in ('first', 'second'):
        res = r.get(nm)
        if res is None:
            continue
        eta = G.dec(res['eta'])
        k = len(eta)
        kmin = min(case['num_ev'], d)
        kmax = max(kmin, min(d, (case['max_num_ev'] or case['num_ev'] + 2)))
        if not (kmin <= k <= kmax) or len(res['vecs']) != k:
            probs.append('%s call: %d eigenvalues / %d vectors for num_ev=%d (dimension %d)' % (nm, k, len(res['vecs']), case['num_ev'], d))
            continue
        keys = [wkey(which, z) for z in eta]
        if any(keys[i] > keys[i + 1] + 1e-9 * sc for i in range(k - 1)):
            probs.append('%s call: eigenvalues %s not sorted as which=%s requests' % (nm, list(eta), which))
        if not real_li and not loose and any(abs(a - b) > 1e-6 * sc for a, b in zip(keys, dense_keys[:k])):
            probs.append('%s call: eigenvalues %s are not the %d extremal ones for which=%s (dense: keys %s)' % (nm, list(eta), k, which, dense_keys[:k]))
        W = []
        for j in range(k):
            w = G.dec(res['vecs'][j])
            W.append(w)
            if np.linalg.norm(np.delete(w, I)) > 0:
                probs.append('%s call: eigenvector %d has weight outside the charge sector' % (nm, j))
            ws = w[I]
            if abs(np.linalg.norm(w) - 1) > 1e-8:
                probs.append('%s call: eigenvector %d has norm %.12g' % (nm, j, np.linalg.norm(w)))
            if np.linalg.norm(Md @ ws - eta[j] * ws) > rtol * sc:
                probs.append('%s call: residual |H w - eta w| = %.3e for pair %d (eta = %s)' % (nm, np.linalg.norm(Md @ ws - eta[j] * ws), j, eta[j]))
            if res['labels'][j] != [None if case.get('ctor_defaults') else 'v'] or not res['leg_ok'][j]:
                probs.append('%s call: eigenvector %d has labels %s / a different leg' % (nm, j, res['labels'][j]))
            if cs is None:
                # a definite charge: weight in exactly one sector of the leg
                fc = G.flat_charges(leg)
                secs = set(fc[i] for i in np.nonzero(np.abs(w) > 0)[0])
                if len(secs) > 1:
                    probs.append('%s call: charge_sector=None eigenvector %d lives in several charge sectors %s' % (nm, j, sorted(secs)))
        if hermitian and k > 1:
            Wm = np.array(W).T
            gd = np.linalg.norm(Wm.conj().T @ Wm - np.eye(k))
            if gd > (1e-6 if not loose else 1e-2):
                probs.append('%s call: eigenvectors of a Hermitian operator not orthonormal: |W^dagger W - 1| = %.3e' % (nm, gd))
    if 'first' in r and 'second' in r:
        e1, e2 = G.dec(r['first']['eta']), G.dec(r['second']['eta'])
        if len(e1) == len(e2) and not real_li and not loose and any(abs(wkey(which, a) - wkey(which, b)) > 1e-6 * sc for a, b in zip(e1, e2)):
            probs.append('second eigenvectors() call on the same object (start vector from the first result) gives %s, the first %s' % (list(e2), list(e1)))
    return probs, info


# ------------------------------------------------------------------------------ lanczos_arpack
def pair_sector_indices(spec, spec2):
    fa, fb = G.flat_charges(spec['leg']), G.flat_charges(spec2['leg'])
    mods = spec['leg']['mods']
    ja, jb = spec['leg']['qconj'], spec2['leg']['qconj']

    def tot(a, b):
        return tuple(((ja * u + jb * v) % mm) if mm > 1 else (ja * u + jb * v) for u, v, mm in zip(a, b, mods))
    want = tot(tuple(spec['leg']['charges'][spec['sector']]), tuple(spec2['leg']['charges'][spec2['sector']]))
    return [(i, j) for i, a in enumerate(fa) for j, b in enumerate(fb) if tot(a, b) == want]


def gen_arpack(rng, seed, gen_spec):
    if rng.random() < 0.6:
        spec = gen_spec(rng, seed, herm=True, nmax=20)
        spec['start'] = rng.choice(['random', 'random', 'basis'])
        d = sector_dim(spec)
        case = {'kind': 'arpack', 'mode': 'vector', 'spec': spec, 'wrap_shift': rng.choice([None, None, 2.5, -7.0])}
    else:
        spec = gen_spec(rng, seed, herm=True, nmax=6)
        spec2 = gen_spec(rng, seed + 1, herm=True, nmax=5)
        spec2['leg'] = G.random_leg_spec(rng, rng.choice([1, 2, 3, 4]))
        spec2['leg']['mods'] = spec['leg']['mods']
        spec2['leg']['charges'] = [[rng.randint(-1, 1) if mm == 1 else rng.randrange(mm) for mm in spec['leg']['mods']]
                                   for _ in spec2['leg']['sizes']]
        spec2['sector'] = rng.randrange(len(spec2['leg']['sizes']))
        spec['start'] = spec2['start'] = 'random'
        spec['scale'] = spec2['scale'] = 1.0
        d = len(pair_sector_indices(spec, spec2))
        case = {'kind': 'arpack', 'mode': 'two', 'spec': spec, 'spec2': spec2, 'label_order': rng.choice([['a', 'b'], ['b', 'a']])}
    case['opts'] = {'P_tol': rng.choice([None, None, 1e-10, 1e-6]),
                    'N_min': rng.choice([None, None, d, max(5, d // 2)]) if d >= 5 else None}
    case['dim'] = d
    case['no_options'] = bool(case['opts']['P_tol'] is None and case['opts']['N_min'] is None and rng.random() < 0.5)
    return case


def oracle_arpack(case, r):
    spec = case['spec']
    probs = []
    M = G.dense_operator(spec)
    tolf = max(1e-8, 1e3 * (case['opts'].get('P_tol') or 0.0))
    if case['mode'] == 'vector':
        I = G.sector_indices(spec['leg'], spec['sector'])
        s = case.get('wrap_shift') or 0.0
        Md = M[np.ix_(I, I)] + s * np.eye(len(I))
        x = G.dec(r['psi'])
        if np.linalg.norm(np.delete(x, I)) > 0 or not r['qtotal_ok']:
            probs.append('lanczos_arpack: result leaves the charge sector of the guess')
        xs = x[I]
        want_labels = ['v']
        if not r.get('psi_in_untouched', True):
            probs.append('lanczos_arpack modified the guess it was given')
    else:
        spec2 = case['spec2']
        MB = G.dense_operator(spec2)
        K = np.kron(M, np.eye(MB.shape[0])) + np.kron(np.eye(M.shape[0]), MB)
        nb = MB.shape[0]
        pairs = pair_sector_indices(spec, spec2)
        I = [i * nb + j for i, j in pairs]
        Md = K[np.ix_(I, I)]
        X = G.dec(r['psi'])
        x = X.reshape(-1)
        if np.linalg.norm(np.delete(x, I)) > 0 or not r['qtotal_ok']:
            probs.append('lanczos_arpack: result leaves the charge sector of the guess')
        xs = x[I]
        want_labels = case['label_order']
    sc = max(1.0, np.linalg.norm(Md, 2))
    lam = np.linalg.eigvalsh(Md)
    # a guess inside an invariant subspace (product guess of an operator that conserves the charge of each leg separately, unit vectors of
    # a block-diagonal sector) confines the Lanczos iteration to it: the smallest eigenvalue there is accepted as well
    g = G.dec(r['guess']).reshape(-1)[I] if 'guess' in r else G.start_vector(spec, M)[I]
    Vg, dg, _ = krylov_basis(Md, g, len(I))
    if 0 < dg < len(I):
        Tg = Vg.conj().T @ Md @ Vg
        lam_inv = np.linalg.eigvalsh((Tg + Tg.conj().T) / 2)[0]
        if abs(r['E'] - lam_inv) < abs(r['E'] - lam[0]):
            lam = np.array([lam_inv])
    if r['labels'] != want_labels:
        probs.append('lanczos_arpack: labels of the result %s, of the guess %s' % (r['labels'], want_labels))
    if abs(r['E'] - lam[0]) > tolf * sc or r['E_imag'] != 0:
        probs.append('lanczos_arpack: E0 = %.12g (imag %g), smallest eigenvalue of the sector %.12g' % (r['E'], r['E_imag'], lam[0]))
    if abs(np.linalg.norm(xs) - 1) > 1e-8:
        probs.append('lanczos_arpack: |psi0| = %.12g' % np.linalg.norm(xs))
    res = np.linalg.norm(Md @ xs - r['E'] * xs)
    if res > max(1e-7, 1e2 * np.sqrt(case['opts'].get('P_tol') or 0.0)) * sc:
        probs.append('lanczos_arpack: residual |H psi0 - E0 psi0| = %.3e' % res)
    return probs, {'dim': len(I)}


# ------------------------------------------------------------------------------ Ritz oracles (from the definition)
def krylov_basis(Ms, v0, N):
    """exact orthonormal basis of K_N(Ms, v0) (dense Arnoldi, orthogonalised twice); (V, d, ratios), d <= N the dimension reached"""
    m = Ms.shape[0]
    nr = np.linalg.norm(v0)
    if m == 0 or nr == 0 or N <= 0:
        return np.zeros((m, 0), dtype=complex), 0, []
    scale = max(1e-300, np.linalg.norm(Ms, 2))
    V = [v0 / nr]
    ratios = []
    while len(V) < min(m, N):
        w = Ms @ V[-1]
        for _ in range(2):
            for v in V:
                w = w - np.vdot(v, w) * v
        nw = np.linalg.norm(w)
        if nw < 1e-9 * scale:
            break
        ratios.append(nw / scale)
        V.append(w / nw)
    return np.array(V).T, len(V), ratios


def plain_lanczos_loss(Ms, v0, N):
    """loss of orthogonality max |<v_i|v_j> - delta_ij| of the three-term recurrence WITHOUT re-orthogonalisation in double precision on this
    input (dense transcription of the textbook algorithm): converged Ritz values (outliers of the spectrum) destroy the orthogonality of the
    later vectors; only used to widen tolerances, never to judge"""
    nr = np.linalg.norm(v0)
    if nr == 0 or N <= 1:
        return 0.0
    scale = max(1e-300, np.linalg.norm(Ms, 2))
    V = [v0 / nr]
    beta = 0.0
    for k in range(N - 1):
        w = Ms @ V[-1]
        a = np.vdot(V[-1], w).real
        w = w - a * V[-1]
        if k > 0:
            w = w - beta * V[-2]
        beta = np.linalg.norm(w)
        if beta < 1e-14 * scale:
            break
        V.append(w / beta)
    Vm = np.array(V).T
    return float(np.max(np.abs(Vm.conj().T @ Vm - np.eye(Vm.shape[1]))))


def plain_arnoldi_loss(Ms, v0, N):
    """loss of orthogonality of the textbook Arnoldi iteration with ONE pass of modified Gram-Schmidt in double precision on this input
    (errors grow by |A| / h[k+1,k] per step: operators with a shift that is large against the spread of the spectrum lose it within ~15
    steps); only used to widen tolerances, never to judge"""
    nr = np.linalg.norm(v0)
    if nr == 0 or N <= 1:
        return 0.0
    scale = max(1e-300, np.linalg.norm(Ms, 2))
    V = [v0 / nr]
    for k in range(N - 1):
        w = Ms @ V[-1]
        for q in V:
            w = w - np.vdot(q, w) * q
        nw = np.linalg.norm(w)
        if nw < 1e-14 * scale:
            break
        V.append(w / nw)
    Vm = np.array(V).T
    return float(np.max(np.abs(Vm.conj().T @ Vm - np.eye(Vm.shape[1]))))


def ritz_lanczos(Ms, v0s, N, E_run, x, tol, scale):
    """E_run must be the smallest Ritz value of Ms on K_N(v0), x a normalised vector of K_N fulfilling the Galerkin condition"""
    probs = []
    V, d, _ = krylov_basis(Ms, v0s, N)
    if d != N:
        return probs, 0.0
    T = V.conj().T @ Ms @ V
    th = np.linalg.eigvalsh((T + T.conj().T) / 2)
    margin = abs(E_run - th[0]) / (10 * tol)
    if abs(E_run - th[0]) > 10 * tol:
        probs.append('E0 (+E_shift) = %.12g is not the smallest Ritz value %.12g of the operator on the Krylov space of dimension N=%d '
                     '(Ritz values %s)' % (E_run, th[0], N, list(np.round(th[:3], 10))))
    out = np.linalg.norm(x - V @ (V.conj().T @ x))
    vt = max(1e-7, 100 * tol / scale)
    margin = max(margin, out / vt)
    if out > vt:
        probs.append('returned vector leaves the Krylov space span{psi0, H psi0, .., H^(N-1) psi0}: distance %.3e (N=%d)' % (out, N))
    gal = np.linalg.norm(V.conj().T @ (Ms @ x - E_run * x))
    margin = max(margin, gal / (100 * tol))
    if gal > 100 * tol:
        probs.append('Galerkin condition violated: |V^dagger (H psi - E0 psi)| = %.3e on the Krylov space of dimension N=%d' % (gal, N))
    return probs, margin


def krylov_expm(Ms, v0s, N, delta):
    """the Krylov approximation of exp(delta Ms) v0 on K_N: |v0| V exp(delta V^dagger Ms V) e_1 (None if K_N is not N-dimensional)"""
    V, d, _ = krylov_basis(Ms, v0s, N)
    if d != N:
        return None
    T = V.conj().T @ Ms @ V
    e1 = np.zeros(N, dtype=complex)
    e1[0] = np.linalg.norm(v0s)
    return V @ (scipy.linalg.expm(delta * T) @ e1)


def ritz_arnoldi(Ms, v0s, N, which_key, E_run, xs, tol, scale, herm):
    """E_run[i], xs[i]: the i-th Ritz pair in the requested order; Galerkin condition on the exact Krylov space, extremality among
    the Ritz values of the projected matrix, orthonormality of the vectors for Hermitian operators"""
    probs = []
    V, d, _ = krylov_basis(Ms, v0s, N)
    if d != N:
        return probs, 0.0
    Hm = V.conj().T @ Ms @ V
    th = np.linalg.eigvals(Hm)
    dk = sorted(which_key(z) for z in th)
    k = len(E_run)
    margin = 0.0
    ktol = max(1e-6 * scale, 1e3 * tol)
    for i in range(k):
        dev = abs(which_key(E_run[i]) - dk[i])
        margin = max(margin, dev / ktol)
        if dev > ktol:
            probs.append('Ritz value %d = %s is not the %d-th of the Ritz values of the operator on the Krylov space of dimension N=%d in the '
                         'requested order (expected key %.10g, got %.10g)' % (i, E_run[i], i, N, dk[i], which_key(E_run[i])))
            break
    for i, x in enumerate(xs[:k]):
        out = np.linalg.norm(x - V @ (V.conj().T @ x))
        gal = np.linalg.norm(V.conj().T @ (Ms @ x - E_run[i] * x))
        vt = max(1e-7, 100 * tol / scale)
        margin = max(margin, out / vt, gal / max(1e-6 * scale, 1e3 * tol))
        if out > vt:
            probs.append('Ritz vector %d leaves the Krylov space of dimension N=%d: distance %.3e' % (i, N, out))
        elif gal > max(1e-6 * scale, 1e3 * tol):
            probs.append('Ritz pair %d violates the Galerkin condition: |V^dagger (H x - theta x)| = %.3e' % (i, gal))
    if herm and k > 1 and not probs:
        # eigenvectors of the (numerically Hermitian) Hessenberg matrix from a general eigensolver are orthogonal up to eps / gap:
        # judged only when the requested Ritz values are separated from all others
        ths = sorted(th.real)
        gap = min([b - a for a, b in zip(ths, ths[1:])] or [scale])
        gtol = max(1e-6, 1e-10 * scale / max(1e-300, gap), 100 * tol / max(1e-300, gap))     # (tol: conditioning of the Krylov basis)
        X = np.array(xs[:k]).T
        gd = np.linalg.norm(X.conj().T @ X - np.eye(k))
        if gap > 1e-6 * scale:
            margin = max(margin, gd / gtol)
        if gap > 1e-6 * scale and gd > gtol:
            probs.append('Ritz vectors of a Hermitian operator not orthonormal: |X^dagger X - 1| = %.3e' % gd)
    return probs, margin


def lanczos_stop_rule(alpha, beta, N, opts, cutoff_default, evo_delta=None):
    """the iteration count the documented options ask for, recomputed from the tridiagonal matrix of the run
    (None if a comparison is too close to call)."""
    N_min, N_max = opts['N_min'], opts['N_max']
    P_tol = opts.get('P_tol') if opts.get('P_tol') is not None else 1e-14
    E_tol = opts.get('E_tol') if opts.get('E_tol') is not None else np.inf
    min_gap = opts.get('min_gap') if opts.get('min_gap') is not None else 1e-12
    cutoff = opts.get('cutoff') if opts.get('cutoff') is not None else cutoff_default

    def close(a, b):
        return b > 0 and np.isfinite(b) and 0.2 < a / b < 5.0
    E_prev = None
    for k in range(min(N_max, len(alpha))):
        T = np.diag(alpha[:k + 1]) + np.diag(beta[:k], 1) + np.diag(beta[:k], -1)
        w, U = np.linalg.eigh(T)
        b = abs(beta[k])
        if close(b, cutoff):
            return None
        if b < cutoff:
            return k + 1
        if k + 1 >= N_min and k >= 1:
            if evo_delta is None:
                ritz = abs(U[k, 0]) * b
                gap_raw = w[1] - w[0]
                if close(gap_raw, min_gap) and gap_raw != min_gap:
                    return None
                gap = max(gap_raw, min_gap)
                P_err = (ritz / gap) ** 2
                dE = E_prev - w[0]
                if close(P_err, P_tol) or close(abs(dE), E_tol) or (np.isfinite(E_tol) and abs(dE) < 1e-13 * max(1.0, abs(w[0]))):
                    return None
                if P_err < P_tol and dE < E_tol:
                    return k + 1
            else:
                c = U @ (np.exp(w * evo_delta) * U[0, :].conj())
                c = c / np.linalg.norm(c)
                if close(abs(c[k]), P_tol) or abs(c[k]) < 1e-15:
                    return None
                if abs(c[k]) < P_tol:
                    return k + 1
        E_prev = w[0]
    return N_max


# ------------------------------------------------------------------------------ gram_schmidt from the documentation
def gs_dense(V, rcond):
    """`In place Gram-Schmidt: vectors of norm < rcond (after projecting out previous vectors) are discarded`;
    returns (kept indices, orthonormal vectors, ambiguous): ambiguous when some norm is within a factor 100 of rcond or a vector
    that is pure rounding noise after the projection could pass a tiny rcond"""
    res, idx = [], []
    ambiguous = False
    gs_dense.noise = False
    gs_dense.solid = 0
    for i, v in enumerate(V):
        v = np.array(v, dtype=complex)
        n0 = np.linalg.norm(v)
        for q in res:
            v = v - np.vdot(q, v) * q
        n = np.linalg.norm(v)
        if n <= 1e-12 * n0:
            if rcond < 1e-10 * n0:
                ambiguous = True
                gs_dense.noise = True      # what is left of this vector is rounding noise that may exceed the absolute rcond
        elif rcond / 100 < n < rcond * 100:
            ambiguous = True
        if n > rcond:
            res.append(v / n)
            idx.append(i)
            gs_dense.solid += bool(n > 1e-12 * n0)
    return idx, res, ambiguous
