"""C06: generator of the array stream over the OPTION SPACES and CALL FORMS of the fusion entry points of Array
(combine_legs / split_legs / make_pipe / as_completely_blocked / sort_legcharge), read from their docstrings:

    combine_legs(combine_legs : (iterable of) iterable of {str|int},
                 new_axes     : None | (iterable of) int,
                 pipes        : None | (iterable of) {LegPipe | None},
                 qconj        : (iterable of) {+1, -1})
    split_legs(axes : None | (iterable of) int|str, cutoff : float)
    make_pipe(axes : iterable of str|int, **kwargs of LegPipe: qconj, sort, bunch)
    sort_legcharge(sort : True | False | list of {True, False, perm}, bunch : True | False | list of {True, False})

Every case carries the classes it draws as tags 'parameter=class'; REQUIRED lists the classes that every run has to
contain (forced by the wishes in FEATURES for the first cases of the stream, the rest is a random mix), the runner adds
structural tags (number of stored blocks, ties in the fused charge, ...).  harness/c06.py turns the tag counts into the
option table of the evidence and fails when a required class was never drawn."""

MODS = [[], [1], [2], [3], [1, 1], [1, 2], [3, 1], [2, 3], [1], [1]]

CL_FORMS = ['nested-list', 'nested-tuple', 'flat-list', 'flat-tuple', 'ndarray', 'generator']
REFS = ['int', 'label', 'mixed']
NA_FORMS = ['none', 'list', 'tuple', 'ndarray', 'int']
QCONJ_FORMS = ['none', 'int', 'list', 'tuple', 'ndarray']
PIPES_FORMS = ['none', 'list', 'tuple', 'single']
SPLIT_FORMS = ['none', 'int-list', 'label-list', 'negative-list', 'tuple', 'single-int', 'single-label', 'partial']
CUTOFFS = ['0', 'below-all-entries', 'above-some-entries']
BLOCKS = ['all', 'some-missing', 'one', 'none']
DTYPES = ['float', 'complex', 'int']

# wishes forced on the first len(FEATURES) cases of every run (each is completed randomly)
FEATURES = (
    [{'cl_form': f} for f in CL_FORMS] + [{'ref': r} for r in REFS] +
    [{'na_form': f} for f in NA_FORMS] + [{'na_form': 'list', 'na_neg': True}, {'na_form': 'tuple', 'na_neg': True},
                                          {'na_form': 'ndarray', 'na_neg': True}, {'na_form': 'int', 'na_neg': True}] +
    [{'qconj_form': f} for f in QCONJ_FORMS] +
    [{'pipes_form': f, 'pipes_rel': r, 'pipes_via': v} for f in PIPES_FORMS[1:] for r in ('same', 'conj')
     for v in ('LegPipe', 'make_pipe')] +
    [{'pipes_form': 'list', 'pipes_rel': r, 'pipes_partial': True, 'ngroups': 2, 'rank': 4} for r in ('same', 'conj')] +
    [{'pipes_form': 'list', 'pipes_rel': 'conj', 'pipes_qconj': q, 'transpose': True} for q in (1, -1)] +
    [{'split_form': f} for f in SPLIT_FORMS] + [{'cutoff': c} for c in CUTOFFS] +
    [{'blocks': b} for b in BLOCKS] + [{'blocks': 'none', 'split_form': 'partial'}, {'blocks': 'one', 'single_block_legs': True}] +
    [{'dtype': d} for d in DTYPES] + [{'rank': 1}, {'rank': 5}, {'zero_size': True}, {'zero_size': True, 'blocks': 'one'},
                                      {'shuffle': True}, {'pre_transpose': True}, {'badlabel': True}, {'proj': True},
                                      {'proj': True, 'ngroups': 2, 'rank': 4}, {'sort_perm': True}, {'sort_perm': True, 'bunch_legs': True},
                                      {'group_size': 1}, {'group_size': 4, 'rank': 4}, {'unlabeled': True}, {'reject': True},
                                      {'mods': []}, {'mods': [], 'single_block_legs': True}, {'transpose': True}, {'transpose': False}])

REQUIRED = (['combine_legs.combine_legs=' + f for f in CL_FORMS] + ['combine_legs.combine_legs.entries=' + r for r in REFS] +
            ['combine_legs.new_axes=' + f for f in NA_FORMS] + ['combine_legs.new_axes.negative=yes', 'combine_legs.new_axes.negative=no'] +
            ['combine_legs.qconj=' + f for f in QCONJ_FORMS] + ['combine_legs.pipes=' + f for f in PIPES_FORMS] +
            ['combine_legs.pipes.given=same-direction', 'combine_legs.pipes.given=conjugated', 'combine_legs.pipes.given=partial(None entries)',
             'combine_legs.pipes.built-by=LegPipe', 'combine_legs.pipes.built-by=make_pipe', 'combine_legs.transposition=needed',
             'combine_legs.transposition=not-needed'] +
            ['make_pipe.axes=int', 'make_pipe.axes=label', 'make_pipe.kwargs=qconj,sort,bunch', 'make_pipe.kwargs=none'] +
            ['split_legs.axes=' + f for f in SPLIT_FORMS] + ['split_legs.cutoff=' + c for c in CUTOFFS] +
            ['array.blocks=' + b for b in BLOCKS] + ['array.dtype=' + d for d in DTYPES] +
            ['array.rank=%d' % r for r in (1, 2, 3, 4, 5)] + ['array.zero-size-leg=yes', 'array.qdata=shuffled', 'array.storage=non-contiguous',
                                                            'array.labels=some-None', 'array.charges=none(qnumber 0)'] +
            ['pipe.nlegs=%d' % n for n in (1, 2, 3, 4)] +
            ['split_legs.label=not-in-(...)-form', 'split_legs.projected-pipe=workaround', 'sort_legcharge.sort=perm-array',
             'sort_legcharge.sort=bool', 'sort_legcharge.sort=list', 'sort_legcharge.bunch=bool', 'sort_legcharge.bunch=list',
             'sort_legcharge.nothing-requested', 'as_completely_blocked=nothing-to-encapsulate', 'as_completely_blocked=some-encapsulated',
             'rejects=run'])
# structural tags computed by the runner from the actual objects (harness/impl/c06_impl.py: run_array)
REQUIRED_STRUCT = ['combine.stored_blocks=0', 'combine.stored_blocks=1', 'combine.stored_blocks>1', 'split.branch=no-blocks',
                   'split.branch=single-block-single-row', 'split.branch=worker', 'pipe.ties-in-fused-charge=yes',
                   'pipe.ties-in-fused-charge=no', 'pipe.single-row(fast-path)', 'nested.pipe-of-pipes', 'reuse.pipes-of-result',
                   'combine.result-blocks-merged(several old blocks -> one new)', 'pipe.given-conjugated-was-conjugated',
                   'split.cutoff>0', 'pipe.zero-size-block']


def rand_leg(rng, mods, maxb=3, sizes=(0, 1, 1, 2, 2), lo=-2, hi=2):
    b = rng.randint(1, maxb)
    return [[rng.choice(sizes) for _ in range(b)], [[rng.randint(lo, hi) for _ in mods] for _ in range(b)], rng.choice([1, -1])]


def gen_array_case(rng, seed, wish=None):
    w = dict(wish or {})
    tags = []
    mods = w['mods'] if 'mods' in w else rng.choice(MODS)
    # --- call forms that constrain the shape of the case
    cl_form = w.get('cl_form')
    na_form = w.get('na_form')
    pipes_form = w.get('pipes_form')
    if na_form == 'int' or pipes_form == 'single':
        cl_form = cl_form if cl_form in ('flat-list', 'flat-tuple') else rng.choice(['flat-list', 'flat-tuple'])
    if cl_form is None:
        cl_form = rng.choice(CL_FORMS + ['nested-list'] * 4)
    rank = w.get('rank') or rng.choice([1, 2, 2, 3, 3, 3, 4, 4, 5])
    if w.get('group_size'):
        rank = max(rank, w['group_size'])
    ngroups = w.get('ngroups') or (rng.choice([1, 1, 2, 2, 3]) if rank >= 3 else rng.choice([1, 1, 2]) if rank == 2 else 1)
    ngroups = min(ngroups, rank)
    if cl_form.startswith('flat'):
        ngroups = 1
    zero_size = w.get('zero_size', rng.random() < 0.25)
    legs = []
    maxb = 3 if rank <= 3 else 2
    for _ in range(rank):
        if w.get('single_block_legs'):
            l = rand_leg(rng, mods, maxb=1, sizes=(1, 2, 3), lo=-1, hi=2)
        else:
            l = rand_leg(rng, mods, maxb=maxb, sizes=(1, 1, 2, 2, 0) if zero_size else (1, 2), lo=-1, hi=2)
        legs.append(l)
    if w.get('zero_size') and not any(0 in l[0] for l in legs):
        l = legs[rng.randrange(rank)]
        l[0][rng.randrange(len(l[0]))] = 0
    if w.get('sort_perm'):      # one leg with several blocks in non-sorted order
        legs[0] = [[rng.choice([1, 2]) for _ in range(3)], [[2 - i for _ in mods] for i in range(3)], legs[0][2]]
    axes = list(range(rank))
    transpose = w.get('transpose')
    if transpose is not False:
        rng.shuffle(axes)
    groups = []
    pos = 0
    for g in range(ngroups):
        remaining = rank - pos - (ngroups - g - 1)
        k = w.get('group_size') if (g == 0 and w.get('group_size')) else rng.randint(1, max(1, min(4, remaining)))
        k = min(k, remaining)
        groups.append(axes[pos:pos + k])
        pos += k
    if cl_form == 'ndarray' and len({len(g) for g in groups}) > 1:      # a ragged nested list is no ndarray
        k = min(len(g) for g in groups)
        groups = [g[:k] for g in groups]
    if transpose is False:
        groups = [sorted(g) for g in groups]
    if transpose is True and rank >= 2 and all(g == list(range(g[0], g[0] + len(g))) for g in groups) \
            and groups == sorted(groups):
        g = max(groups, key=len)
        if len(g) >= 2:
            g.reverse()
        else:
            groups.reverse()
    nres = rank - sum(len(g) for g in groups) + len(groups)
    # --- combine_legs entries by int / label / mixed
    ref = w.get('ref') or rng.choice(REFS)
    if cl_form == 'ndarray':
        ref = 'int'
    labels = ['a', 'b', 'c', 'd', 'e'][:rank]
    unl = w.get('unlabeled', rng.random() < 0.3)
    if unl:
        labels[rng.randrange(rank)] = None
        if ref == 'label':
            ref = 'mixed'
    by = [[labels[i] is not None and (ref == 'label' or (ref == 'mixed' and rng.random() < 0.5)) for i in g] for g in groups]
    if ref == 'mixed':      # really mixed whenever the case allows it: one labelled entry by label, another entry by index
        ent = [(gi, j) for gi, g in enumerate(groups) for j in range(len(g))]
        lab = [(gi, j) for gi, j in ent if labels[groups[gi][j]] is not None]
        if lab and len(ent) >= 2:
            gi, j = lab[0]
            by[gi][j] = True
            gi2, j2 = [e for e in ent if e != (gi, j)][0]
            by[gi2][j2] = False
    kinds = {b for row in by for b in row}
    tags.append('combine_legs.combine_legs=' + cl_form)
    tags.append('combine_legs.combine_legs.entries=' + ('mixed' if len(kinds) == 2 else 'label' if kinds == {True} else 'int'))
    # --- new_axes
    if na_form is None:
        na_form = rng.choice(['none', 'none', 'list', 'list', 'tuple', 'ndarray'] + (['int'] if cl_form.startswith('flat') else []))
    new_axes = None
    na_neg = False
    if na_form != 'none':
        new_axes = rng.sample(range(nres), len(groups))
        na_neg = w.get('na_neg', rng.random() < (0.3 if na_form != 'tuple' else 0.1))
        if na_neg:
            j = rng.randrange(len(new_axes))
            new_axes = [a - nres if (i == j or rng.random() < 0.5) else a for i, a in enumerate(new_axes)]
        tags.append('combine_legs.new_axes.negative=' + ('yes' if na_neg else 'no'))
    tags.append('combine_legs.new_axes=' + na_form)
    # --- qconj / pipes
    given = None
    if pipes_form is None:
        pipes_form = rng.choice(['none'] * 6 + ['list', 'tuple'] + (['single'] if cl_form.startswith('flat') else []))
    qconj_form = w.get('qconj_form')
    if qconj_form is None:
        qconj_form = rng.choice(QCONJ_FORMS) if pipes_form == 'none' or w.get('pipes_partial') else rng.choice(['none', 'none', 'int'])
    qconj = None
    if qconj_form == 'int':
        qconj = rng.choice([1, -1])
    elif qconj_form != 'none':
        qconj = [rng.choice([1, -1]) for _ in groups]
    tags.append('combine_legs.qconj=' + qconj_form)
    tags.append('combine_legs.pipes=' + pipes_form)
    if pipes_form != 'none':
        which = [True] * len(groups)
        if w.get('pipes_partial', len(groups) > 1 and rng.random() < 0.3) and len(groups) > 1 and pipes_form != 'single':
            which[rng.randrange(len(groups))] = False
            tags.append('combine_legs.pipes.given=partial(None entries)')
        rel = w.get('pipes_rel') or rng.choice(['same', 'conj'])
        via = w.get('pipes_via') or rng.choice(['LegPipe', 'make_pipe'])
        kw = rng.random() < 0.7
        axl = rng.random() < 0.5 and all(labels[i] is not None for g in groups for i in g)
        given = {'which': which, 'rel': rel, 'via': via, 'qconj': w.get('pipes_qconj') or rng.choice([1, -1]),
                 'sort': rng.random() < 0.7, 'bunch': rng.random() < 0.7, 'kwargs': kw, 'axes_by_label': axl}
        tags.append('combine_legs.pipes.given=' + ('same-direction' if rel == 'same' else 'conjugated'))
        tags.append('combine_legs.pipes.built-by=' + via)
        if via == 'make_pipe':
            tags.append('make_pipe.kwargs=' + ('qconj,sort,bunch' if kw else 'none'))
            tags.append('make_pipe.axes=' + ('label' if axl else 'int'))
    # --- the tensor
    blocks = w.get('blocks') or rng.choice(['all', 'all', 'some-missing', 'some-missing', 'one', 'none'] if rng.random() < 0.5 else ['all', 'some-missing'])
    dtype = w.get('dtype') or rng.choice(['float', 'float', 'float', 'complex', 'int'])
    tags += ['array.blocks=' + blocks, 'array.dtype=' + dtype, 'array.rank=%d' % rank]
    if any(0 in l[0] for l in legs):
        tags.append('array.zero-size-leg=yes')
    if None in labels:
        tags.append('array.labels=some-None')
    if not mods:
        tags.append('array.charges=none(qnumber 0)')
    shuffle = w.get('shuffle', rng.random() < 0.3)
    pre_transpose = None
    if w.get('pre_transpose', rng.random() < 0.3) and rank >= 2:
        pre_transpose = list(range(rank))
        while pre_transpose == list(range(rank)):
            rng.shuffle(pre_transpose)
        tags.append('array.storage=non-contiguous')
    if shuffle:
        tags.append('array.qdata=shuffled')
    for g in groups:
        tags.append('pipe.nlegs=%d' % len(g))
    # --- split_legs
    split_form = w.get('split_form') or rng.choice(SPLIT_FORMS + ['none'] * 3)
    cutoff = w.get('cutoff') or rng.choice(['0', '0', '0', 'below-all-entries', 'above-some-entries'])
    tags += ['split_legs.axes=' + split_form, 'split_legs.cutoff=' + cutoff]
    badlabel = bool(w.get('badlabel', rng.random() < 0.1))
    if badlabel:
        tags.append('split_legs.label=not-in-(...)-form')
    proj = bool(w.get('proj', rng.random() < 0.25))
    # --- sort_legcharge
    sort_legs = rng.choice([True, False, [rng.random() < 0.5 for _ in range(rank)]])
    bunch_legs = w.get('bunch_legs', rng.choice([True, False, [rng.random() < 0.5 for _ in range(rank)]]))
    sort_perm = None
    if w.get('sort_perm', rng.random() < 0.1):
        k = 0 if w.get('sort_perm') else rng.randrange(rank)
        nb = len(legs[k][0])
        p = list(range(nb))
        rng.shuffle(p)
        if not isinstance(sort_legs, list):
            sort_legs = [sort_legs] * rank
        sort_perm = {'axis': k, 'perm_qind': p}
        tags.append('sort_legcharge.sort=perm-array')
    tags.append('sort_legcharge.sort=' + ('list' if isinstance(sort_legs, list) else 'bool'))
    tags.append('sort_legcharge.bunch=' + ('list' if isinstance(bunch_legs, list) else 'bool'))
    if sort_perm is None and not any(sort_legs if isinstance(sort_legs, list) else [sort_legs]) \
            and not any(bunch_legs if isinstance(bunch_legs, list) else [bunch_legs]):
        tags.append('sort_legcharge.nothing-requested')
    def blocked(l):
        ch = [tuple(x if m == 1 else x % m for m, x in zip(mods, c)) for c in l[1]]
        return len(set(ch)) == len(ch)
    tags.append('as_completely_blocked=' + ('nothing-to-encapsulate' if all(blocked(l) for l in legs) else 'some-encapsulated'))
    reject = bool(w.get('reject', rng.random() < 0.2))
    if reject:
        tags.append('rejects=run')
    case = {'seed': seed, 'mods': mods, 'legs': legs, 'qtotal_block': [rng.randrange(3) for _ in range(rank)],
            'labels': labels, 'combine': groups, 'by': by, 'cl_form': cl_form, 'new_axes': new_axes, 'na_form': na_form,
            'qconj': qconj, 'qconj_form': qconj_form, 'pipes_form': pipes_form, 'given': given,
            'blocks': blocks, 'drop_blocks': rng.choice([1, 2]), 'dtype': dtype, 'shuffle': shuffle, 'pre_transpose': pre_transpose,
            'split_form': split_form, 'split_pick': rng.randrange(1 << 16), 'cutoff': cutoff, 'badlabel': badlabel, 'proj': proj,
            'proj_seed': rng.randrange(1 << 16),
            'nest_rev': rng.random() < 0.5, 'nest_qconj': rng.choice([1, -1]),
            'sort_legs': sort_legs, 'bunch_legs': bunch_legs, 'sort_perm': sort_perm, 'reject': reject, 'tags': tags}
    return case


def case_size(case):
    tot = 1
    for l in case['legs']:
        tot *= max(1, sum(l[0]))
    return tot
