"""C13 - variational ground-state search is sound and converges on small systems.

proof gate (coq/Props/C13.v)  +  correspondence: get_sweep_schedule and the environment bookkeeping of instrumented finite
DMRG runs (stored LP/RP after every local update, freshness of every environment read) <-> Model/Sweep.v (vm_compute); instrumented
infinite DMRG runs (stored keys, per-factor currency and age of every stored LP/RP after every local update, the environments read for
eff_H) <-> Model/SweepInf.v (Model/SweepInfCheck.v check_inf_run)  +
oracle: exact diagonalisation (dense Hamiltonians built here from the documented formulas) in the charge sector.
"""
import itertools
import json
import os
import random
import zlib

import numpy as np
import scipy.integrate

import common
import c13_cover
import c13_ext
from common import coq_lit, Nat

SZ = np.diag([0.5, -0.5])
SP = np.array([[0., 1.], [0., 0.]])
SM = SP.T
SX2 = np.array([[0., 1.], [1., 0.]])       # sigma_x
SZ2 = np.diag([1., -1.])                   # sigma_z
ID = np.eye(2)
CD = np.array([[0., 0.], [1., 0.]])        # c^dagger in the basis (empty, full)
CC = CD.T
NN = np.diag([0., 1.])
JW = np.diag([1., -1.])


def kron_at(L, ops):
    """ops: dict site -> 2x2 matrix; identity elsewhere."""
    out = np.array([[1.0 + 0j]])
    for i in range(L):
        out = np.kron(out, ops.get(i, ID))
    return out


def dense_H(case):
    """Hamiltonian of the finite open chain from the documented formulas of the model classes."""
    m, L = case['model'], case['L']
    H = np.zeros((2 ** L, 2 ** L), dtype=complex)
    if m['name'] == 'tfi':        # H = - J sum sigmax_i sigmax_{i+1} - g sum sigmaz_i
        for i in range(L - 1):
            H -= m['J'] * kron_at(L, {i: SX2, i + 1: SX2})
        for i in range(L):
            H -= m['g'] * kron_at(L, {i: SZ2})
    elif m['name'] == 'xxz':      # H = sum Jxx/2 (S+S- + S-S+) + Jz SzSz - hz sum Sz
        for i in range(L - 1):
            H += m['Jxx'] / 2 * (kron_at(L, {i: SP, i + 1: SM}) + kron_at(L, {i: SM, i + 1: SP}))
            H += m['Jz'] * kron_at(L, {i: SZ, i + 1: SZ})
        for i in range(L):
            H -= m['hz'] * kron_at(L, {i: SZ})
    elif m['name'] == 'fermion':  # H = sum -J (c+_i c_{i+1} + h.c.) + V n_i n_{i+1} - mu sum n_i
        for i in range(L - 1):
            hop = kron_at(L, {i: CD @ JW, i + 1: CC})       # c+_i c_{i+1} with the Jordan-Wigner string between them
            H -= m['J'] * (hop + hop.conj().T)
            H += m['V'] * kron_at(L, {i: NN, i + 1: NN})
        for i in range(L):
            H -= m['mu'] * kron_at(L, {i: NN})
    elif m['name'] == 'longrange':
        for dx, Jr, Ji, Jz in m['couplings']:
            for i in range(L - dx):
                t = complex(Jr, Ji) / 2 * kron_at(L, {i: SP, i + dx: SM})
                H += t + t.conj().T
                H += Jz * kron_at(L, {i: SZ, i + dx: SZ})
        for i in range(L):
            H -= m['hz'] * kron_at(L, {i: SZ})
    return H


def sector_mask(case, symmetry_of_H=False):
    """basis states in the charge sector of the initial product state (None: no conserved charge).  With symmetry_of_H the
    sector of the full symmetry of the Hamiltonian (the mixers are built from H and cannot leave it either)."""
    m, L = case['model'], case['L']
    init = case['init_idx']
    cons = m.get('conserve')
    if m['name'] == 'xxz':
        cons = 'Sz'
    if symmetry_of_H:
        cons = {'tfi': 'parity', 'xxz': 'Sz', 'longrange': 'Sz', 'fermion': 'N'}[m['name']]
    states = list(itertools.product([0, 1], repeat=L))
    if cons in (None, 'None'):
        return np.ones(2 ** L, dtype=bool)
    if cons in ('Sz', 'N'):
        tot = sum(init)
        return np.array([sum(s) == tot for s in states])
    if cons == 'parity':
        tot = sum(init) % 2
        return np.array([sum(s) % 2 == tot for s in states])
    raise ValueError(cons)


def h_symmetry_labels(case):
    """label of every basis state under the full symmetry of the Hamiltonian: parity of the number of down spins for the transverse-field
    Ising chain, the number of down spins / particles for the others."""
    m, L = case['model'], case['L']
    tot = np.array([sum(s) for s in itertools.product([0, 1], repeat=L)])
    return tot % 2 if m['name'] == 'tfi' else tot


def tfi_e_inf(J, g):
    f = lambda k: -np.sqrt(J * J + g * g - 2 * J * g * np.cos(k)) / np.pi
    return scipy.integrate.quad(f, 0, np.pi)[0]


# ------------------------------------------------------------------------------ generators
def gen_model(rng):
    name = rng.choice(['tfi', 'xxz', 'fermion', 'longrange', 'longrange'])
    if name == 'tfi':
        return {'name': 'tfi', 'J': rng.choice([1.0, -0.7, 1.3]), 'g': rng.choice([0.4, 1.0, 1.7, -0.8]), 'conserve': rng.choice(['parity', 'None'])}
    if name == 'xxz':
        return {'name': 'xxz', 'Jxx': rng.choice([1.0, -1.0, 0.6]), 'Jz': rng.choice([1.0, 0.3, -0.5, 2.0]), 'hz': rng.choice([0.0, 0.0, 0.3])}
    if name == 'fermion':
        return {'name': 'fermion', 'J': rng.choice([1.0, 0.5, -1.0]), 'V': rng.choice([0.0, 1.0, -0.6, 2.5]), 'mu': rng.choice([0.0, 0.4]),
                'conserve': rng.choice(['N', 'N', 'parity'])}
    cps = [[1, rng.choice([1.0, 0.8, -0.9]), rng.choice([0.0, 0.0, 0.5, -0.3]), rng.choice([1.0, 0.4, -0.7])]]
    if rng.random() < 0.8:
        cps.append([2, rng.choice([0.5, -0.4, 0.3]), rng.choice([0.0, 0.25, -0.35]), rng.choice([0.0, 0.3])])
    if rng.random() < 0.3:
        cps.append([3, rng.choice([0.2, -0.15]), rng.choice([0.0, 0.1]), 0.0])
    return {'name': 'longrange', 'couplings': cps, 'hz': rng.choice([0.0, 0.2]), 'conserve': rng.choice(['Sz', 'Sz', 'parity', 'None']),
            'explicit_plus_hc': rng.random() < 0.3}


def gen_init(rng, model, L):
    """'all initial product states': alternating, random, and the states that are exact eigenstates of a charge-conserving model (fully
    polarised / empty / full: one-dimensional charge sector, every local eigenproblem is solved by the initial guess) or next to them."""
    style = rng.random()
    if style < 0.45:
        idx = [i % 2 for i in range(L)]
    elif style < 0.6:
        idx = [(i + 1) % 2 for i in range(L)]
    elif style < 0.72:
        idx = [rng.randint(0, 1)] * L
    elif style < 0.8:
        idx = [rng.randint(0, 1)] * L
        idx[rng.randrange(L)] ^= 1
    else:
        idx = [rng.randint(0, 1) for _ in range(L)]
    names = {'tfi': ['up', 'down'], 'xxz': ['up', 'down'], 'longrange': ['up', 'down'], 'fermion': ['empty', 'full']}[model['name']]
    return idx, [names[i] for i in idx]


def gen_lanczos_params(rng, exact=False, eig=False):
    """the documented options of KrylovBased / LanczosGroundState (tenpy/linalg/krylov_based.py), drawn independently of each other."""
    lp = {}
    if rng.random() < (0.7 if eig else 0.35):
        lp['E_shift'] = rng.choice([-5.0, -2.5, -0.8, 0.7, 3.0, 10.0])
    if rng.random() < 0.3:
        lp['N_min'] = rng.choice([2, 3, 5])
    if rng.random() < 0.3:
        lp['N_max'] = rng.choice([8, 12, 30] if exact else [4, 6, 12, 30])
    if rng.random() < 0.25:
        lp['N_cache'] = rng.choice([2, 3, 5])
    if rng.random() < 0.3:
        lp['reortho'] = True
    if rng.random() < 0.25:
        lp['cutoff'] = rng.choice([1e-13, 1e-11, 1e-9])
    if rng.random() < 0.25:
        lp['P_tol'] = rng.choice([1e-14, 1e-12, 1e-9])
    if rng.random() < 0.2:
        lp['E_tol'] = rng.choice([1e-13, 1e-10])
    if lp.get('N_max', 20) < lp.get('N_min', 2):
        lp['N_max'] = lp['N_min']
    return lp


def gen_case(rng, exact=False, eig=False):
    """eig: stratum for the eigensolver options (the Lanczos solver is in use for every local update, lanczos_params mostly non-default)"""
    model = gen_model(rng)
    L = rng.choice([3, 4, 4, 5, 5, 6, 6, 7, 8])
    if model['name'] == 'longrange':
        L = max(L, 4)
    engine = 'two' if exact else rng.choice(['two', 'two', 'single', 'single'])
    idx, init = gen_init(rng, model, L)
    mixer = rng.choice([None, True, 'DensityMatrixMixer', 'SubspaceExpansion'])
    if exact:
        mixer = rng.choice([True, 'DensityMatrixMixer', 'SubspaceExpansion'])
    if engine == 'single' and mixer is None and rng.random() < 0.7:
        mixer = rng.choice([True, 'SubspaceExpansion', 'DensityMatrixMixer'])
    chi = 16 if exact else rng.choice([2, 3, 4, 6, 8, 16, 16])
    opts = {'mixer': mixer, 'trunc_params': {'chi_max': chi, 'svd_min': rng.choice([1e-12, 1e-10, None])},
            'diag_method': rng.choice(['default', 'lanczos'] if eig else ['default', 'default', 'lanczos', 'lanczos', 'arpack', 'ED_block']),
            'combine': rng.random() < 0.5, 'max_sweeps': 12 if exact else rng.choice([2, 4, 6]), 'min_sweeps': rng.choice([1, 2]),
            'N_sweeps_check': 1, 'max_E_err': 1e-12 if exact else rng.choice([1e-8, 1e-12]),
            'lanczos_params': gen_lanczos_params(rng, exact, eig)}
    opts['max_trunc_err'] = 10.0
    if opts['diag_method'] == 'default' and (eig or rng.random() < 0.5):
        # 'default' uses Lanczos when the dimension of the effective Hamiltonian is not below max_N_for_ED (default 400)
        opts['max_N_for_ED'] = rng.choice([0, 0, 2, 8] if eig else [0, 2, 8, 50])
    if mixer is not None:
        # documented usage: the mixer is switched off before the run ends (otherwise psi is returned with the perturbed, non-canonical tensors)
        da = rng.choice([2, 3])
        opts['mixer_params'] = {'amplitude': rng.choice([1e-2, 1e-4]), 'decay': 2.0, 'disable_after': da}
        if exact:
            da = 5
            opts['mixer_params'] = {'amplitude': 1e-2, 'decay': 2.0, 'disable_after': da}
        opts['min_sweeps'] = da + 2
        opts['max_sweeps'] = max(opts['max_sweeps'], da + 3)
    if not exact and rng.random() < 0.3:
        c2 = rng.choice([4, 8, 16])
        opts['chi_list'] = {'0': min(chi, 2), '2': c2}
        del opts['trunc_params']['chi_max']
        opts['chi_list_reactivates_mixer'] = False
        opts['max_sweeps'] = max(opts['max_sweeps'], 4)
    one_dim = sum(idx) in (0, L) and model.get('conserve', 'Sz') in ('Sz', 'N')
    if opts['diag_method'] == 'arpack':
        if L < 5 or chi < 4 or 'chi_list' in opts or one_dim:
            opts['diag_method'] = 'lanczos'
        else:
            opts['lanczos_params'] = {}       # lanczos_arpack passes N_min as ncv
    case = {'model': model, 'L': L, 'bc': 'finite', 'engine': engine, 'init': init, 'init_idx': idx, 'options': opts, 'exact': exact}
    # charge bookkeeping stream (Model/SweepCharge.v): regauge some bonds so that the site tensors carry nonzero qtotal (same state).
    # Not with SingleSiteDMRGEngine + DensityMatrixMixer on a Z_2 charge: Mixer.determine_qtotal_L_R compares qtotal_L + qtotal_R with
    # theta.qtotal without make_valid and raises ValueError there (T13_charge_one_site_dm_mixer_refuted; reported, not yet in KNOWN_FINDINGS).
    cons = model.get('conserve', 'Sz')
    # (own generator seeded from the case, so that the stream of cases drawn from `rng` is not perturbed)
    rg = random.Random(zlib.crc32(json.dumps(case, sort_keys=True, default=str).encode()))
    if cons != 'None' and rg.random() < 0.6 and not (engine == 'single' and mixer == 'DensityMatrixMixer' and cons == 'parity'):
        case['regauge'] = [[rg.randrange(L - 1), rg.choice([1, -1, 2, 3])] for _ in range(rg.choice([1, 2, 3]))]
    if model['name'] != 'longrange' and rg.random() < 0.25:
        # every CouplingMPOModel takes explicit_plus_hc (the MPO holds half of each hermitian-conjugate pair, eff_H = H + H^dagger)
        model['explicit_plus_hc'] = True
    return case


def gen_chi_ramp(rng):
    """'chi lists and sweep counts': two-site DMRG with a mixer whose bond dimension is ramped up by chi_list {0: small, ..., K: >= full
    bond dimension}, with the DEFAULT min_sweeps (derived by the engine from N_sweeps_check and chi_list) or an explicit one, N_sweeps_check
    1-3, with / without chi_list_reactivates_mixer.  When the last entry of chi_list does not truncate and the mixer is active there, the
    exact clause of the property applies; the run protocol (which chi_max / mixer is in force in which sweep, when the run may stop) is
    compared with Model/SweepStop.v in every case."""
    case = gen_case(rng, exact=True)
    opts = case['options']
    L = case['L']
    full = 2 ** (L // 2)
    K = rng.choice([4, 5, 6, 7, 8, 9, 10, 12])
    cl = {'0': rng.choice([2, 2, 2, 3, 4])}      # (ramps that start from chi_max = 1: gen_chi_one, drawn after all other strata)
    if rng.random() < 0.5:
        k1 = rng.randrange(1, K)
        cl[str(k1)] = rng.choice([2, 3, 4, 6, 8])
    cl[str(K)] = rng.choice([full, 16, 20, 32])
    opts['chi_list'] = cl
    opts['trunc_params'].pop('chi_max', None)
    if opts['diag_method'] == 'arpack':
        opts['diag_method'] = 'lanczos'
    if rng.random() < 0.3:
        opts['trunc_params']['chi_max'] = rng.choice([3, 5])       # overwritten by chi_list[0] in the first sweep
    opts['N_sweeps_check'] = nsc = rng.choice([1, 1, 1, 2, 3])
    da = rng.choice([2, 3, 4])
    opts['mixer_params'] = {'amplitude': rng.choice([1e-5, 1e-4, 1e-3]), 'decay': 2.0, 'disable_after': da}
    opts['max_E_err'] = rng.choice([1e-10, 1e-11, 1e-12])
    opts['max_sweeps'] = K + da + 8
    ramp_exact = True
    u = rng.random()
    if u < 0.7:
        opts.pop('min_sweeps', None)                                # the default: must cover the last key of chi_list
    elif u < 0.85:
        opts['min_sweeps'] = K + da + 1
    else:
        opts['min_sweeps'] = rng.randrange(1, K)                    # the user asked for less: only soundness and the run protocol
        ramp_exact = False
    v = rng.random()
    if v < 0.2:
        opts['chi_list_reactivates_mixer'] = True
    elif v < 0.35:
        opts['chi_list_reactivates_mixer'] = False                  # no mixer at the final chi: the exact clause does not apply
        ramp_exact = False
    case['exact'] = False
    case['ramp_exact'] = ramp_exact
    case['stream'] = 'dmrg-finite-chi-ramp'
    case.pop('regauge', None)
    return case


def gen_inf(rng):
    engine = rng.choice(['two', 'single', 'vumps1', 'vumps2'])
    name = rng.choice(['tfi', 'xxz']) if engine != 'vumps1' else 'tfi'
    if name == 'tfi':
        model = {'name': 'tfi', 'J': 1.0, 'g': rng.choice([0.5, 1.5, 2.0]), 'conserve': rng.choice(['None', 'parity']) if engine in ('two', 'single') else 'None'}
    else:
        model = {'name': 'xxz', 'Jxx': 1.0, 'Jz': 1.0, 'hz': 0.0}
    L = 2
    idx = [0, 1] if name == 'xxz' else [0, 0]
    names = ['up', 'down']
    opts = {'trunc_params': {'chi_max': rng.choice([8, 16]), 'svd_min': 1e-10}, 'max_sweeps': 30, 'N_sweeps_check': rng.choice([1, 2]),
            'max_E_err': 1e-10, 'mixer': True if engine in ('two', 'single', 'vumps2') else None,
            'mixer_params': {'amplitude': 1e-3, 'decay': 2.0, 'disable_after': 8}}
    if engine.startswith('vumps'):
        opts['mixer'] = rng.choice([None, 'SubspaceExpansion', 'DensityMatrixMixer']) if engine == 'vumps2' else None
        opts['combine'] = False
        if opts['mixer'] is None:
            opts.pop('mixer_params')
    return {'model': model, 'L': L, 'bc': 'infinite', 'engine': engine, 'init': [names[i] for i in idx], 'init_idx': idx, 'options': opts,
            'trace': False, 'init_chi': 8 if engine == 'vumps1' else None}


def gen_inf_hc(rng, k):
    """infinite chains, models built with explicit_plus_hc=True (MPO = half of the hermitian-conjugate pairs; every effective
    Hamiltonian of the engine is the sum of the operator and its adjoint), every engine in turn, unit cells of 2-4 sites; run a second time
    on the same Hamiltonian built without explicit_plus_hc (same state space, same options): both runs must report <psi|H|psi>
    of their state and agree with each other and with the closed-form energy."""
    engine = ['vumps1', 'vumps2', 'two', 'single'][k % 4]
    # (the one-site engines on the gapped chain only: one-site iDMRG on the critical Heisenberg chain is far from converged after 30 sweeps -
    # it stops at max_sweeps, the engine does not declare convergence; see the assumption recorded in main)
    name = rng.choice(['tfi', 'xxz']) if engine in ('vumps2', 'two') else 'tfi'
    L = rng.choice([2, 2, 3, 4]) if name == 'tfi' else rng.choice([2, 2, 4])
    if name == 'tfi':
        # (engines started from a random MPS of bond dimension 8 - MPS.from_desired_bond_dimension - have no charges)
        model = {'name': 'tfi', 'J': 1.0, 'g': rng.choice([0.5, 1.5, 2.0]), 'conserve': rng.choice(['None', 'parity']) if engine == 'two' else 'None'}
        idx = [0] * L
    else:
        model = {'name': 'xxz', 'Jxx': 1.0, 'Jz': 1.0, 'hz': 0.0}
        idx = [i % 2 for i in range(L)]
    model['explicit_plus_hc'] = True
    names = ['up', 'down']
    opts = {'trunc_params': {'chi_max': rng.choice([8, 12, 16]), 'svd_min': 1e-10}, 'max_sweeps': 30, 'N_sweeps_check': rng.choice([1, 2]),
            'max_E_err': 1e-10}
    if engine == 'two':
        opts['mixer'] = rng.choice([True, 'DensityMatrixMixer', 'SubspaceExpansion'])
    elif engine == 'single':
        # (SubspaceExpansion, the default mixer of the one-site engine, raises with explicit_plus_hc: F13.1; so does combine=True: F13.2.
        # Without a mixer the one-site engine keeps the bond dimension of the initial state: start from a random MPS with chi = 8)
        opts['mixer'] = None
        opts['combine'] = False
        opts['N_sweeps_check'] = rng.choice([1, 4])      # (odd update_env = N_sweeps_check // 2: F13.3)
    elif engine == 'vumps2':
        opts['mixer'] = rng.choice([None, None, 'SubspaceExpansion', 'DensityMatrixMixer'])
    else:
        opts['mixer'] = None
    if opts['mixer'] is not None:
        opts['mixer_params'] = {'amplitude': 1e-3, 'decay': 2.0, 'disable_after': 8}
    if engine.startswith('vumps'):
        opts['combine'] = False
    return {'model': model, 'L': L, 'bc': 'infinite', 'engine': engine, 'init': [names[i] for i in idx], 'init_idx': idx, 'options': opts,
            'trace': False, 'init_chi': 8 if engine in ('vumps1', 'single') else None, 'compare_without_hc': True, 'stream': 'dmrg-infinite-plus-hc'}


def gen_chi_one(rng, k):
    """'chi lists': bond dimension 1 (product-state ansatz) - as the first entry of a chi_list ramp that ends at the full bond dimension
    (k even; the exact clause applies as in gen_chi_ramp), or as chi_max / chi_list[0] of an arbitrary run (k odd).  With chi_max = 1 every
    truncation cuts through the Schmidt spectrum, in particular through exactly degenerate Schmidt values (singlets)."""
    if k % 2 == 0:
        case = gen_chi_ramp(rng)
        case['options']['chi_list']['0'] = 1
    else:
        case = gen_case(rng)
        opts = case['options']
        if 'chi_list' in opts:
            opts['chi_list']['0'] = 1
        else:
            opts['trunc_params']['chi_max'] = 1
        if opts['diag_method'] == 'arpack':
            opts['diag_method'] = 'lanczos'
    case['stream'] = 'dmrg-finite-chi1'
    return case


def gen_inf_noenv(rng):
    """'sweep counts': infinite DMRG without environment sweeps (N_sweeps_check = 1, so that update_env = N_sweeps_check // 2 = 0, or
    update_env = 0 given explicitly), both engines, every mixer, unit cells of 2-4 sites, gapped transverse-field Ising chain.  The state
    at the end of the last optimisation sweep is then only approximately canonical and post_run_cleanup canonicalises it
    (MPS.canonical_form); the runner records <H>/site before and after that call."""
    engine = rng.choice(['two', 'single', 'single'])
    L = rng.choice([2, 3, 4, 4])
    mixer = rng.choice([True, 'DensityMatrixMixer', 'SubspaceExpansion'])
    # (no Z_2 charge for the one-site engine with the DensityMatrixMixer: see T13_charge_one_site_dm_mixer_refuted)
    cons = 'None' if (engine == 'single' and mixer == 'DensityMatrixMixer') else rng.choice(['None', 'None', 'parity'])
    model = {'name': 'tfi', 'J': 1.0, 'g': rng.choice([0.5, 1.5, 2.0]), 'conserve': cons}
    opts = {'trunc_params': {'chi_max': rng.choice([8, 16, 16]), 'svd_min': 1e-10}, 'max_sweeps': 30, 'N_sweeps_check': 1, 'max_E_err': 1e-10,
            'mixer': mixer, 'mixer_params': {'amplitude': 1e-3, 'decay': 2.0, 'disable_after': 8}}
    if rng.random() < 0.25:
        opts['N_sweeps_check'] = 2
        opts['update_env'] = 0
    return {'model': model, 'L': L, 'bc': 'infinite', 'engine': engine, 'init': ['up'] * L, 'init_idx': [0] * L, 'options': opts,
            'trace': False, 'init_chi': None, 'stream': 'dmrg-infinite-no-env-sweeps'}


def gen_inf_trace(rng):
    """short infinite DMRG runs whose environment bookkeeping is traced from outside (Model/SweepInf.v): L = 2..4, two-site and
    one-site engine, constructed with start_env = 0 (fresh environment; the initial environment sweeps are run by the runner after the
    instrumentation is installed), a few optimisation sweeps interleaved with environment sweeps (update_env)."""
    engine = rng.choice(['two', 'single'])
    L = rng.choice([2, 3, 4])
    name = rng.choice(['tfi', 'tfi', 'xxz']) if L % 2 == 0 else 'tfi'
    if name == 'tfi':
        model = {'name': 'tfi', 'J': 1.0, 'g': rng.choice([0.5, 1.5, 2.0]), 'conserve': rng.choice(['None', 'parity'])}
        idx = [0] * L
    else:
        model = {'name': 'xxz', 'Jxx': 1.0, 'Jz': rng.choice([1.0, 0.5]), 'hz': 0.0}
        idx = [i % 2 for i in range(L)]
    mixer = rng.choice([None, True, True, 'DensityMatrixMixer', 'SubspaceExpansion'])
    if engine == 'single' and mixer == 'DensityMatrixMixer':
        mixer = 'SubspaceExpansion'       # see T13_charge_one_site_dm_mixer_refuted
    nsc = rng.choice([1, 1, 2, 3])
    # (the run stops when sweeps > max_sweeps: one or two iterations of N_sweeps_check optimisation + update_env environment sweeps)
    opts = {'start_env': 0, 'trunc_params': {'chi_max': rng.choice([4, 6]), 'svd_min': 1e-10}, 'N_sweeps_check': nsc,
            'min_sweeps': nsc, 'max_sweeps': nsc * rng.choice([1, 2]) - 1, 'update_env': rng.choice([0, 1, 1, 2]),
            'max_E_err': 1e-14, 'max_S_err': 1e-14, 'combine': rng.random() < 0.5, 'mixer': mixer, 'norm_tol': rng.choice([None, 1e-5]),
            'max_trunc_err': 10.0}
    if mixer is not None:
        opts['mixer_params'] = {'amplitude': 1e-3, 'decay': 2.0, 'disable_after': rng.choice([1, 2, 50])}
    names = ['up', 'down']
    return {'model': model, 'L': L, 'bc': 'infinite', 'engine': engine, 'init': [names[i] for i in idx], 'init_idx': idx, 'options': opts,
            'trace_inf': True, 'pre_env_sweeps': rng.choice([0, 1, 1, 2]), 'init_chi': None}


def gen_schedule_case(rng):
    fin = rng.random() < 0.6
    engine = rng.choice(['two', 'single'])
    n = 2 if engine == 'two' else 1
    L = rng.randint(n + 1, 14) if fin else rng.randint(2, 10)
    model = {'name': 'tfi', 'J': 1.0, 'g': 1.0, 'conserve': 'None'}
    return {'model': model, 'L': L, 'bc': 'finite' if fin else 'infinite', 'engine': engine, 'init': ['up'] * L, 'init_idx': [0] * L,
            'options': {'trunc_params': {'chi_max': 4}, 'start_env': 0}, 'schedule_only': True}


# ------------------------------------------------------------------------------ run protocol (chi_list / min_sweeps / mixer / stop)
def stop_inputs(case):
    """the options that drive IterativeSweeps.run, with the documented defaults of the engine classes."""
    opts = case['options']
    fin = case['bc'] == 'finite'
    vumps = case['engine'].startswith('vumps')
    nsc = opts.get('N_sweeps_check', 1 if (fin or vumps) else 10)
    cl = opts.get('chi_list')
    # ("a value of None is initialized to the current value of trunc_params['chi_max'] at algorithm initialization")
    chi00 = (opts.get('trunc_params') or {}).get('chi_max')
    chis = None if cl is None else sorted((int(k), int(chi00 if v is None else v)) for k, v in cl.items())
    mixer = opts.get('mixer', case['engine'] == 'single')
    mp = opts.get('mixer_params') or {}
    if vumps:
        da, amp, dec = mp.get('disable_after', 5), mp.get('amplitude', 1e-5), mp.get('decay', 2)
    else:
        da, amp, dec = mp.get('disable_after', 15 if fin else 50), mp.get('amplitude', 1e-5), mp.get('decay', 2.0 if fin else 2.0 ** (15 / 50))
    lim = None
    if amp is not None and dec is not None:
        # "we divide amplitude by decay after each sweep"; the mixer is disabled once the amplitude is <= machine epsilon
        a, lim = float(amp), 0
        while True:
            a, lim = a / dec, lim + 1
            if a <= np.finfo(float).eps or lim > 4000:
                break
    return {'nsc': int(nsc), 'min': opts.get('min_sweeps'), 'max': int(opts.get('max_sweeps', 1000)), 'chis': chis,
            'chi0': (opts.get('trunc_params') or {}).get('chi_max'), 'mixer': bool(mixer), 'react': bool(opts.get('chi_list_reactivates_mixer', True)),
            'disable': da, 'amp': lim}


def stop_oracle(case, r):
    """documented behaviour of chi_list / min_sweeps evaluated on the implementation's own record of the run (independent of the Coq model):
    'an entry at_sweep: chi states that starting from sweep at_sweep the value chi is used for chi_max', and, when min_sweeps is left at
    its default, a run is not declared converged before the last entry of chi_list has come into force."""
    si, st = stop_inputs(case), r['stop']
    probs = []
    if si['chis']:
        for s_, chi, _mix in st['sweeps']:
            act = [c for k, c in si['chis'] if k <= s_]
            want = act[-1] if act else si['chi0']
            if chi != want:
                probs.append('chi_list %s: sweep %d ran with chi_max = %s, expected %s' % (dict(si['chis']), s_, chi, want))
                break
        K, cK = si['chis'][-1]
        if si['min'] is None and r['sweeps'] <= si['max'] and (r['sweeps'] <= K or r.get('chi_max_end') != cK):
            probs.append('chi_list %s with default min_sweeps (engine derived %s): run declared converged after %d sweeps with chi_max = %s, '
                         'before the last entry {%d: %d} came into force' % (dict(si['chis']), st['min_sweeps'], r['sweeps'], r.get('chi_max_end'), K, cK))
    sw = [x[0] for x in st['sweeps']]
    if sw != list(range(r['sweeps'])):
        probs.append('optimisation sweeps recorded as %s, engine reports %d sweeps' % (sw[:20], r['sweeps']))
    return probs


def stop_lit(case, r):
    si, st = stop_inputs(case), r['stop']
    o = common.opt
    n_ = lambda x: None if x is None else common.Some(Nat(min(int(x), 4500)))
    chis = None if si['chis'] is None else common.Some([(Nat(k), Nat(c)) for k, c in si['chis']])
    recs = [(Nat(a), n_(b), bool(c)) for a, b, c in st['sweeps']]
    return '(mk_stop_case ' + coq_lit((Nat(si['nsc']), n_(si['min']), Nat(min(si['max'], 4500)), chis, n_(si['chi0']),
                    (si['mixer'], si['react'], n_(si['disable']), n_(si['amp'])), [bool(c) for c in st['convs']], recs,
                    (Nat(r['sweeps']), Nat(st['min_sweeps'] if st['min_sweeps'] is not None else 4999), bool(st['mixer_end'])))) + ')'


# ------------------------------------------------------------------------------ main
def run_chunks(ctx, cases):
    np_ = common.NPROC
    chunks = [cases[i::np_] for i in range(np_)]
    chunks = [c for c in chunks if c]
    # every runner process records the executed lines of the anchored tenpy files (sys.monitoring, each location reported once)
    # (generous limit for the thorough tier: the runs are CPU bound and the machine is shared)
    res = common.run_impl_parallel('c13_impl.py', [{'cases': ch, 'cover': c13_cover.MODULES} for ch in chunks], timeout=ctx.pick(2400, 14400))
    results = [None] * len(cases)
    hits = []
    for i, (r, err) in enumerate(res):
        if err:
            ctx.fail('correspondence', 'implementation runner failed: ' + err[-600:], None)
            continue
        hits.append(r.get('cover'))
        for j, x in enumerate(r['results']):
            results[i + j * np_] = x
    return results, hits


def entry_lit(e):
    return (Nat(e[0]), bool(e[1]), (bool(e[2]), bool(e[3])))


def inf_trace_case(L, n, steps):
    """-> (Coq literal for check_inf_run, problems of the trace format, oracle problems).  The oracle evaluates on the implementation's own
    tags what T13_no_stale_env_infinite_partial states: the LP / RP read for eff_H are current on the window of L sites that contains the
    optimised sites ([0, L) moving right, [n, L + n) moving left)."""
    fmt, stale = [], []
    cap = 2 * L + 2

    def slot(x):
        if x is None:
            return None
        b, age = x
        if age is None or any(v is None for v in b):
            fmt.append('stored environment without age / tag')
            return common.Some(([], Nat(0)))
        return common.Some(([bool(v) for v in b], Nat(min(int(age), 4000))))
    lits = []
    for k, s in enumerate(steps):
        i0, mr = s['i0'], s['mr']
        rl, rr = s['readL'], s['readR']
        if rl is None or rr is None or rl[0] != i0 or rr[0] != i0 + n - 1:
            fmt.append('step %d (i0=%d): first reads are %s / %s, expected LP[%d] / RP[%d]' % (k, i0, rl and rl[0], rr and rr[0], i0, i0 + n - 1))
            rl, rr = rl or [i0, None], rr or [i0 + n - 1, None]
        w0 = 0 if mr else n
        needL, needR = max(i0 - w0, 0), max(w0 + L - 1 - (i0 + n - 1), 0)
        for side, need, tag in (('L', needL, rl[1]), ('R', needR, rr[1])):
            if tag is None or len(tag) < need or not all(tag[:need]):
                stale.append('step %d (i0=%d, move_right=%s): %sP read for eff_H is not current on its first %d factors: %s' % (k, i0, mr, side, need, tag))
        lits.append((entry_lit((i0, mr, s['upl'], s['upr'])),
                     (common.opt(None if rl[1] is None else [bool(v) for v in rl[1]]), common.opt(None if rr[1] is None else [bool(v) for v in rr[1]])),
                     ([slot(x) for x in s['LP']], [slot(x) for x in s['RP']])))
    return '(mk_inf_case ' + coq_lit((Nat(L), Nat(n), lits)) + ')', fmt, stale


def main(ctx):
    rng = ctx.rng
    ctx.proof = common.check_proofs('C13', extra_targets=['Model/SweepInfCheck.vo'])
    mult = 1 if ctx.proof.ok else 2
    cases = [gen_case(rng) for _ in range(ctx.pick(60, 600) * mult)]
    cases += [gen_case(rng, exact=True) for _ in range(ctx.pick(24, 240) * mult)]
    cases += [gen_case(rng, exact=bool(k % 2), eig=True) for k in range(ctx.pick(20, 200) * mult)]
    cases += [gen_inf(rng) for _ in range(ctx.pick(8, 40))]
    cases += [gen_inf_trace(rng) for _ in range(ctx.pick(24, 160) * mult)]
    cases += [gen_schedule_case(rng) for _ in range(ctx.pick(40, 200))]
    # (new strata are drawn after all the others so that the cases of the older streams stay the same for a given seed)
    cases += [gen_chi_ramp(rng) for _ in range(ctx.pick(20, 200) * mult)]
    cases += [gen_inf_hc(rng, k) for k in range(ctx.pick(8, 48))]
    cases += [gen_chi_one(rng, k) for k in range(ctx.pick(16, 120) * mult)]
    cases += [gen_inf_noenv(rng) for _ in range(ctx.pick(12, 60))]
    # option-space strata (harness/c13_ext.py): every feature of the lists once (quick) / several times (thorough)
    nf, ni, nv = len(c13_ext.FINITE_FEATURES), len(c13_ext.INFINITE_FEATURES), len(c13_ext.VUMPS_FEATURES)
    cases += [c13_ext.gen_finite(rng, k, gen_case) for k in range(ctx.pick(nf, 5 * nf) * mult)]
    cases += [c13_ext.gen_infinite(rng, k) for k in range(ctx.pick(ni, 3 * ni))]
    # (VUMPS runs are the most expensive ones: the quick tier rotates through the features with the seed)
    cases += [c13_ext.gen_vumps(rng, k + 4 * ctx.seed) for k in range(ctx.pick(4, 2 * nv))]
    # read-back of the effective Hamiltonians (runner: effh_probe): every finite run of the quick tier, every third one of the older
    # streams in the thorough tier (dense to_matrix for every position and variant)
    for k_, c_ in enumerate(cases):
        if not c_.get('ext') and ctx.thorough() and k_ % 3:
            c_['no_effh'] = True
    for c in common.corpus_cases('C13'):
        cases.append(c['case'])
    if os.environ.get('VERIF_C13_STREAMS'):     # debugging aid: only the named streams (the cases of a stream do not depend on the selection)
        keep = set(os.environ['VERIF_C13_STREAMS'].split(','))
        cases = [c for c in cases if c.get('stream', 'schedule' if c.get('schedule_only') else 'env-trace-inf' if c.get('trace_inf') else 'dmrg-' + c['bc']) in keep]
    results, cover_hits = run_chunks(ctx, cases)
    coq_t, coq_t_idx = [], []
    coq_s, coq_s_idx, coq_r, coq_r_idx = [], [], [], []
    coq_q, coq_q_idx = [], []
    coq_i, coq_i_idx = [], []
    hist = {'mixer': 0, 'single': 0, 'truncated': 0, 'exact_reached': 0, 'degenerate_gs': 0, 'complex': 0, 'steps': 0}
    for idx, (case, r) in enumerate(zip(cases, results)):
        if r is None:
            continue
        stream = 'schedule' if case.get('schedule_only') else ('env-trace-inf' if case.get('trace_inf') else case.get('stream', 'dmrg-' + case['bc']))
        if 'runner_error' in r:
            ctx.fail('correspondence', 'runner failed: ' + r['runner_error'][-700:], {'stream': stream, 'case': case})
            continue
        if case.get('ext'):
            # ---- option-space strata (harness/c13_ext.py)
            if 'stop' in r and 'error' not in r:
                cs = case if not case.get('chi_list_fn') else dict(case, options=dict(case['options'], chi_list=r.get('chi_list_fn')))
                sp = stop_oracle(cs, r)
                if sp:
                    ctx.fail('oracle', '; '.join(sp[:3]), {'stream': stream, 'case': case}, match_key='C13:' + stream + ':' + case['feature'] + ':run-protocol')
                coq_t.append(stop_lit(cs, r))
                coq_t_idx.append(idx)
            if case['bc'] == 'finite':
                c13_ext.check_finite(ctx, case, r, (dense_H, sector_mask, h_symmetry_labels), hist)
                continue
            hist['feature_' + case['feature']] = hist.get('feature_' + case['feature'], 0) + 1
            if case.get('expect_error') or 'error' in r:
                ctx.count(stream, [case['feature'], case['model'], case['L'], case['engine'], case['options']], nontrivial=True)
                if not case.get('expect_error'):
                    ctx.fail('oracle', 'feature %s: engine raised %s' % (case['feature'], r['error']), {'stream': stream, 'case': case, 'tb': r.get('tb')},
                             match_key='C13:raises')
                elif not str(r.get('error', '')).startswith(case['expect_error']):
                    ctx.fail('oracle', 'feature %s: documented %s not raised (%s)' % (case['feature'], case['expect_error'], r.get('error') or 'run returned'),
                             {'stream': stream, 'case': case}, match_key='C13:' + stream + ':' + case['feature'])
                continue
            # (the infinite clauses are evaluated below, together with the other infinite streams)
        if 'error' in r:
            tb = r.get('tb') or ''
            hc = bool(case['model'].get('explicit_plus_hc'))
            key = 'C13:raises'
            if hc and 'IndexError' in r['error'] and 'mix_and_decompose_1site' in tb and 'proj[Id' in tb:
                key = 'C13:SubspaceExpansion.mix_and_decompose_1site:explicit_plus_hc:proj-IndexError'
            elif hc and case['engine'] == 'single' and case['options'].get('combine') and "'OneSiteH' object has no attribute" in r['error'] and 'in adjoint' in tb:
                key = 'C13:OneSiteH.adjoint:combine+explicit_plus_hc:AttributeError'
            elif case['options'].get('diag_method') == 'arpack' and r['error'].startswith('AssertionError') and 'in npc_to_flat' in tb \
                    and 'assert len(npc_vec._data) == 1' in tb:
                key = 'C13:diag_method=arpack:FlatLinearOperator.npc_to_flat:zero-vector-AssertionError'
            elif r['error'].startswith('ZeroDivisionError') and 'in svd_from_rho' in tb and 'theta /= theta.norm()' in tb:
                # DensityMatrixMixer: U and VH truncated independently of each other to chi_max states; U^H theta V = 0
                key = 'C13:DensityMatrixMixer.svd_from_rho:projected-theta-zero:ZeroDivisionError'
            ctx.count(stream, [case['model'], case['L'], case['engine'], case['init_idx'], case['options']], nontrivial=True)
            ctx.fail('oracle', 'engine raised %s' % r['error'], {'stream': stream, 'case': case, 'tb': tb}, match_key=key)
            continue
        L = case['L']
        if case.get('schedule_only'):
            ctx.count(stream, [case['bc'], L, case['engine']], nontrivial=True)
            coq_s.append(coq_lit((case['bc'] == 'finite', Nat(L), Nat(r['n']), [entry_lit(e) for e in r['schedule']])))
            coq_s_idx.append(idx)
            continue
        probs = []
        opts = case['options']
        if case.get('trace_inf') and 'stop' in r:
            sp = stop_oracle(case, r)
            if sp:
                ctx.fail('oracle', '; '.join(sp[:3]), {'stream': stream, 'case': case}, match_key='C13:' + stream)
            coq_t.append(stop_lit(case, r))
            coq_t_idx.append(idx)
        if case.get('trace_inf'):
            # ---- infinite environment trace: stored keys / tags / ages and the reads for eff_H vs Model/SweepInf.v
            steps = r.get('inf_steps') or []
            ini = r.get('inf_init') or {}
            ctx.count(stream, [case['model'], L, case['engine'], opts, case.get('pre_env_sweeps')], nontrivial=len(steps) >= 2 * L,
                      sample={'model': case['model'], 'L': L, 'engine': case['engine'], 'steps': len(steps), 'sweeps': r['sweeps']})
            hist['inf_steps'] = hist.get('inf_steps', 0) + len(steps)
            tp = list(r.get('trace_problems') or [])
            if ini.get('LP') != [0] or ini.get('RP') != [L - 1] or ini.get('ages') != [[0], [0]]:
                tp.append('environment of a new engine (start_env=0) is not {LP[0], RP[L-1]} of age 0: %s' % ini)
            lit, fmt, stale = inf_trace_case(L, r['n'], steps)
            tp += fmt[:3]
            if tp or not steps:
                ctx.fail('correspondence', 'infinite environment trace: ' + ('; '.join(tp) or 'no local update recorded'), {'stream': stream, 'case': case})
            if stale:
                ctx.fail('oracle', 'infinite DMRG: ' + '; '.join(stale[:3]), {'stream': stream, 'case': case}, match_key='C13:' + stream)
            coq_i.append(lit)
            coq_i_idx.append(idx)
            continue
        if 'stop' in r:
            probs += stop_oracle(case, r)
            coq_t.append(stop_lit(case, r))
            coq_t_idx.append(idx)
            hist['stop_trace_chi_list'] = hist.get('stop_trace_chi_list', 0) + ('chi_list' in opts)
            hist['stop_trace_default_min_sweeps'] = hist.get('stop_trace_default_min_sweeps', 0) + ('min_sweeps' not in opts)
            hist['stopped_converged'] = hist.get('stopped_converged', 0) + (r['sweeps'] <= opts.get('max_sweeps', 1000))
        if case['bc'] == 'finite':
            H = dense_H(case)
            mask = sector_mask(case)
            psi = np.array([complex(a, b) for a, b in r['psi']])
            Hs = H[np.ix_(mask, mask)]
            w, V = np.linalg.eigh(Hs)
            E0 = w[0]
            scale = max(1.0, np.abs(w).max())
            nrm = np.linalg.norm(psi)
            if abs(nrm - 1) > 1e-8 or abs(r['norm'] - 1) > 1e-8:
                probs.append('returned state not normalised: |psi| = %.12g, psi.norm = %.12g' % (nrm, r['norm']))
            if r['norm_test'] > 1e-8:
                probs.append('returned state not canonical: norm_test = %.3e' % r['norm_test'])
            out_w = np.linalg.norm(psi[~mask])
            if out_w > 1e-10 or r['q0'] != r['q1']:
                probs.append('state left the charge sector of the initial state (weight outside %.3e, charges %s -> %s)' % (out_w, r['q0'], r['q1']))
            Eexp = (psi.conj() @ H @ psi).real / max(1e-300, nrm ** 2)
            if abs(Eexp - r['E_mpo']) > 1e-9 * scale:
                probs.append('H_MPO.expectation_value %.12g differs from dense <psi|H|psi> %.12g' % (r['E_mpo'], Eexp))
            terr = max(r['last_trunc_err'], 0.0)
            # E is the eigenvalue of the last local update, taken before its truncation; discarding the weight terr of a normalised state
            # changes <H> by at most ~ 2 |H| sqrt(terr).  (The engine's own max_E_trunc is NOT used as slack: it is E_after - E_reported, so it
            # would absorb any error of the reported eigenvalue.)
            tolE = 1e-8 * scale + 20 * scale * np.sqrt(terr)
            if abs(r['E'] - Eexp) > tolE:
                probs.append('reported E = %.12g, <psi|H|psi> = %.12g (truncation error of the last sweep %.2e)' % (r['E'], Eexp, terr))
            # (the reported eigenvalue of an effective Hamiltonian is the expectation value of H in a normalised state of the sector: variational)
            if Eexp < E0 - 1e-10 * scale or r['E'] < E0 - 1e-9 * scale:
                probs.append('energy below the exact ground-state energy of the sector: E = %.12g, <H> = %.12g, E0 = %.12g' % (r['E'], Eexp, E0))
            if case.get('exact') or case.get('ramp_exact'):
                # the ground state "of the sector": of the explicitly conserved charge (mask), or - when the model conserves less than H does -
                # of the symmetry sector of H in which the returned state lies (the Krylov space of a Lanczos update cannot leave the symmetry
                # sector of its start vector, the mixers are built from H; diag_method ED_block / default -> ED is documented to move between
                # them: "if you don't preserve a charge explicitly, it can break it", after which Lanczos updates stay in the new one)
                lab = h_symmetry_labels(case)
                wts = {int(l): np.linalg.norm(psi[mask & (lab == l)]) for l in set(lab[mask].tolist())}
                mask2 = mask & (lab == max(wts, key=wts.get))
                w2, V2 = np.linalg.eigh(H[np.ix_(mask2, mask2)])
                if w2[0] > E0 + 1e-9 * scale and abs(r['E'] - w2[0]) < abs(r['E'] - E0):      # (same energy: the eigenspace of the explicit sector)
                    w = w2
                    V = np.zeros((int(mask.sum()), V2.shape[1]), dtype=complex)
                    V[mask2[mask], :] = V2
                hist['exact_in_symmetry_sector_of_H_only'] = hist.get('exact_in_symmetry_sector_of_H_only', 0) + (w2[0] > E0 + 1e-7 * scale)
                E0x = w[0]
            else:
                E0x = E0
            deg = int(np.sum(w < E0x + 1e-9 * scale))
            gap = (w[deg] - E0x) if deg < len(w) else 1.0
            if case.get('ramp_exact'):
                # the last entry of chi_list is >= the full bond dimension 2^(L//2) and the mixer is (re)activated there: nothing is truncated
                # in the requested final configuration, whatever truncation the engine reports for the sweeps it actually made
                hist['ramp_exact'] = hist.get('ramp_exact', 0) + 1
                if abs(r['E'] - E0x) > 1e-7 * scale:
                    probs.append('two-site DMRG with mixer and chi_list %s (last entry does not truncate) did not reach the exact energy: E = %.12g, '
                                 'E0 = %.12g (%d sweeps, chi = %s, truncation error of the last sweep %.2e)'
                                 % (opts['chi_list'], r['E'], E0x, r['sweeps'], r['chi'], r['last_trunc_err']))
                elif gap > 1e-3:
                    ov = np.linalg.norm(V[:, :deg].conj().T @ psi[mask])
                    if ov < 1 - 1e-5:
                        probs.append('chi_list ramp: exact energy but overlap with the ground-state eigenspace is %.8f' % ov)
                    else:
                        hist['exact_reached'] += 1
            if case.get('exact') and r['max_trunc_err'] < 1e-18 and max(r['chi']) <= 16:
                E0 = E0x
                if abs(r['E'] - E0) > 1e-7 * scale:
                    probs.append('untruncated two-site DMRG with mixer did not reach the exact energy: E = %.12g, E0 = %.12g (sweeps %d)' % (r['E'], E0, r['sweeps']))
                elif gap > 1e-3:
                    ov = np.linalg.norm(V[:, :deg].conj().T @ psi[mask])
                    if ov < 1 - 1e-5:
                        probs.append('exact energy but overlap with the ground-state eigenspace is %.8f' % ov)
                    else:
                        hist['exact_reached'] += 1
            probs += c13_ext.check_effh(r, scale, True, r['norm_test'] <= 1e-8 and abs(r['norm'] - 1) <= 1e-8)
            hist['effh_probes'] = hist.get('effh_probes', 0) + int(bool(r.get('effh')))
            if r.get('E_trunc_last') is not None:
                # "up to the reported truncation": update_stats['E_trunc'] of the last update is the energy after its truncation (full contraction
                # of the environments around the new tensors) minus the reported eigenvalue
                hist['max_dev_E_plus_E_trunc_last'] = max(hist.get('max_dev_E_plus_E_trunc_last', 0.0), float(abs(r['E'] + r['E_trunc_last'] - Eexp) / scale))
                # (statistic only: after a chi_list entry has re-activated the mixer the E_trunc of the last update is not the difference to
                # <psi|H|psi> of the returned state - seen 3e-6 .. 9e-5 in the chi-ramp streams - so this is not used as an oracle)
            hist['degenerate_gs'] += deg > 1
            hist['truncated'] += r['max_trunc_err'] > 1e-14
            hist['mixer'] += opts.get('mixer') is not None
            hist['single'] += case['engine'] == 'single'
            hist['complex'] += bool(np.abs(H.imag).max() > 0)
            lp = opts.get('lanczos_params') or {}
            nl = r.get('N_lanczos_last') or [-1]
            for k_ in ('E_shift', 'N_min', 'N_max', 'N_cache', 'reortho', 'cutoff', 'P_tol', 'E_tol'):
                hist['lanczos_' + k_] = hist.get('lanczos_' + k_, 0) + (k_ in lp and nl[-1] >= 1)
            hist['lanczos_in_use'] = hist.get('lanczos_in_use', 0) + (nl[-1] >= 1)
            hist['krylov_dim_1_last_update'] = hist.get('krylov_dim_1_last_update', 0) + (nl[-1] == 1)
            hist['krylov_dim_1_last_update_with_E_shift'] = hist.get('krylov_dim_1_last_update_with_E_shift', 0) + (nl[-1] == 1 and 'E_shift' in lp)
            hist['one_dim_sector'] = hist.get('one_dim_sector', 0) + (int(mask.sum()) == 1)
            # ---- environment trace: freshness on the implementation, stored sets vs model
            steps = r.get('steps') or []
            hist['steps'] += len(steps)
            if r.get('trace_problems'):
                ctx.fail('correspondence', 'environment trace: ' + '; '.join(r['trace_problems']), {'stream': stream, 'case': case})
            stale = [(k, s['i0'], rd) for k, s in enumerate(steps) for rd in s['reads'] if not rd[2]]
            notcur = [k for k, s in enumerate(steps) if not s['current']]
            if stale:
                k, i0, rd = stale[0]
                probs.append('stale environment read: step %d (i0=%d) read %sP[%d] contracted from outdated site tensors' % (k, i0, rd[0], rd[1]))
            elif notcur:
                probs.append('after step %d a stored environment is not current (would be read later)' % notcur[0])
            if steps:
                es = [entry_lit((s['i0'], s['mr'], s['upl'], s['upr'])) for s in steps]
                snaps = [([Nat(i) for i in s['LP']], [Nat(i) for i in s['RP']]) for s in steps]
                coq_r.append(coq_lit((Nat(L), Nat(r['n']), es, snaps)))
                coq_r_idx.append(idx)
                if r.get('mods') and 'qt0' in r and all('qt' in s for s in steps):
                    qsteps = [(e, Nat(s['mix']), s['qt']) for e, s in zip(es, steps)]
                    coq_q.append(coq_lit((r['mods'], Nat(r['n']), r['qt0'], qsteps)))
                    coq_q_idx.append(idx)
                    hist['charged_tensors'] = hist.get('charged_tensors', 0) + bool(any(any(q) for q in r['qt0']))
            ctx.count(stream, [case['model'], L, case['engine'], case['init_idx'], opts], nontrivial=True,
                      sample={'model': case['model'], 'L': L, 'engine': case['engine'], 'mixer': opts.get('mixer'), 'E': r['E'], 'E0': float(E0),
                              'chi': r['chi'], 'sweeps': r['sweeps']})
        else:
            m = case['model']
            e_exact = tfi_e_inf(m['J'], m['g']) if m['name'] == 'tfi' else (0.25 - np.log(2))
            if r['norm_test'] > 1e-6:
                probs.append('infinite: returned state not canonical: norm_test = %.3e' % r['norm_test'])
            nsc = opts.get('N_sweeps_check', 10)
            cn = r.get('canon') or {}
            hist['inf_canonical_form_called'] = hist.get('inf_canonical_form_called', 0) + bool(cn)
            # a run that stopped at max_sweeps without the engine declaring convergence: the E returned by an infinite run is the energy
            # gained per added site in the last iteration, which equals <H>/site of the state only at the fixed point.  Only in the stream
            # without environment sweeps; all other infinite streams require agreement in any case.
            converged = not (stream in ('dmrg-infinite-no-env-sweeps', 'dmrg-infinite-options') and r['sweeps'] > opts.get('max_sweeps', 1000))
            if case.get('ext'):
                allw = ' | '.join((r.get('warnings') or []) + (r.get('log_warnings') or []))
                if case.get('expect_warning') and case['expect_warning'] not in allw:
                    probs.append('documented warning %r not issued (got: %s)' % (case['expect_warning'], allw[:300]))
                if case.get('expect_env_age0') is not None and r.get('env_age0') != [case['expect_env_age0']] * 2:
                    probs.append('init_env_data start_env_sites = %d: ages of the initial LP / RP are %s' % (case['expect_env_age0'], r.get('env_age0')))
                if r.get('mixer_end') or r.get('S_ndim') != 1:
                    probs.append('infinite run returned with an active mixer / non-diagonal singular values')
                if stream == 'vumps-options' and r.get('returned_type') != 'MPS':
                    probs.append('VUMPS run() returned a %s, documented: MPS' % r.get('returned_type'))
                for kk in range(int(case.get('rerun', 0))):
                    t_ = 'run%d_' % kk
                    cn0 = r.get(t_ + 'canon') or {}
                    if cn0.get('E_before') is not None and abs(r[t_ + 'E_mpo'] - cn0['E_before']) > 1e-5 and abs(cn0['E_before'] - r[t_ + 'E']) < 5e-3:
                        ctx.fail('oracle', 'infinite %s DMRG, run %d of the same engine: post_run_cleanup calls psi.canonical_form() on the final state (norm error '
                                 '%.1e); <H>/site is %.10g before and %.10g after that call, run() reports E = %.10g (exact %.10g)'
                                 % (case['engine'] + '-site', kk, cn0.get('norm_err_before') or 0.0, cn0['E_before'], r[t_ + 'E_mpo'], r[t_ + 'E'], e_exact),
                                 {'stream': stream, 'case': case}, match_key='C13:DMRGEngine._canonicalize:infinite:canonical_form-changes-energy')
                    elif r[t_ + 'norm_test'] > 1e-6 or r[t_ + 'E_mpo'] < e_exact - 1e-7 or abs(r[t_ + 'E_mpo'] - e_exact) > 5e-3 or \
                            (abs(r[t_ + 'E'] - r[t_ + 'E_mpo']) > 1e-4 and r[t_ + 'sweeps'] <= opts.get('max_sweeps', 1000)):
                        probs.append('run %d of the same engine: E = %.10g, <H>/site = %.10g, exact %.10g, norm_test %.2e'
                                     % (kk, r[t_ + 'E'], r[t_ + 'E_mpo'], e_exact, r[t_ + 'norm_test']))
            hist['inf_not_converged_at_max_sweeps'] = hist.get('inf_not_converged_at_max_sweeps', 0) + (not converged)
            if case['engine'] == 'single' and (nsc // 2) % 2 == 1 and abs(r['E'] / r['E_mpo'] - 1.5) < 1e-3 and r['E_mpo'] >= e_exact - 1e-7 \
                    and abs(r['E_mpo'] - e_exact) < 5e-3:
                ctx.fail('oracle', 'infinite SingleSiteDMRGEngine with an odd number of environment sweeps per iteration (update_env = %d): '
                         'run() reports E = %.10g = 1.5 x the energy per site %.10g of the returned state' % (nsc // 2, r['E'], r['E_mpo']),
                         {'stream': stream, 'case': case}, match_key='C13:SingleSiteDMRGEngine:infinite:odd-update_env:E-per-site-x1.5')
            elif cn.get('E_before') is not None and abs(r['E_mpo'] - cn['E_before']) > 1e-5 and abs(cn['E_before'] - r['E']) < 5e-3:
                # the state at the end of the last sweep has the reported energy; the state returned after the engine's own
                # post_run_cleanup -> _canonicalize -> psi.canonical_form() does not
                ctx.fail('oracle', 'infinite %s DMRG (update_env = %s): post_run_cleanup calls psi.canonical_form() on the final state (norm error %.1e); '
                         '<H>/site is %.10g before and %.10g after that call, run() reports E = %.10g (exact %.10g)'
                         % (case['engine'] + '-site', opts.get('update_env', nsc // 2), cn.get('norm_err_before') or 0.0, cn['E_before'], r['E_mpo'], r['E'], e_exact),
                         {'stream': stream, 'case': case, 'impl': {k: r.get(k) for k in ('E', 'E_mpo', 'sweeps', 'chi', 'canon')}},
                         match_key='C13:DMRGEngine._canonicalize:infinite:canonical_form-changes-energy')
            elif r['E_mpo'] < e_exact - 1e-7 or (r['E'] < e_exact - 1e-7 and (converged or stream != 'dmrg-infinite-options')):
                # (the E of an unconverged infinite run - energy gained per added site in the last iteration - is not variational)
                probs.append('infinite: energy per site %.10g / %.10g below the exact value %.10g' % (r['E'], r['E_mpo'], e_exact))
            elif abs(r['E_mpo'] - e_exact) > 5e-3 or (abs(r['E'] - r['E_mpo']) > 1e-4 and converged):
                probs.append('infinite: E = %.10g, <H>/site = %.10g, exact %.10g' % (r['E'], r['E_mpo'], e_exact))
            if case.get('compare_without_hc'):
                ref = r.get('ref') or {}
                # both runs stop at the same finite accuracy (<= 30 sweeps); VUMPS follows the same path with both MPOs, the mixers of iDMRG
                # are built from the MPO and differ
                tol_pair = 1e-5 if case['engine'].startswith('vumps') else 1e-4
                hist['inf_plus_hc_pairs'] = hist.get('inf_plus_hc_pairs', 0) + 1
                if not r.get('hc'):
                    ctx.fail('correspondence', 'model built with explicit_plus_hc=True has H_MPO.explicit_plus_hc = False', {'stream': stream, 'case': case})
                if ref.get('error'):
                    probs.append('the same run without explicit_plus_hc raised %s' % ref['error'])
                elif abs(ref['E_mpo'] - r['E_mpo']) > tol_pair or abs(ref['E'] - r['E']) > 10 * tol_pair:
                    probs.append('infinite: explicit_plus_hc=True gives E = %.10g, <H>/site = %.10g; the same Hamiltonian without it E = %.10g, '
                                 '<H>/site = %.10g' % (r['E'], r['E_mpo'], ref['E'], ref['E_mpo']))
            if case.get('ext'):
                probs += c13_ext.check_effh(r, 1.0, False)
                hist['effh_probes'] = hist.get('effh_probes', 0) + int(bool(r.get('effh')))
            if abs(r['E_bond'] - r['E_mpo']) > 1e-8:
                probs.append('infinite: mean bond energy %.10g differs from the MPO expectation value %.10g' % (r['E_bond'], r['E_mpo']))
            ctx.count(stream, [case.get('feature'), case['model'], case['L'], case['engine'], opts], nontrivial=True,
                      sample={'model': m, 'engine': case['engine'], 'E': r['E'], 'exact': float(e_exact), 'chi': r['chi'], 'feature': case.get('feature')})
        if probs:
            ctx.fail('oracle', ('feature %s: ' % case['feature'] if case.get('feature') else '') + '; '.join(probs[:4]),
                     {'stream': stream, 'case': case, 'impl': {k: r.get(k) for k in ('E', 'E_mpo', 'sweeps', 'chi', 'N_lanczos_last', 'norm_test', 'warnings', 'log_warnings')}},
                     match_key='C13:' + stream + (':' + case['feature'] if case.get('feature') else ''))
    bad, err = common.coq_failing_indices('cases_c13_s', ['Base.Prelude', 'Model.Sweep'], 'check_schedule', coq_s)
    if err:
        ctx.fail('correspondence', 'model evaluation failed: ' + err[-600:], None)
    for b in bad[:5]:
        ctx.fail('correspondence', 'Model/Sweep.v schedule and get_sweep_schedule disagree', {'stream': 'schedule', 'case': cases[coq_s_idx[b]],
                                                                                               'impl': results[coq_s_idx[b]]})
    bad, err = common.coq_failing_indices('cases_c13_r', ['Base.Prelude', 'Model.Sweep'], 'check_run', coq_r, shard=40)
    if err:
        ctx.fail('correspondence', 'model evaluation failed: ' + err[-600:], None)
    for b in bad[:5]:
        ctx.fail('correspondence', 'Model/Sweep.v and the instrumented run disagree on the stored environments after some local update',
                 {'stream': 'env-trace', 'case': cases[coq_r_idx[b]]})
    bad, err = common.coq_failing_indices('cases_c13_q', ['Base.Prelude', 'Model.Charge', 'Model.Sweep', 'Model.SweepCharge'], 'check_charge_run',
                                          coq_q, shard=40)
    if err:
        ctx.fail('correspondence', 'model evaluation failed: ' + err[-600:], None)
    for b in bad[:5]:
        ctx.fail('correspondence', 'Model/SweepCharge.v and the instrumented run disagree on the qtotal of the site tensors after some local '
                 'update (charge bookkeeping of update_local: theta.qtotal / qtotal_LR / set_B)',
                 {'stream': 'charge-trace', 'case': cases[coq_q_idx[b]]})
    bad, err = common.coq_failing_indices('cases_c13_i', ['Base.Prelude', 'Model.Sweep', 'Model.SweepInf', 'Model.SweepInfCheck'], 'check_inf_run',
                                          coq_i, shard=40)
    if err:
        ctx.fail('correspondence', 'model evaluation failed: ' + err[-600:], None)
    for b in bad[:5]:
        ctx.fail('correspondence', 'Model/SweepInf.v and the instrumented infinite run disagree on the stored environments (keys, which factors '
                 'are current, ages) after some local update or on the environments read for eff_H',
                 {'stream': 'env-trace-inf', 'case': cases[coq_i_idx[b]]})
    bad, err = common.coq_failing_indices('cases_c13_t', ['Base.Prelude', 'Model.SweepStop'], 'check_stop_run', coq_t, shard=100)
    if err:
        ctx.fail('correspondence', 'model evaluation failed: ' + err[-600:], None)
    for b in bad[:5]:
        ctx.fail('correspondence', 'Model/SweepStop.v and the recorded run protocol disagree (derived min_sweeps, chi_max / mixer in force in '
                 'some sweep, number of sweeps at which the run stopped, given the recorded is_converged() values)',
                 {'stream': 'stop-trace', 'case': cases[coq_t_idx[b]], 'impl': results[coq_t_idx[b]].get('stop')})
    if os.environ.get('VERIF_C13_DUMP'):      # debugging aid: all failures with their cases
        json.dump(ctx.violations, open(os.environ['VERIF_C13_DUMP'], 'w'), indent=1, default=str)
    # ---- coverage table: public functions / methods and explicit branches of the anchored files reached by the runner processes
    table, unclassified = c13_cover.build_table(common.REPO, cover_hits)
    ctx.cov['anchored_code_coverage'] = table
    if not os.environ.get('VERIF_C13_STREAMS'):
        if not table['runner_processes_with_recording']:
            ctx.fail('correspondence', 'no runner process recorded executed lines (coverage table empty)', None)
        for name in unclassified[:8]:
            ctx.fail('correspondence', 'public function of the anchored code is neither executed by any stream nor classified as outside the '
                     'property (harness/c13_cover.py EXCLUDED): ' + name, None)
    ctx.cov['stop_traces'] = len(coq_t)
    ctx.cov['traces_validated_against_impl'] = len(coq_s) + len(coq_r) + len(coq_q) + len(coq_i) + len(coq_t)
    ctx.cov['input_distribution'] = hist
    ctx.assumptions += [
        'C13 model: only the sweep protocol (schedule, which environments are stored/deleted/recomputed, site versions); tensors, energies, '
        'truncation and the eigensolver are not modelled; energy/convergence/canonical-form clauses are oracle-only (exact diagonalisation)',
        'C13 oracle: dense Hamiltonians are built in harness/c13.py from the documented formulas of TFIChain, XXZChain, FermionChain and a '
        'CouplingMPOModel with longer-range complex couplings defined in the runner; infinite chains are compared with closed-form energies',
        'C13 generators, infinite chains: the one-site engines are run on the gapped transverse-field Ising chain only.  One-site iDMRG on the '
        'critical Heisenberg chain (chi 16, <= 30 sweeps) stops at max_sweeps without the engine declaring convergence (Delta_E ~ 1e-7 .. 1e-5 per '
        'sweep, Delta_S ~ 1e-3); its E (energy gained per added site in the last iteration) and <H>/site of the returned state then differ by '
        '1e-6 .. 2.5e-4 and agree to 1e-9 once the run is allowed to converge (200 sweeps): slow convergence at criticality, not a statement of '
        'the property about a converged result.  For the same reason the stream dmrg-infinite-no-env-sweeps compares E with <H>/site only for runs '
        'that stopped as converged (all other clauses - normalisation, canonical form, <H>/site >= exact and within 5e-3 of it, and that the '
        'canonicalisation of post_run_cleanup does not change <H>/site - apply to every run)',
    ]
    ctx.assumptions += [
        'C13 option strata: orthogonal_to - the states to project out are exact eigenvectors of the projected effective Hamiltonian with eigenvalue 0 '
        '(independent of the Lanczos option E_shift); when the target level (plus E_shift, if the Lanczos solver is in use) is not negative the engine '
        'documents that orthogonality cannot be guaranteed (warning of post_run_cleanup, docstring of KrylovBased.E_shift): for those cases only '
        'normalisation, canonical form and the charge sector of the returned state are required, and the warning must be issued exactly when the final '
        'energy is > -1e-8.  Overlaps with the projected-out states are required to vanish up to 1e-6 + 10 sqrt(largest truncation error of the run): '
        'the projection acts on the local eigenproblem, the truncation afterwards is not projected',
        'C13 option strata: norm_tol = None (not a documented value; the code then skips the final canonicalisation, and a truncated run returns a state '
        'whose stored singular values are those of earlier updates) is not drawn in the strata with the canonical-form oracle; the canonical form is '
        'required up to max(1e-8, norm_tol_final) as documented for norm_tol_final',
        'C13 option strata: diag_method ED_all is documented to leave the charge sector of the initial state; required instead: the returned state has a '
        'definite value of every conserved charge, E >= lowest energy of that sector, and (untruncated two-site DMRG with mixer) E = lowest energy of all sectors',
        'C13 option strata: resuming from a checkpoint (resume_data with sweeps / sweep_stats / mixer, resume_run) belongs to C18 and is not drawn here; '
        'get_resume_data(sequential_simulations=True) -> init_env_data -> next engine, init_env() on a used engine and a second run() are drawn',
        'C13 coverage table: a function / branch counts as reached when its first line was executed in some runner process (sys.monitoring LINE events '
        'on the code objects of the anchored files); implicit else branches (an `if` without `else` whose condition is false) are not distinguished',
    ]
    return ctx.finish(RULE, 'T13_schedule_covers for all L, n, bc; environment freshness proved for L <= 24 (partial) and observed on every instrumented run; '
                      'spectral clauses by exact diagonalisation')


RULE = ('finite chains of 3-8 sites: TFI, XXZ, spinless fermions, longer-range spin chains with complex couplings (conserve Sz/N/parity/None, '
        'explicit_plus_hc), alternating/random/fully polarised (one-dimensional sector, exact eigenstate) initial product states, engines '
        'TwoSite/SingleSite DMRG x mixers None/default/DensityMatrixMixer/SubspaceExpansion x diag_method default (max_N_for_ED 0-50: Lanczos '
        'forced)/lanczos/arpack/ED_block x lanczos_params (E_shift +/-, N_min, N_max, N_cache, reortho, cutoff, P_tol, E_tol; incl. last updates '
        'with Krylov dimension 1) x chi_max 2-16 / chi_list x combine; reported E vs dense <psi|H|psi> within 20|H|sqrt(trunc_err) (the '
        'engine\'s own E_trunc is not used as slack) and E >= E0(sector) without slack; chi_list ramps {0: 2-4, .., K: >= full bond dimension} '
        'x N_sweeps_check 1-3 x default/explicit min_sweeps x chi_list_reactivates_mixer: run protocol (chi_max and mixer per sweep, stop) vs '
        'Model/SweepStop.v and exact ground state when the last entry does not truncate; infinite: iDMRG and VUMPS (single/two-site) on TFI and '
        'Heisenberg vs closed-form energies, unit cells 2-4, every engine also with explicit_plus_hc=True vs the same run without it; chi_max = 1 (as chi_max, chi_list[0], and as the start of a ramp to the full bond dimension) for every engine / mixer; iDMRG without environment sweeps (N_sweeps_check = 1 or update_env = 0), unit cells 2-4, both engines x mixers, <H>/site before and after the canonical_form call of post_run_cleanup.  Option-space strata (harness/c13_ext.py, every feature forced by '
        'stratification): finite - diag_method ED_all (with / without mixer), E_tol_to_trunc / P_tol_to_trunc (None, bounds) with the documented update of '
        'lanczos_params, max_S_err, norm_tol / norm_tol_final, mixer never disabled (decay None / 1, disable_after None: convergence with enabled mixer), '
        'amplitude below machine precision, run ending with an active mixer (max_sweeps / shelved), mixer given as a class, chi_list with a None entry, '
        'chi_list built by dmrg.chi_list (incl. chi_max < dchi), dmrg.run with active_sites 1 / 2, max_hours (shelve), N_sweeps_check 2-4, L = 9-10, '
        'init_env_data for a finite chain, second run() / init_env (same or changed model) on the same engine, DMRGThreadPlusHC (Lanczos and ED), '
        'orthogonal_to (1-2 lower states, dict form, both engines, threaded engine, non-negative levels), one-site engine + DensityMatrixMixer on Z_2 charged '
        'tensors, documented errors; infinite - combine, start_env, init_env_data (start_env_sites 0-5, force_init_method TM / iter, data of a previous run, '
        'incompatible psi / MPO legs, with chi_list), non-canonical initial psi, chi_list, norm_tol / norm_tol_iter / norm_tol_final, '
        'init_env on a used engine followed by a second run(), tolerance options, orthogonal_to error; VUMPS - L = 1, check_overlap, diagonal_gauge_frequency + cutoff, norm_tol, '
        'lanczos_options alias, UniformMPS input, chi_list, Z_2 charges, N_sweeps_check / max_split_err / max_S_err, mixer as class, two-site on L = 1; on '
        'every returned finite state the effective Hamiltonians (ZeroSiteH / OneSiteH / TwoSiteH x combine x move_right, threaded) are read back: '
        '<theta|H_eff (+ adjoint)|theta> = <psi|H|psi>, to_matrix vs matvec, adjoint vs conjugate transpose.  Coverage table of the anchored code '
        '(functions / branches executed by the runner processes) in coverage.anchored_code_coverage.  distinct = distinct (model, L, engine, initial state, options).')
