"""C02 - streams beyond the tensor programs of npc_gen.py: the public functions / classes of tenpy.linalg that RETURN npc Arrays or
LegCharges (or are documented as inverses of each other) but are not methods reached by the program generator.

kinds of cases (one case = one JSON document, everything random is drawn from the seeds inside the case):
  leglookup  LegCharge / LegPipe lookups and constructors: get_charge / get_qindex_of_charges / get_qindex / get_slice / get_block_sizes /
             charge_sectors round trips on legs of both directions, to_qdict/from_qdict, from_qflat/to_qflat, from_trivial, from_add_charge,
             perm_flat_from_perm_qind/perm_qind_from_perm_flat, test_equal / test_contractible
  flatop     sparse.FlatLinearOperator / FlatHermitianOperator over a leg of either direction: every charge sector of the leg (+ 0 + None + an
             absent one), compact / non-compact flat mode, constructor / from_NpcArray / charge_sector setter; flat_to_npc, npc_to_flat,
             flat_to_npc_None_sector, matvec (tensors handed to and returned by the user's npc_matvec), eigenvectors
  flatpipe   FlatLinearOperator.from_guess_with_pipe over 2-3 legs of mixed directions
  linalg     constructors (from_func, from_func_square + random_matrix, from_ndarray_trivial, from_ndarray with detected qtotal,
             detect_legcharge / detect_qtotal), Array.matvec / unary_blockwise / get_block(insert=True) / add_charge / replace_label(s),
             factorizations (svd, qr, lq, eigh, eig, expm, pinv, polar, orthogonal_columns, speigs), krylov_based.gram_schmidt,
             the NpcLinearOperator wrappers of sparse

Oracle on EVERY tensor / leg returned: npc_gen.check_array_invariants / check_leg_invariants (independent recomputation of the charge
rule and the storage claims + the object's own test_sanity(), the harness runs this at TENPY_OPTIMIZE=0), the documented total charge, and
the documented round trips (flat -> npc -> flat, npc -> flat -> npc, get_qindex_of_charges(get_charge(qi)) == qi, ...), written from the
doc strings.  A call on valid arguments that raises is a C02 failure too (the operation is not closed), except in the two situations that
are registered defects of the unchanged tree under property C16 (F16.3, F16.4), which are attributed to C16 (not counted here).

Runs inside a fresh interpreter (harness/impl/c01_impl.py, kind 'c02x'); needs numpy + tenpy only there; the generator part needs
numpy only.
"""
import random
import traceback
import warnings

import numpy as np

import npc_gen as G

QT = G.QT
KINDS = ('leglookup', 'flatop', 'flatpipe', 'linalg')


# =========================================================================================
# generation
# =========================================================================================

def gen_mods(rng, p_signed=0.5):
    """charge groups; with probability p_signed at least one group with q != -q (U(1) or Z_N, N >= 3)"""
    mods, names = G.gen_chinfo(rng)
    while not mods and rng.random() < 0.85:
        mods, names = G.gen_chinfo(rng)
    if rng.random() < p_signed:
        mods = [rng.choice([1, 1, 3, 3, 4, 5])] + ([rng.choice([1, 2, 3])] if rng.random() < 0.3 else [])
        names = [''] * len(mods)
        if rng.random() < 0.5:
            names = rng.sample(['N', 'Sz', 'P', 'K'], len(mods))
    return mods, names


def gen_big_leg(rng, mods, maxn=12):
    """legs with larger sectors (for eigenvectors): 2-5 blocks of size 1-4, charges from a pool that contains q and -q"""
    q = len(mods)
    nb = rng.choice([2, 3, 3, 4, 5])
    sizes = [rng.choice([1, 2, 3, 4, 4]) for _ in range(nb)]
    while sum(sizes) > maxn:
        sizes[sizes.index(max(sizes))] -= 1
    pool = []
    for _ in range(rng.choice([2, 3, 4])):
        c = [rng.randint(-2, 2) if m == 1 else rng.randrange(m) for m in mods]
        pool.append(c)
        if rng.random() < 0.6:
            pool.append([int(x) for x in G.mv(mods, -np.array(c, dtype=QT))])
    charges = [rng.choice(pool) for _ in range(nb)]
    return G.RLeg(np.concatenate([[0], np.cumsum(sizes)]).astype(int), np.array(charges, dtype=QT).reshape(nb, q), rng.choice([1, -1]), q)


def prep_leg(leg, how):
    """reference implementation of sort(bunch=True) / bunch() on an RLeg (documented: stable lexsort of the charges, then merge neighbours)"""
    if how == 'raw' or leg.n == 0:
        return leg
    qf = leg.qflat()
    if how == 'sort_bunch':
        order = sorted(range(leg.n), key=lambda i: (G.lex_key(qf[i]), i))
        qf = qf[order]
    return G.leg_from_qflat(qf, leg.qconj, leg.q, bunch=True)


def drop_empty(leg):
    """the same leg without its blocks of size 0 (tensordot / combine_legs over empty blocks: territory of the tensor programs)"""
    keep = [b for b in range(leg.nb) if leg.slices[b + 1] > leg.slices[b]]
    sizes = [int(leg.slices[b + 1] - leg.slices[b]) for b in keep]
    return G.RLeg(np.concatenate([[0], np.cumsum(sizes)]).astype(int), leg.charges[keep].reshape(len(keep), leg.q), leg.qconj, leg.q)


def gen_any_leg(rng, mods, maxn=8, big=False, noempty=False):
    r = rng.random()
    if big:
        leg = gen_big_leg(rng, mods, maxn)
    elif r < 0.5:
        leg = G.gen_leg(rng, mods, maxn)
    else:
        leg = G.gen_leg_rich(rng, mods, maxn)
    return drop_empty(leg) if noempty else leg


def gen_case(rng, kind=None):
    kind = kind or rng.choice(KINDS)
    mods, names = gen_mods(rng, 0.3 if kind in ('leglookup', 'linalg') else 0.6)
    case = {'kind2': kind, 'seed': rng.randrange(1 << 30), 'mods': mods, 'names': names}
    if kind == 'leglookup':
        legs = [gen_any_leg(rng, mods, 6) for _ in range(rng.choice([1, 1, 2, 2, 3]))]
        how = rng.choice(['raw', 'raw', 'sort_bunch', 'bunch'])
        case['legs'] = [prep_leg(l, how).spec() for l in legs]
        case['pipe'] = len(legs) > 1
        case['pipe_args'] = [rng.choice([1, -1]), rng.random() < 0.8, rng.random() < 0.8]
    elif kind == 'flatop':
        for _ in range(50):
            leg = prep_leg(gen_any_leg(rng, mods, 12, big=rng.random() < 0.6, noempty=True), rng.choice(['raw', 'sort_bunch', 'sort_bunch', 'sort_bunch', 'bunch']))
            if leg.n >= 1:
                break
        case['leg'] = leg.spec()
        case['cplx'] = rng.random() < 0.3
        case['herm'] = rng.random() < 0.6
        case['labels'] = rng.random() < 0.5
        case['cls'] = rng.choice(['Flat', 'Flat', 'Herm'])
        case['ctor'] = rng.choice(['from_NpcArray', 'from_NpcArray', 'init', 'setter'])
    elif kind == 'flatpipe':
        for _ in range(50):
            legs = [gen_any_leg(rng, mods, 4, noempty=True) for _ in range(rng.choice([2, 2, 3]))]
            if all(l.n >= 1 for l in legs) and int(np.prod([l.n for l in legs])) <= 40:
                break
        case['legs'] = [l.spec() for l in legs]
        case['cplx'] = rng.random() < 0.3
        case['compact'] = rng.random() < 0.7
        case['split'] = rng.choice(['none', 'perm', 'perm'])
    elif kind == 'linalg':
        for _ in range(50):
            leg = prep_leg(gen_any_leg(rng, mods, 6, noempty=True), rng.choice(['raw', 'sort_bunch', 'sort_bunch', 'bunch']))
            leg2 = prep_leg(gen_any_leg(rng, mods, 5, noempty=True), rng.choice(['raw', 'sort_bunch']))
            if leg.n >= 1 and leg2.n >= 1:
                break
        case['leg'] = leg.spec()
        case['leg2'] = leg2.spec()
        case['cplx'] = rng.random() < 0.4
        case['single'] = rng.random() < 0.3         # float32 / complex64 tensors (valid tensors of the library as well)
    else:
        raise ValueError(kind)
    return case


# =========================================================================================
# execution (fresh interpreter)
# =========================================================================================

class Rec:
    """collects failures / statistics of one case in the format harness/c01_common.collect understands"""

    def __init__(self, case, config):
        self.case = case
        self.config = config
        self.mods = case['mods']
        self.fails = []
        self.ops = []
        self.stats = {}
        self.step = -1
        self.coq3 = []

    def stat(self, k, n=1):
        self.stats[k] = self.stats.get(k, 0) + n

    def api(self, name):
        """one call of the public function `name` (coverage table)"""
        self.stat('api:' + name)

    def op(self, name, **kw):
        self.step += 1
        o = {'op': name}
        o.update(kw)
        self.ops.append(o)
        self.stat('op:' + name)

    def fail(self, prop, opname, cond, symptom, text):
        self.fails.append({'prop': prop, 'key': '%s:%s:%s:%s' % (prop, opname, cond or '-', symptom), 'what': '%s [%s]: %s' % (opname, cond or '-', text),
                           'step': self.step, 'config': self.config})

    def inv(self, x, opname, cond, role='result', mods=None):
        """C02 oracle on one returned Array; returns True when consistent"""
        seen = set()
        self.stat('checked-arrays')
        try:
            bad = G.check_array_invariants(x, self.mods if mods is None else mods)
            if not bad:
                import c02_depth
                bad = c02_depth.deep_array(x, self.mods if mods is None else mods)      # internal maps of LegPipes, documented storage types
        except Exception as e:
            bad = [('invariant-check-raises', '%s: %s' % (type(e).__name__, str(e)[:100]))]
        for kind, text in bad:
            if seen and (kind == 'own-sanity-raises' or (kind == 'test_sanity:dtype' and 'block-dtype' in seen)):
                continue        # the tensor's own check repeats what the recomputation found
            if kind not in seen:
                seen.add(kind)
                self.fail('C02', opname, cond, kind, '%s: %s' % (role, text))
        return not seen

    def inv_leg(self, leg, opname, cond, role='result', mods=None):
        seen = set()
        self.stat('checked-legs')
        try:
            bad = G.check_leg_invariants(leg, self.mods if mods is None else mods, role)
            if not bad:
                import c02_depth
                bad = c02_depth.deep_leg(leg, self.mods if mods is None else mods, role)
        except Exception as e:
            bad = [('invariant-check-raises', '%s: %s' % (type(e).__name__, str(e)[:100]))]
        for kind, text in bad:
            if kind == 'leg-test_sanity' and seen & {'sorted-flag-false-claim', 'bunched-flag-false-claim'}:
                continue        # the leg's own check repeats what the recomputation found
            if kind not in seen:
                seen.add(kind)
                self.fail('C02', opname, cond, kind, text)
        return not seen

    def result(self):
        r = {'seed': self.case.get('seed'), 'ops': self.ops, 'fails': self.fails, 'coq': [], 'stats': self.stats, 'nsteps': len(self.ops)}
        if getattr(self, 'api_list', None) is not None:
            r['api_list'] = self.api_list
        if self.coq3:
            r['coq3'] = self.coq3
        return r


class Abort(Exception):
    pass


def close(a, b, tol=1e-9):
    a, b = np.asarray(a), np.asarray(b)
    return a.shape == b.shape and (a.size == 0 or float(np.max(np.abs(a - b))) <= tol * (1.0 + float(np.max(np.abs(b)))))


def rand_vec(nrng, n, cplx):
    v = nrng.standard_normal(n)
    if cplx:
        v = v + 1j * nrng.standard_normal(n)
    return v


def signed_qflat(leg, mods):
    """charges*qconj per index of an RLeg, reduced"""
    return G.mv(mods, leg.qflat() * leg.qconj)


def setup(case):
    npc = G._npc()
    env = G.Env(case['mods'], case['names'], 4)
    env.chinfo = npc.ChargeInfo(case['mods'], case['names'])
    return npc, env


# -----------------------------------------------------------------------------------------
# leglookup
# -----------------------------------------------------------------------------------------

def run_leglookup(case, R):
    npc, env = setup(case)
    mods = case['mods']
    q = len(mods)
    chinfo = env.chinfo
    rng = random.Random(case['seed'])
    base = [G.mk_leg(env, sp) for sp in case['legs']]
    refs = [G.leg_from_spec(sp, q) for sp in case['legs']]
    todo = [(l, r, 'LegCharge') for l, r in zip(base, refs)]
    if case['pipe']:
        qc, so, bu = case['pipe_args']
        R.op('LegPipe')
        R.api('charges.LegPipe')
        try:
            pipe = npc.LegPipe(base, qconj=qc, sort=so, bunch=bu)
            todo.append((pipe, None, 'LegPipe'))
        except Exception as e:
            R.fail('C02', 'LegPipe', None, 'raises-' + type(e).__name__, str(e)[:150])
    for leg, ref, cls in todo:
        if ref is None:     # reference data of the pipe from its own (invariant-checked) storage
            if not R.inv_leg(leg, 'LegPipe', None):
                continue
            ref = G.RLeg(np.asarray(leg.slices), np.asarray(leg.charges), leg.qconj, q)
        cond = 'qconj=%+d' % ref.qconj
        ch, sl, qc = ref.charges, ref.slices, ref.qconj
        nb, n = ref.nb, ref.n
        rows = [tuple(int(x) for x in r) for r in ch]
        R.stat('legs:qconj=%+d' % qc)
        R.stat('legs:blocked' if ref.is_blocked() else 'legs:not-blocked')
        R.stat('nontrivial')
        # --- get_charge / get_slice / get_qindex_of_charges
        R.op(cls + '.get_charge/get_qindex_of_charges/get_slice', qconj=qc)
        for qi in range(nb):
            R.api('charges.LegCharge.get_charge')
            try:
                c = np.asarray(leg.get_charge(qi))
            except Exception as e:
                R.fail('C02', cls + '.get_charge', cond, 'raises-' + type(e).__name__, str(e)[:150])
                continue
            want = ch[qi] * qc
            if c.shape != (q,) or not np.array_equal(G.mv(mods, c), G.mv(mods, want)):
                R.fail('C02', cls + '.get_charge', cond, 'wrong-charge', 'get_charge(%d) = %s, documented charges[qindex]*qconj = %s' % (qi, c.tolist(), want.tolist()))
                continue
            R.api('charges.LegCharge.get_slice')
            s = leg.get_slice(qi)
            if not (isinstance(s, slice) and int(s.start) == int(sl[qi]) and int(s.stop) == int(sl[qi + 1]) and s.step in (None, 1)):
                R.fail('C02', cls + '.get_slice', cond, 'wrong-slice', 'get_slice(%d) = %r, slices %s' % (qi, s, sl.tolist()))
            unique = rows.count(rows[qi]) == 1
            for variant, arg in (('as-returned', c), ('reduced', G.mv(mods, c)), ('list', [int(x) for x in c])):
                R.api('charges.LegCharge.get_qindex_of_charges')
                try:
                    got = int(leg.get_qindex_of_charges(arg))
                except ValueError:
                    got = 'ValueError'
                except Exception as e:
                    got = 'raises ' + type(e).__name__
                wantqi = qi if unique else 'ValueError'
                if got != wantqi:
                    R.fail('C02', cls + '.get_qindex_of_charges', cond + (',blocked' if ref.is_blocked() else ',not-blocked'), 'not-inverse-of-get_charge',
                           'get_qindex_of_charges(get_charge(%d) = %s (%s)) gives %s, documented (inverse of get_charge; ValueError when not unique): %s; '
                           'leg charges %s qconj %+d' % (qi, np.asarray(arg).tolist(), variant, got, wantqi, ch.tolist(), qc))
                    break
        # a charge that does not occur on the leg: documented ValueError
        if q:
            present = {tuple(int(x) for x in G.mv(mods, np.array(r) * qc)) for r in rows}
            for _ in range(6):
                c = [rng.randint(-3, 3) if m == 1 else rng.randrange(m) for m in mods]
                if tuple(int(x) for x in G.mv(mods, np.array(c, dtype=QT))) not in present:
                    R.api('charges.LegCharge.get_qindex_of_charges')
                    try:
                        got = leg.get_qindex_of_charges(c)
                        R.fail('C02', cls + '.get_qindex_of_charges', cond, 'absent-charge-found', 'charge %s does not occur on the leg (charges*qconj %s) but block %s is returned' % (
                            c, sorted(present), got))
                    except ValueError:
                        pass
                    except Exception as e:
                        R.fail('C02', cls + '.get_qindex_of_charges', cond, 'raises-' + type(e).__name__, str(e)[:150])
                    break
        # --- record for the Coq model (Model/LegLookup.v): get_charge of every block, look-ups of present / absent / random charges
        try:
            bc = [[int(x) for x in np.asarray(leg.get_charge(qi)).reshape(q)] for qi in range(nb)]
            queries = []
            cands = [list(c_) for c_ in bc] + [[int(x) for x in G.mv(mods, np.array(c_, dtype=QT))] for c_ in bc[:2]]
            cands += [[rng.randint(-3, 3) if m == 1 else rng.randint(-1, m) for m in mods] for _ in range(3)]
            for c_ in cands:
                try:
                    got = int(leg.get_qindex_of_charges(np.array(c_, dtype=QT)))
                except ValueError:
                    got = None
                except Exception:
                    got = -2
                queries.append([c_, got])
            R.coq3.append({'mods': list(mods), 'leg': {'sizes': ref.sizes(), 'charges': [list(r_) for r_ in rows], 'qconj': qc}, 'blockcharges': bc, 'queries': queries})
        except Exception as e:
            R.fail('C02', cls + '.get_charge', cond, 'raises-' + type(e).__name__, str(e)[:150])
        # --- get_qindex
        R.op(cls + '.get_qindex')
        for i in list(range(-n, n)) + [n, -n - 1]:
            R.api('charges.LegCharge.get_qindex')
            try:
                got = leg.get_qindex(i)
                got = (int(got[0]), int(got[1]))
            except IndexError:
                got = 'IndexError'
            except Exception as e:
                got = 'raises ' + type(e).__name__
            if -n <= i < n:
                j = i % n
                b = ref.block_of(j)
                want = (b, j - int(sl[b]))
            else:
                want = 'IndexError'
            if got != want:
                R.fail('C02', cls + '.get_qindex', cond, 'wrong-block', 'get_qindex(%d) = %s, documented %s (slices %s)' % (i, got, want, sl.tolist()))
                break
        # --- get_block_sizes, charge_sectors, to_qflat
        R.op(cls + '.get_block_sizes/charge_sectors/to_qflat')
        R.api('charges.LegCharge.get_block_sizes')
        if not np.array_equal(np.asarray(leg.get_block_sizes()), np.diff(sl)):
            R.fail('C02', cls + '.get_block_sizes', cond, 'wrong-sizes', '%s for slices %s' % (np.asarray(leg.get_block_sizes()).tolist(), sl.tolist()))
        R.api('charges.LegCharge.charge_sectors')
        try:
            cs = np.asarray(leg.charge_sectors())
            cs = cs.reshape(len(cs), q)
            want = sorted(set(rows), key=lambda r: G.lex_key(r))
            if [tuple(int(x) for x in r) for r in cs] != want:
                R.fail('C02', cls + '.charge_sectors', cond, 'wrong-sectors', '%s, documented (rows of charges lexsorted, no duplicates) %s' % (cs.tolist(), want))
        except Exception as e:
            R.fail('C02', cls + '.charge_sectors', cond, 'raises-' + type(e).__name__, str(e)[:150])
        R.api('charges.LegCharge.to_qflat')
        qf = np.asarray(leg.to_qflat()).reshape(n, q)
        if not np.array_equal(qf, ref.qflat()):
            R.fail('C02', cls + '.to_qflat', cond, 'wrong-qflat', '%s vs %s' % (qf.tolist(), ref.qflat().tolist()))
        # --- constructors: from_qflat(to_qflat), from_qdict(to_qdict), from_trivial, copy; test_equal / test_contractible
        R.op('LegCharge.from_qflat/from_qdict/from_trivial/test_equal', qconj=qc)
        new = []
        try:
            if n == 0:
                raise Abort()       # NOT generated: legs without any block
            R.api('charges.LegCharge.from_qflat')
            l2 = npc.LegCharge.from_qflat(chinfo, qf, qc)
            new.append(('LegCharge.from_qflat', l2, ref.qflat(), True))
            if q == 1:
                new.append(('LegCharge.from_qflat', npc.LegCharge.from_qflat(chinfo, [int(x) for x in qf[:, 0]], qc), ref.qflat(), True))
        except Abort:
            pass
        except Exception as e:
            R.fail('C02', 'LegCharge.from_qflat', cond, 'raises-' + type(e).__name__, str(e)[:150])
        R.api('charges.LegCharge.to_qdict')
        d = None
        try:
            d = leg.to_qdict()
        except ValueError as e:
            if ref.is_blocked():
                R.fail('C02', cls + '.to_qdict', cond, 'raises-ValueError', 'blocked leg: %s' % str(e)[:150])
        except Exception as e:
            R.fail('C02', cls + '.to_qdict', cond, 'raises-' + type(e).__name__, str(e)[:150])
        if d is not None:
            if not ref.is_blocked():
                R.fail('C02', cls + '.to_qdict', cond, 'not-blocked-accepted', 'to_qdict of a leg that is not blocked returns %r (documented ValueError)' % (d,))
            else:
                wantd = {rows[b]: (int(sl[b]), int(sl[b + 1])) for b in range(nb)}
                gotd = {tuple(int(x) for x in k): (int(v.start), int(v.stop)) for k, v in d.items()}
                if gotd != wantd:
                    R.fail('C02', cls + '.to_qdict', cond, 'wrong-qdict', '%s vs %s' % (gotd, wantd))
                elif q and all(s_ > 0 for s_ in ref.sizes()):
                    # NOT generated: from_qdict without charges (qnumber 0: raises in its reshape) and with empty blocks (order of equal slice starts)
                    R.api('charges.LegCharge.from_qdict')
                    try:
                        l3 = npc.LegCharge.from_qdict(chinfo, d, qc)
                        new.append(('LegCharge.from_qdict', l3, ref.qflat(), True))
                    except Exception as e:
                        R.fail('C02', 'LegCharge.from_qdict', cond, 'raises-' + type(e).__name__, str(e)[:150])
        try:
            R.api('charges.LegCharge.from_trivial')
            new.append(('LegCharge.from_trivial', npc.LegCharge.from_trivial(max(n, 1), chinfo, qc), np.zeros((max(n, 1), q), dtype=QT), False))
            R.api('charges.LegCharge.copy')
            new.append((cls + '.copy', leg.copy(), ref.qflat(), True))
        except Exception as e:
            R.fail('C02', 'LegCharge.from_trivial/copy', cond, 'raises-' + type(e).__name__, str(e)[:150])
        for name, l2, wantqf, same in new:
            srt = 'charges-sorted' if G.rows_sorted(np.asarray(l2.charges)) else 'charges-unsorted'
            R.inv_leg(l2, name, srt)
            got = np.asarray(l2.to_qflat()).reshape(l2.ind_len, q)
            if l2.qconj != qc or not np.array_equal(got, wantqf):
                R.fail('C02', name, cond, 'leg-differs', '(qconj, charges per index) = (%d, %s), documented (%d, %s)' % (l2.qconj, got.tolist(), qc, wantqf.tolist()))
            elif same:
                for tname, other, should in (('test_equal', l2, True), ('test_contractible', l2.conj(), True), ('test_contractible', l2, None)):
                    R.api('charges.LegCharge.' + tname)
                    # legs are equal iff slices equal and charges*qconj equal: leg vs itself-conjugated is contractible; leg vs an equal leg is
                    # contractible only when all charges are self-conjugate
                    if should is None:
                        should = bool(np.array_equal(G.mv(mods, ch * qc), G.mv(mods, -ch * qc))) and np.array_equal(np.asarray(l2.slices), sl)
                    elif not np.array_equal(np.asarray(l2.slices), sl):
                        continue
                    try:
                        getattr(leg, tname)(other)
                        ok = True
                    except ValueError:
                        ok = False
                    except Exception as e:
                        ok = 'raises ' + type(e).__name__
                    if ok != should:
                        R.fail('C02', cls + '.' + tname, cond, 'wrong-verdict', '%s(%s) of equal legs: %s, documented %s' % (tname, 'copy' if other is l2 else 'copy.conj()', ok, should))
        # --- permutations of blocks <-> flat permutations
        if nb >= 1 and n >= 1 and all(s_ > 0 for s_ in ref.sizes()):
            R.op(cls + '.perm_flat_from_perm_qind/perm_qind_from_perm_flat')
            perm = list(range(nb))
            rng.shuffle(perm)
            try:
                R.api('charges.LegCharge.perm_flat_from_perm_qind')
                pf = np.asarray(leg.perm_flat_from_perm_qind(np.array(perm, dtype=np.intp)))
                wantpf = np.concatenate([np.arange(sl[b], sl[b + 1]) for b in perm])
                if not np.array_equal(pf, wantpf):
                    R.fail('C02', cls + '.perm_flat_from_perm_qind', cond, 'wrong-perm', '%s for block permutation %s of slices %s' % (pf.tolist(), perm, sl.tolist()))
                    pf = None
            except Exception as e:
                R.fail('C02', cls + '.perm_flat_from_perm_qind', cond, 'raises-' + type(e).__name__, str(e)[:150])
                pf = None
            if pf is not None:
                # returns a permutation, no tensor / leg: outside C02 (attributed to C01, reported as a note only)
                R.api('charges.LegCharge.perm_qind_from_perm_flat')
                try:
                    back = [int(x) for x in leg.perm_qind_from_perm_flat(pf)]
                except Exception as e:
                    back = 'raises ' + type(e).__name__
                if back != perm:
                    R.fail('C01', 'LegCharge.perm_qind_from_perm_flat', 'block-sizes-differ' if len(set(ref.sizes())) > 1 else 'block-sizes-equal', 'not-inverse',
                           'perm_qind_from_perm_flat(perm_flat_from_perm_qind(%s)) = %s, slices %s' % (perm, back, sl.tolist()))
    # --- from_add_charge: charges of two legs side by side
    if len(base) >= 2 and refs[0].n == refs[1].n and refs[0].n >= 1:
        R.op('LegCharge.from_add_charge')
        R.api('charges.LegCharge.from_add_charge')
        a, b = base[0], base[1]
        if refs[1].qconj != refs[0].qconj:
            b = b.flip_charges_qconj()
        try:
            l4 = npc.LegCharge.from_add_charge([a, b])
            mm = list(mods) + list(mods)
            R.inv_leg(l4, 'LegCharge.from_add_charge', None, mods=mm)
            want = np.concatenate([refs[0].qflat(), G.mv(mods, refs[1].qflat() * refs[1].qconj * refs[0].qconj)], axis=1)
            got = np.asarray(l4.to_qflat()).reshape(l4.ind_len, 2 * q)
            if l4.qconj != refs[0].qconj or not np.array_equal(G.mv(mm, got), G.mv(mm, want)):
                R.fail('C02', 'LegCharge.from_add_charge', None, 'leg-differs', '%s vs documented %s' % (got.tolist(), want.tolist()))
        except Exception as e:
            R.fail('C02', 'LegCharge.from_add_charge', None, 'raises-' + type(e).__name__, str(e)[:150])


# -----------------------------------------------------------------------------------------
# flatop
# -----------------------------------------------------------------------------------------

def sector_class(mods, sec):
    if sec is None:
        return 'sector=None'
    s = np.array(sec, dtype=QT)
    if not np.any(G.mv(mods, s)):
        return 'sector=0'
    if np.array_equal(G.mv(mods, s), G.mv(mods, -s)):
        return 'sector=-sector'
    return 'sector!=-sector'


def run_flatop(case, R):
    npc, env = setup(case)
    from tenpy.linalg import sparse
    mods = case['mods']
    q = len(mods)
    rng = random.Random(case['seed'])
    nrng = np.random.RandomState(case['seed'] % (2 ** 31))
    ref = G.leg_from_spec(case['leg'], q)
    leg = G.mk_leg(env, case['leg'])
    n, qc = ref.n, ref.qconj
    cplx = case['cplx']
    sq = signed_qflat(ref, mods)
    blocked = ref.is_blocked()
    sorted_bunched = G.rows_sorted(ref.charges) and G.rows_bunched(ref.charges)
    # charge conserving (qtotal = 0) matrix on [leg, leg.conj()]
    same = np.all(sq[:, None, :] == sq[None, :, :], axis=2) if q else np.ones((n, n), dtype=bool)
    Hd = nrng.standard_normal((n, n))
    if cplx:
        Hd = Hd + 1j * nrng.standard_normal((n, n))
    if case['herm']:
        Hd = Hd + Hd.conj().T
    Hd = np.where(same, Hd, 0.)
    labels = ['v', 'v*'] if case['labels'] else None
    R.op('Array.from_ndarray')
    H = npc.Array.from_ndarray(Hd, [leg, leg.conj()], labels=labels)
    if not R.inv(H, 'Array.from_ndarray', None):
        return
    cls = sparse.FlatHermitianOperator if case['cls'] == 'Herm' and case['herm'] else sparse.FlatLinearOperator
    clsname = cls.__name__
    handed = []

    def user_matvec(v):
        handed.append(('in', v))
        w = H.matvec(v)
        handed.append(('out', w))
        return w

    sectors = sorted({tuple(int(x) for x in r) for r in sq})
    secs = [list(s) for s in sectors] + [0, None]
    if q:       # a sector without states
        for _ in range(5):
            c = [rng.randint(-3, 3) if m == 1 else rng.randrange(m) for m in mods]
            if tuple(int(x) for x in G.mv(mods, np.array(c, dtype=QT))) not in sectors:
                secs.append(c)
                break
    op_shared = None
    for sec in secs:
        secv = None if sec is None else (G.mv(mods, np.zeros(q, dtype=QT)) if isinstance(sec, int) else G.mv(mods, np.array(sec, dtype=QT)))
        scls = sector_class(mods, secv)
        idx = np.arange(n) if secv is None else np.nonzero(np.all(sq == secv[None, :], axis=1))[0] if q else np.arange(n)
        dim = len(idx)
        for mode in (None, True, False):
            compact = (sec is not None and blocked) if mode is None else mode
            if compact and (sec is None or not blocked):
                continue            # documented ValueError
            if compact and dim == 0:
                continue            # no block of that charge: nothing to restrict to
            f163 = qc == -1 and not compact and scls == 'sector!=-sector'
            f164 = sec is None and labels is not None
            cond = 'qconj=%+d,%s,%s' % (qc, 'compact' if compact else 'noncompact', scls)
            R.op(clsname, sector=sec, compact_flat=mode, ctor=case['ctor'])
            R.stat('flatop:' + cond)
            handed[:] = []

            def call(opname, f, *a, **kw):
                R.api('sparse.FlatLinearOperator.' + opname.split('.')[-1])
                if clsname != 'FlatLinearOperator' and opname == 'eigenvectors':
                    R.api('sparse.%s.eigenvectors' % clsname)
                try:
                    with warnings.catch_warnings():
                        warnings.simplefilter('ignore')
                        return f(*a, **kw)
                except Exception as e:
                    if f163:
                        R.fail('C16', clsname + '.' + opname, cond, 'raises-' + type(e).__name__ + '(F16.3 situation)', str(e)[:150])
                    elif f164 and isinstance(e, KeyError):
                        R.fail('C16', clsname + '.' + opname, cond, 'raises-KeyError(F16.4 situation)', str(e)[:150])
                    else:
                        R.fail('C02', clsname + '.' + opname, cond, 'raises-' + type(e).__name__, '%s; leg charges %s slices %s qconj %+d sector %s\n%s' % (
                            str(e)[:150], ref.charges.tolist(), ref.slices.tolist(), qc, sec, traceback.format_exc()[-400:]))
                    raise Abort()

            try:
                how = case['ctor']
                if how == 'from_NpcArray':
                    op = call('from_NpcArray', cls.from_NpcArray, H, charge_sector=sec, compact_flat=mode)
                    op.npc_matvec = user_matvec
                elif how == 'init' or op_shared is None or op_shared.compact_flat != compact:
                    op = call('__init__', cls, user_matvec, leg, H.dtype, sec, labels[0] if labels else None, mode)
                    if how == 'setter':
                        op_shared = op
                else:
                    op = op_shared

                    def setsec(o, s):
                        o.charge_sector = s
                    call('charge_sector', setsec, op, sec)
                if bool(op.compact_flat) != bool(compact):
                    R.fail('C02', clsname + '.compact_flat', cond, 'wrong-mode', 'compact_flat=%r requested on a %sblocked leg: %r' % (mode, '' if blocked else 'non-', op.compact_flat))
                    continue
                cs = op.charge_sector
                if (cs is None) != (secv is None) or (cs is not None and not np.array_equal(np.asarray(cs), secv)):
                    R.fail('C02', clsname + '.charge_sector', cond, 'wrong-sector', 'charge_sector %r after requesting %r' % (cs, sec))
                    continue
                if f163 and (int(op.shape[0]) != dim):
                    R.fail('C16', clsname + '.shape', cond, 'sector-dimension(F16.3 situation)', 'shape %s, sector has %d states' % (op.shape, dim))
                    continue
                if tuple(int(x) for x in op.shape) != (dim, dim):
                    R.fail('C02', clsname + '.shape', cond, 'sector-dimension', 'operator of sector %s has shape %s but %d indices of the leg carry charges*qconj == sector '
                           '(charges %s slices %s qconj %+d)' % (sec, tuple(op.shape), dim, ref.charges.tolist(), ref.slices.tolist(), qc))
                    # what it hands out must be consistent all the same
                    v = call('flat_to_npc', op.flat_to_npc, rand_vec(nrng, int(op.shape[0]), cplx))
                    check_vec(R, npc, v, clsname + '.flat_to_npc', cond, secv, None, leg, ref)
                    continue
                if dim > 0:
                    R.stat('nontrivial')
                # ---- flat -> npc -> flat
                x = rand_vec(nrng, dim, cplx)
                if sec is None and not sorted_bunched:
                    R.stat('flatop:sector=None,leg-not-sorted-and-bunched')
                    if none_sector_unsorted(R, npc, op, x):
                        continue
                v = call('flat_to_npc', op.flat_to_npc, x)
                full = np.zeros(n, dtype=x.dtype)
                full[idx] = x
                self_ok = check_vec(R, npc, v, clsname + '.flat_to_npc', cond, secv, full, leg, ref)
                if self_ok:
                    back = call('npc_to_flat', op.npc_to_flat, v)
                    if not close(back, x, 1e-13):
                        R.fail('C02', clsname + '.npc_to_flat', cond, 'flat-npc-flat-roundtrip', 'npc_to_flat(flat_to_npc(x)) = %s for x = %s' % (np.asarray(back).tolist(), x.tolist()))
                # ---- npc -> flat -> npc
                wd = np.zeros(n, dtype=complex if cplx else float)
                wd[idx] = rand_vec(nrng, dim, cplx)
                if sec is not None:
                    w = npc.Array.from_ndarray(wd, [leg], qtotal=secv, labels=[op.vec_label])
                    if R.inv(w, 'Array.from_ndarray', None):
                        fl = call('npc_to_flat', op.npc_to_flat, w)
                        if not close(fl, wd[idx], 1e-13):
                            R.fail('C02', clsname + '.npc_to_flat', cond, 'wrong-entries', 'npc_to_flat(w) = %s, entries of w in the sector: %s' % (np.asarray(fl).tolist(), wd[idx].tolist()))
                        else:
                            w2 = call('flat_to_npc', op.flat_to_npc, fl)
                            check_vec(R, npc, w2, clsname + '.flat_to_npc(npc_to_flat)', cond, secv, wd, leg, ref)
                else:
                    # documented: flat_to_npc_None_sector picks the sector of maximal norm
                    if dim and q:
                        j = int(idx[rng.randrange(dim)])
                        one = np.where(np.all(sq == sq[j][None, :], axis=1), wd, 0.)
                        w = call('flat_to_npc_None_sector', op.flat_to_npc_None_sector, one)
                        check_vec(R, npc, w, clsname + '.flat_to_npc_None_sector', cond, sq[j], one, leg, ref)
                if f164:
                    continue        # matvec of from_NpcArray(labelled matrix, None) is the registered defect F16.4 of property C16: not generated
                # ---- matvec: tensors handed to / returned by the user's npc_matvec
                y = call('matvec', op.matvec, x)
                for role, t in handed:
                    if sec is not None:
                        check_vec(R, npc, t, clsname + '.matvec(handed-' + role + ')', cond, secv, None, leg, ref)
                    else:
                        R.inv(t, clsname + '.matvec(handed-' + role + ')', cond)
                want = Hd[np.ix_(idx, idx)] @ x
                if not close(y, want, 1e-10):
                    R.fail('C16', clsname + '.matvec', cond, 'wrong-values', 'matvec(x) differs from the dense sector block times x')
                # ---- eigenvectors
                if case['herm'] and dim >= 4 and rng.random() < 0.6:
                    R.stat('flatop:eigenvectors')
                    v0 = np.ones(dim) + 0.1 * np.arange(dim)
                    if case['cls'] == 'Herm':
                        E, Vs = call('eigenvectors', op.eigenvectors, num_ev=1, which='LM', v0=v0.astype(op.dtype))
                    else:
                        E, Vs = call('eigenvectors', op.eigenvectors, num_ev=1, which='LM', v0=v0.astype(op.dtype), hermitian=True)
                    for V in Vs:
                        if sec is not None:
                            check_vec(R, npc, V, clsname + '.eigenvectors', cond, secv, None, leg, ref)
                        else:
                            R.inv(V, clsname + '.eigenvectors', cond)
            except Abort:
                continue


def none_sector_unsorted(R, npc, op, x, clsname='FlatLinearOperator'):
    """charge_sector=None (all sectors at once; documented for every leg) on a leg that is not sorted and bunched: the tensor flat_to_npc builds
    must be consistent at every optimization level.  flat_to_npc ends with the tensor's own test_sanity(), which is skipped at the highest
    level ('skip_arg_checks') only: when the call raises, the tensor it built is fetched at that level and judged by the invariant oracle.
    Returns True when a failure was recorded (one match key for the situation)."""
    from tenpy.tools import optimization
    cond = 'charge_sector=None,leg-not-sorted-and-bunched'
    R.api('sparse.FlatLinearOperator.flat_to_npc')
    try:
        with warnings.catch_warnings():
            warnings.simplefilter('ignore')
            op.flat_to_npc(x)
        return False            # returned: the ordinary checks of the caller judge the result
    except Exception as e:
        raised = '%s: %s' % (type(e).__name__, str(e)[:100])
    try:
        with optimization.temporary_level(optimization.OptimizationFlag.skip_arg_checks):
            v = op.flat_to_npc(x)
        bad = G.check_array_invariants(v, R.mods)
    except Exception as e:
        R.fail('C02', clsname + '.flat_to_npc', cond, 'raises-' + type(e).__name__, 'also with the argument checks switched off: %s' % str(e)[:150])
        return True
    if bad:
        R.fail('C02', clsname + '.flat_to_npc', cond, 'invalid-tensor', 'the tensor built by flat_to_npc is inconsistent (%s): returned as it is at optimization level '
               'skip_arg_checks, rejected by its own test_sanity() below that (%s); leg charges %s' % (
                   '; '.join('%s: %s' % b for b in bad[:3])[:400], raised, np.asarray(op.leg.charges).tolist()))
    else:
        R.fail('C02', clsname + '.flat_to_npc', cond, 'raises', 'raises %s although the tensor it builds is consistent' % raised)
    return True


def check_vec(R, npc, v, opname, cond, secv, dense, leg, ref):
    """a vector returned by FlatLinearOperator: invariants, rank / leg, qtotal == sector, entries only on indices of that sector"""
    if not isinstance(v, npc.Array):
        R.fail('C02', opname, cond, 'not-an-Array', repr(type(v)))
        return False
    ok = R.inv(v, opname, cond)
    if not ok:
        return False
    mods = R.mods
    if secv is None:
        # all sectors: matrix with an additional 'charge' leg; entry (i, sector of i) = x[i]
        if v.rank != 2:
            R.fail('C02', opname, cond, 'rank', 'rank %d' % v.rank)
            return False
        d = v.to_ndarray()
        if dense is not None and not close(d.sum(axis=1), dense, 1e-13):
            R.fail('C02', opname, cond, 'wrong-entries', 'sum over the charge leg %s, expected %s' % (d.sum(axis=1).tolist(), np.asarray(dense).tolist()))
            return False
        return True
    if v.rank != 1 or v.legs[0].ind_len != ref.n:
        R.fail('C02', opname, cond, 'rank', 'rank %d shape %s' % (v.rank, v.shape))
        return False
    if not np.array_equal(np.asarray(v.qtotal), secv):
        R.fail('C02', opname, cond, 'qtotal-not-sector', 'qtotal %s, requested sector %s' % (np.asarray(v.qtotal).tolist(), secv.tolist()))
        return False
    d = v.to_ndarray()
    sq = signed_qflat(ref, mods)
    outside = np.nonzero(~np.all(sq == secv[None, :], axis=1))[0] if len(mods) else np.arange(0)
    if np.any(d[outside] != 0):
        R.fail('C02', opname, cond, 'entries-outside-sector', 'non-zero entries at indices %s whose charge*qconj is not the sector %s' % (
            [int(i) for i in outside if d[i] != 0], secv.tolist()))
        return False
    if dense is not None and not close(d, dense, 1e-13):
        R.fail('C02', opname, cond, 'wrong-entries', 'dense form %s, expected %s' % (d.tolist(), np.asarray(dense).tolist()))
        return False
    return True


# -----------------------------------------------------------------------------------------
# flatpipe
# -----------------------------------------------------------------------------------------

def run_flatpipe(case, R):
    npc, env = setup(case)
    from tenpy.linalg import sparse
    mods = case['mods']
    q = len(mods)
    rng = random.Random(case['seed'])
    nrng = np.random.RandomState(case['seed'] % (2 ** 31))
    refs = [G.leg_from_spec(sp, q) for sp in case['legs']]
    legs = [G.mk_leg(env, sp) for sp in case['legs']]
    r = len(legs)
    labs = ['a', 'b', 'c'][:r]
    cplx = case['cplx']
    # total charge of a random block combination, so that the guess is not empty
    sqs = [signed_qflat(l, mods) for l in refs]
    pick = [rng.randrange(l.n) for l in refs]
    qt = G.mv(mods, sum((sqs[k][pick[k]] for k in range(r)), np.zeros(q, dtype=QT)))
    tot = np.zeros([l.n for l in refs] + [q], dtype=QT)
    for k in range(r):
        shp = [1] * r + [q]
        shp[k] = refs[k].n
        tot = tot + sqs[k].reshape(shp)
    allowed = np.all(G.mv(mods, tot) == qt, axis=-1) if q else np.ones([l.n for l in refs], dtype=bool)
    vd = nrng.standard_normal([l.n for l in refs])
    if cplx:
        vd = vd + 1j * nrng.standard_normal(vd.shape)
    vd = np.where(allowed, vd, 0.)
    R.op('Array.from_ndarray')
    v0 = npc.Array.from_ndarray(vd, legs, qtotal=qt, labels=labs)
    if not R.inv(v0, 'Array.from_ndarray', None):
        return
    # the operator: a charge conserving matrix on leg 'a'
    same = np.all(sqs[0][:, None, :] == sqs[0][None, :, :], axis=2) if q else np.ones((refs[0].n,) * 2, dtype=bool)
    Ad = np.where(same, nrng.standard_normal(same.shape), 0.)
    Ad = Ad + Ad.T
    A = npc.Array.from_ndarray(Ad, [legs[0], legs[0].conj()], labels=['a', 'a*'])
    handed = []

    def user_matvec(v):
        handed.append(('in', v))
        w = npc.tensordot(A, v, axes=['a*', 'a'])
        handed.append(('out', w))
        return w

    split = None
    order = list(range(r))
    if case['split'] == 'perm':
        rng.shuffle(order)
        split = [labs[i] for i in order]
    compact = case['compact']
    cond = 'compact' if compact else 'noncompact'
    R.op('FlatLinearOperator.from_guess_with_pipe', labels_split=split, compact_flat=compact)
    R.api('sparse.FlatLinearOperator.from_guess_with_pipe')
    name = 'FlatLinearOperator.from_guess_with_pipe'
    try:
        with warnings.catch_warnings():
            warnings.simplefilter('ignore')
            op, guess = sparse.FlatLinearOperator.from_guess_with_pipe(user_matvec, v0, labels_split=split, compact_flat=compact)
            R.inv_leg(op.leg, name + '.leg', cond)
            if np.count_nonzero(vd):
                R.stat('nontrivial')
            R.api('sparse.FlatLinearOperator.flat_to_npc')
            v = op.flat_to_npc(guess)
            if not R.inv(v, name + '/flat_to_npc', cond):
                return
            if not np.array_equal(np.asarray(v.qtotal), qt):
                R.fail('C02', name + '/flat_to_npc', cond, 'qtotal-not-sector', 'qtotal %s, guess has %s' % (np.asarray(v.qtotal).tolist(), qt.tolist()))
            vs = v.split_legs(0)
            if R.inv(vs, name + '/flat_to_npc/split_legs', cond):
                got = vs.to_ndarray()
                want = vd.transpose(order)
                if not close(got, want, 1e-13):
                    R.fail('C02', name + '/flat_to_npc', cond, 'wrong-entries', 'flat_to_npc(guess_flat).split_legs() differs from the guess')
            R.api('sparse.FlatLinearOperator.npc_to_flat')
            back = op.npc_to_flat(v)
            if not close(back, guess, 1e-13):
                R.fail('C02', name + '/npc_to_flat', cond, 'flat-npc-flat-roundtrip', 'npc_to_flat(flat_to_npc(guess_flat)) != guess_flat')
            handed[:] = []
            R.api('sparse.FlatLinearOperator.matvec')
            y = op.matvec(guess)
            for role, t in handed:
                R.inv(t, name + '/matvec(handed-' + role + ')', cond)
                if not np.array_equal(np.asarray(t.qtotal), qt):
                    R.fail('C02', name + '/matvec(handed-' + role + ')', cond, 'qtotal-not-sector', 'qtotal %s, guess has %s' % (np.asarray(t.qtotal).tolist(), qt.tolist()))
            yv = op.flat_to_npc(y)
            if R.inv(yv, name + '/flat_to_npc(matvec)', cond):
                want = np.tensordot(Ad, vd, axes=[[1], [0]]).transpose(order)
                if not close(yv.split_legs(0).to_ndarray(), want, 1e-10):
                    R.fail('C16', name + '/matvec', cond, 'wrong-values', 'matvec(guess) differs from the dense contraction')
    except Exception as e:
        R.fail('C02', name, cond, 'raises-' + type(e).__name__, '%s\n%s' % (str(e)[:150], traceback.format_exc()[-2500:]))


# =========================================================================================
# entry points
# =========================================================================================

def allowed_mask(refs, mods, qt):
    """boolean array: entries of a tensor over the reference legs `refs` that may be non-zero for total charge qt (charge rule)"""
    q = len(mods)
    shape = [l.n for l in refs]
    if not q:
        return np.ones(shape, dtype=bool)
    tot = np.zeros(shape + [q], dtype=QT)
    for k, l in enumerate(refs):
        shp = [1] * len(refs) + [q]
        shp[k] = l.n
        tot = tot + signed_qflat(l, mods).reshape(shp)
    return np.all(G.mv(mods, tot) == np.asarray(qt, dtype=QT), axis=-1)


def pick_qtotal(rng, refs, mods):
    """total charge of a random entry (so that at least one block is allowed)"""
    q = len(mods)
    tot = np.zeros(q, dtype=QT)
    for l in refs:
        tot = tot + signed_qflat(l, mods)[rng.randrange(l.n)]
    return G.mv(mods, tot)


def same_leg(leg, ref, mods):
    """impl leg denotes the reference leg: same length and charges*qconj per index"""
    q = len(mods)
    return leg.ind_len == ref.n and np.array_equal(G.mv(mods, np.asarray(leg.to_qflat()).reshape(leg.ind_len, q) * leg.qconj), signed_qflat(ref, mods))


def run_linalg(case, R):
    npc, env = setup(case)
    from tenpy.linalg import sparse, random_matrix, krylov_based
    mods = case['mods']
    q = len(mods)
    chinfo = env.chinfo
    rng = random.Random(case['seed'])
    nrng = np.random.RandomState(case['seed'] % (2 ** 31))
    np.random.seed(case['seed'] % (2 ** 31))        # tenpy.linalg.random_matrix draws from the global numpy state
    cplx = case['cplx']
    single = bool(case.get('single', False))
    dt = np.dtype({(False, False): np.float64, (True, False): np.complex128, (False, True): np.float32, (True, True): np.complex64}[(cplx, single)])
    tolx = 2e-4 if single else 1e-10
    prec = ',single-precision' if single else ''
    if single:
        R.stat('linalg:single-precision')
    rL, rL2 = G.leg_from_spec(case['leg'], q), G.leg_from_spec(case['leg2'], q)
    L, L2 = G.mk_leg(env, case['leg']), G.mk_leg(env, case['leg2'])
    zero = G.mv(mods, np.zeros(q, dtype=QT))

    def rnd(shape):
        a = nrng.standard_normal(shape)
        return (a + 1j * nrng.standard_normal(shape) if cplx else a).astype(dt)

    def guarded(opname, cond, f, *a, **kw):
        R.api(opname)
        try:
            with warnings.catch_warnings():
                warnings.simplefilter('ignore')
                return f(*a, **kw)
        except Exception as e:
            R.fail('C02', opname, cond, 'raises-' + type(e).__name__, '%s\n%s' % (str(e)[:150], traceback.format_exc()[-700:]))
            raise Abort()

    def qt_is(x, want, opname, cond, how):
        want = G.mv(mods, np.asarray(want, dtype=QT))
        if not np.array_equal(np.asarray(x.qtotal), want):
            R.fail('C02', opname, cond, 'qtotal', 'qtotal %s, documented (%s) %s' % (np.asarray(x.qtotal).tolist(), how, want.tolist()))
            return False
        return True

    def dense_is(x, want, opname, cond, prop='C01', tol=None):
        tol = tolx if tol is None else tol
        got = x.to_ndarray()
        if not close(got, want, tol):
            R.fail(prop, opname, cond, 'wrong-values', 'dense form differs from the documented result (max deviation %.3g)' % (
                float(np.max(np.abs(got - want))) if got.shape == np.asarray(want).shape and got.size else -1))

    blocked = 'blocked' if rL.is_blocked() else 'not-blocked'
    R.stat('nontrivial')
    # ---------------- 1. constructors
    refs2 = [rL, rL2]
    qt = pick_qtotal(rng, refs2, mods)
    al = allowed_mask(refs2, mods, qt)
    try:
        R.op('Array.from_func')
        x = guarded('np_conserved.Array.from_func', None, npc.Array.from_func, np.ones, [L, L2], dtype=rng.choice([None, float, complex]), qtotal=qt, labels=['a', 'b'])
        if R.inv(x, 'Array.from_func', None) and qt_is(x, qt, 'Array.from_func', None, 'requested'):
            dense_is(x, al.astype(float), 'Array.from_func', None, 'C02')
        x = guarded('np_conserved.Array.from_func', 'shape_kw', npc.Array.from_func, nrng.normal, [L2, L.conj()], qtotal=None, func_args=(0., 1.), shape_kw='size')
        if R.inv(x, 'Array.from_func', 'shape_kw'):
            qt_is(x, zero, 'Array.from_func', 'shape_kw', 'default 0')
    except Abort:
        pass
    try:
        R.op('Array.from_func_square')
        fname = rng.choice(['GOE', 'GUE', 'CRE', 'COE', 'CUE', 'O_close_1', 'U_close_1', 'box', 'standard_normal_complex'])
        R.api('random_matrix.' + fname)
        kw = {'func_args': (0.1,)} if fname in ('O_close_1', 'U_close_1') else {}
        x = guarded('np_conserved.Array.from_func_square', blocked, npc.Array.from_func_square, getattr(random_matrix, fname), L, labels=['v', 'v*'], **kw)
        if R.inv(x, 'Array.from_func_square', blocked) and qt_is(x, zero, 'Array.from_func_square', blocked, '0'):
            if x.rank != 2 or not same_leg(x.legs[0], rL, mods) or not same_leg(x.legs[1], rL.conj(), mods) or x.legs[0].qconj != rL.qconj:
                R.fail('C02', 'Array.from_func_square', blocked, 'legs', 'legs are not [leg, leg.conj()]')
            else:
                d = x.to_ndarray()
                if np.any(d[~allowed_mask([rL, rL.conj()], mods, zero)] != 0):
                    R.fail('C02', 'Array.from_func_square', blocked, 'entries-outside-sector', 'non-zero entries that violate the charge rule')
    except Abort:
        pass
    try:
        R.op('Array.from_ndarray_trivial')
        d = rnd((rL.n, rL2.n))
        x = guarded('np_conserved.Array.from_ndarray_trivial', None, npc.Array.from_ndarray_trivial, d, labels=['a', 'b'])
        if R.inv(x, 'Array.from_ndarray_trivial', None, mods=[]):
            dense_is(x, d, 'Array.from_ndarray_trivial', None, 'C02', 0.)
    except Abort:
        pass
    Td = np.where(al, rnd(al.shape), 0.).astype(dt)
    T = None
    try:
        R.op('Array.from_ndarray/detect_qtotal/detect_legcharge')
        T = guarded('np_conserved.Array.from_ndarray', 'qtotal=None', npc.Array.from_ndarray, Td, [L, L2], qtotal=None, labels=['a', 'b'])
        if not R.inv(T, 'Array.from_ndarray', 'qtotal=None'):
            T = None
        elif T.dtype != dt:
            R.fail('C02', 'Array.from_ndarray', 'qtotal=None', 'dtype', 'dtype %s of the tensor built from a %s ndarray' % (T.dtype, dt))
            T = None
        elif np.count_nonzero(Td):
            qt_is(T, qt, 'Array.from_ndarray', 'qtotal=None', 'detected from the entries')
            got = guarded('np_conserved.detect_qtotal', None, npc.detect_qtotal, Td, [L, L2])
            if not np.array_equal(np.asarray(got), qt):
                R.fail('C02', 'detect_qtotal', None, 'qtotal', 'detected %s, the entries have %s' % (np.asarray(got).tolist(), qt.tolist()))
            # a missing leg is detected such that the array can be built with it (rows / columns without entries get an arbitrary charge)
            ax = rng.randrange(2)
            qcn = rng.choice([1, -1])
            lg = [L, L2]
            lg[ax] = None
            legs = guarded('np_conserved.detect_legcharge', 'qconj=%+d' % qcn, npc.detect_legcharge, Td, chinfo, lg, qt, qcn)
            if R.inv_leg(legs[ax], 'detect_legcharge', 'qconj=%+d' % qcn):
                if legs[ax].qconj != qcn or legs[ax].ind_len != Td.shape[ax]:
                    R.fail('C02', 'detect_legcharge', 'qconj=%+d' % qcn, 'leg-differs', 'qconj %d, ind_len %d' % (legs[ax].qconj, legs[ax].ind_len))
                else:
                    x = guarded('np_conserved.Array.from_ndarray', 'detected-leg', npc.Array.from_ndarray, Td, legs, qtotal=qt)
                    if R.inv(x, 'Array.from_ndarray', 'detected-leg'):
                        dense_is(x, Td, 'detect_legcharge', 'qconj=%+d' % qcn, 'C02', 0.)
    except Abort:
        pass
    # ---------------- 2. methods of Array not reached by the program generator
    sqL = signed_qflat(rL, mods)
    Sd = np.where(allowed_mask([rL, rL.conj()], mods, zero), rnd((rL.n, rL.n)), 0.).astype(dt)
    Sd = Sd + Sd.conj().T
    S = npc.Array.from_ndarray(Sd, [L, L.conj()], labels=['v', 'v*'])
    sec = sqL[rng.randrange(rL.n)]
    secmask = np.all(sqL == sec[None, :], axis=1) if q else np.ones(rL.n, dtype=bool)

    def vec():
        d = np.where(secmask, rnd(rL.n), 0.).astype(dt)
        return d, npc.Array.from_ndarray(d, [L], qtotal=sec, labels=['v'])

    try:
        R.op('Array.matvec')
        vd, v = vec()
        if R.inv(S, 'Array.from_ndarray', None) and R.inv(v, 'Array.from_ndarray', None):
            w = guarded('np_conserved.Array.matvec', None, S.matvec, v)
            if R.inv(w, 'Array.matvec', None) and qt_is(w, sec, 'Array.matvec', None, 'sum of the operands'):
                dense_is(w, Sd @ vd, 'Array.matvec', None)
    except Abort:
        pass
    if T is not None:
        try:
            R.op('Array.unary_blockwise')
            fn = rng.choice(['real', 'imag', 'abs', 'multiply', 'conj'])
            inplace = rng.random() < 0.5
            A = T.copy(deep=True)
            f = {'real': np.real, 'imag': np.imag, 'abs': np.abs, 'multiply': np.multiply, 'conj': np.conj}[fn]
            args = (2.,) if fn == 'multiply' else ()
            name = 'Array.iunary_blockwise' if inplace else 'Array.unary_blockwise'
            x = guarded('np_conserved.' + name, fn, getattr(A, name.split('.')[1]), f, *args)
            if R.inv(x, name, fn) and qt_is(x, qt, name, fn, 'unchanged'):
                dense_is(x, f(Td, *args), name, fn)
            if not inplace:
                R.inv(A, name, fn, role='operand')
        except Abort:
            pass
        try:
            R.op('Array.get_block')
            A = T.copy(deep=True)
            rows = {tuple(int(v_) for v_ in r) for r in A._qdata}
            combos = [(i, j) for i in range(rL.nb) for j in range(rL2.nb)]
            rng.shuffle(combos)
            for (i, j) in combos[:4]:
                okq = bool(np.array_equal(G.mv(mods, rL.charges[i] * rL.qconj + rL2.charges[j] * rL2.qconj), qt))
                ins = rng.random() < 0.6
                cond = ('allowed' if okq else 'forbidden') + (',insert' if ins else '') + (',stored' if (i, j) in rows else ',missing')
                R.api('np_conserved.Array.get_block')
                try:
                    b = A.get_block(np.array([i, j], dtype=np.intp), insert=ins)
                    res = 'None' if b is None else tuple(b.shape)
                except IndexError:
                    res = 'IndexError'
                except Exception as e:
                    res = 'raises ' + type(e).__name__
                want = 'IndexError' if not okq else (rL.sizes()[i], rL2.sizes()[j]) if ((i, j) in rows or ins) else 'None'
                if res != want:
                    R.fail('C02', 'Array.get_block', cond, 'wrong-result', 'get_block(%s, insert=%s) gives %s, documented %s' % ([i, j], ins, res, want))
                if okq and ins:
                    rows.add((i, j))
                if not R.inv(A, 'Array.get_block', cond):
                    break
            dense_is(A, Td, 'Array.get_block', None)
        except Abort:
            pass
        try:
            R.op('Array.add_charge')
            how = 'qtotal'      # NOT generated: qtotal=None (detection raises: the detected charge is not joined with self.qtotal)
            x = guarded('np_conserved.Array.add_charge', how, T.add_charge, [L, L2], None, qt if how == 'qtotal' else None)
            mm = list(mods) + list(mods)
            if R.inv(x, 'Array.add_charge', how, mods=mm):
                if not np.array_equal(np.asarray(x.qtotal), np.concatenate([qt, qt])):
                    R.fail('C02', 'Array.add_charge', how, 'qtotal', 'qtotal %s, documented %s' % (np.asarray(x.qtotal).tolist(), np.concatenate([qt, qt]).tolist()))
                dense_is(x, Td, 'Array.add_charge', how)
        except Abort:
            pass
        try:
            R.op('Array.replace_label')
            kind = rng.choice(['replace_label', 'ireplace_label', 'replace_labels', 'ireplace_labels'])
            A = T.copy(deep=True)
            if kind.endswith('s'):
                x = guarded('np_conserved.Array.' + kind, None, getattr(A, kind), ['a', 'b'], ['b', 'c'])
                want = ['b', 'c']
            else:
                x = guarded('np_conserved.Array.' + kind, None, getattr(A, kind), 'a', 'x')
                want = ['x', 'b']
            if R.inv(x, 'Array.' + kind, None) and list(x.get_leg_labels()) != want:
                R.fail('C02', 'Array.' + kind, None, 'labels', 'labels %s, documented %s' % (x.get_leg_labels(), want))
            R.inv(A, 'Array.' + kind, None, role='operand')
        except Abort:
            pass
    # ---------------- 3. factorizations: every returned tensor is consistent, total charges as documented (exactness: property C05)
    if T is not None:
        try:
            R.op('svd')
            iq = rng.choice([1, -1])
            full = rng.random() < 0.3       # (directed corpus cases fix it with 'svd_full'); exactness / unitarity of the full form: property C05 (F05.1); here: the factors are consistent tensors
            full = bool(case.get('svd_full', full))
            lr = rng.choice(['none', 'L', 'R'])
            qL = pick_qtotal(rng, [rL], mods)
            qlr = {'none': [None, None], 'L': [qL, None], 'R': [None, qL]}[lr]
            cond = 'inner_qconj=%+d,%s,qtotal_LR=%s' % (iq, 'full' if full else 'reduced', lr)
            if full:
                # total charges the two factors are documented to get; both square factors of the full form consist of diagonal blocks
                wantR = qt if lr == 'none' else G.mv(mods, qt - qL) if lr == 'L' else qL
                wantL = G.mv(mods, qt - wantR)
                nonzero = bool(np.any(wantL != 0) or np.any(wantR != 0))
                cond = 'full_matrices=True,' + ('qtotal_L-or-qtotal_R!=0' if nonzero else 'qtotal_LR=0')
                R.stat('svd:' + cond)
                try:
                    R.api('np_conserved.svd')
                    U, s_, VH = npc.svd(T, full_matrices=True, qtotal_LR=qlr, inner_labels=['i', 'i*'], inner_qconj=iq)
                except ValueError as e:
                    if not nonzero:
                        R.fail('C02', 'np_conserved.svd', cond, 'raises-ValueError', str(e)[:150])
                    raise Abort()       # a refusal of total charges the full form cannot carry returns no tensor: nothing to check
                except Exception as e:
                    R.fail('C02', 'np_conserved.svd', cond, 'raises-' + type(e).__name__, '%s\n%s' % (str(e)[:150], traceback.format_exc()[-700:]))
                    raise Abort()
            else:
                U, s_, VH = guarded('np_conserved.svd', cond, npc.svd, T, full_matrices=full, qtotal_LR=qlr, inner_labels=['i', 'i*'], inner_qconj=iq)
            okU, okV = R.inv(U, 'svd', cond, role='U'), R.inv(VH, 'svd', cond, role='VH')
            if okU and okV:
                qt_is(VH, G.mv(mods, qt - np.asarray(U.qtotal)), 'svd', cond, 'U.qtotal + VH.qtotal = a.qtotal')
                if lr == 'L':
                    qt_is(U, qL, 'svd', cond, 'qtotal_LR[0]')
                elif lr == 'R':
                    qt_is(VH, qL, 'svd', cond, 'qtotal_LR[1]')
                else:
                    qt_is(VH, qt, 'svd', cond, 'default [None, a.qtotal]')
                if not full and VH.legs[0].qconj != iq:
                    R.fail('C02', 'svd', cond, 'inner-qconj', 'VH.legs[0].qconj = %d' % VH.legs[0].qconj)
                if not same_leg(U.legs[0], rL, mods) or not same_leg(VH.legs[1], rL2, mods):
                    R.fail('C02', 'svd', cond, 'legs', 'outer legs differ from the legs of a')
                if not full:
                    try:
                        U.legs[1].test_contractible(VH.legs[0])
                    except ValueError:
                        R.fail('C02', 'svd', cond, 'inner-legs-not-contractible', 'U.legs[1] and VH.legs[0]')
        except Abort:
            pass
        for fname in ('qr', 'lq'):
            try:
                R.op(fname)
                iq = rng.choice([1, -1])
                mode = rng.choice(['reduced', 'reduced', 'complete'])
                qQ = rng.choice([None, 'a.qtotal', 'random'])
                qQv = None if qQ is None else qt if qQ == 'a.qtotal' else pick_qtotal(rng, [rL2], mods)
                cond = 'inner_qconj=%+d,%s,qtotal_Q=%s' % (iq, mode, qQ)
                A_, B_ = guarded('np_conserved.' + fname, cond, getattr(npc, fname), T, mode=mode, inner_labels=['i', 'i*'], qtotal_Q=qQv, inner_qconj=iq)
                Q_, R_ = (A_, B_) if fname == 'qr' else (B_, A_)
                if R.inv(A_, fname, cond, role='first') and R.inv(B_, fname, cond, role='second'):
                    qt_is(Q_, zero if qQv is None else qQv, fname, cond, 'qtotal_Q')
                    qt_is(R_, G.mv(mods, qt - np.asarray(Q_.qtotal)), fname, cond, 'a.qtotal = q.qtotal + r.qtotal')
                    if fname == 'qr' and B_.legs[0].qconj != iq:
                        R.fail('C02', fname, cond, 'inner-qconj', 'R.legs[0].qconj = %d' % B_.legs[0].qconj)
                    if not same_leg(A_.legs[0], rL, mods) or not same_leg(B_.legs[1], rL2, mods):
                        R.fail('C02', fname, cond, 'legs', 'outer legs differ from the legs of a')
                    if mode == 'reduced':
                        try:
                            A_.legs[1].test_contractible(B_.legs[0])
                        except ValueError:
                            R.fail('C02', fname, cond, 'inner-legs-not-contractible', 'legs[1] of the first and legs[0] of the second factor')
            except Abort:
                pass
        try:
            R.op('pinv')
            P = guarded('np_conserved.pinv', None, npc.pinv, T)
            if R.inv(P, 'pinv', None):
                qt_is(P, -qt, 'pinv', None, '(U diag(1/S) VH).conj().transpose()')
                if not same_leg(P.legs[0], rL2.conj(), mods) or not same_leg(P.legs[1], rL.conj(), mods):
                    R.fail('C02', 'pinv', None, 'legs', 'legs are not the conjugated, transposed legs of a')
        except Abort:
            pass
    try:
        R.op('eigh/eig/expm/polar')
        if R.inv(S, 'Array.from_ndarray', None):
            # eigh and eig share one worker: one name for both in single precision (the eigenvector blocks keep the precision of the input
            # while the tensor is created with the documented double precision type)
            W, V = guarded('np_conserved.eigh', blocked + prec, npc.eigh, S)
            if R.inv(V, 'eigh|eig' if single else 'eigh', blocked + prec):
                qt_is(V, zero, 'eigh', blocked, '0')
                if not same_leg(V.legs[0], rL, mods):
                    R.fail('C02', 'eigh', blocked, 'legs', 'first leg of V differs from the first leg of a')
            Nd = np.where(allowed_mask([rL, rL.conj()], mods, zero), rnd((rL.n, rL.n)), 0.).astype(dt)
            N = npc.Array.from_ndarray(Nd, [L, L.conj()], labels=['v', 'v*'])
            W, V = guarded('np_conserved.eig', blocked + prec, npc.eig, N)
            if R.inv(V, 'eigh|eig' if single else 'eig', blocked + prec):
                qt_is(V, zero, 'eig', blocked, '0')
            E = guarded('np_conserved.expm', blocked, npc.expm, N)
            if R.inv(E, 'expm', blocked) and qt_is(E, zero, 'expm', blocked, '0'):
                if not same_leg(E.legs[0], rL, mods) or not same_leg(E.legs[1], rL.conj(), mods):
                    R.fail('C02', 'expm', blocked, 'legs', 'legs differ from the legs of a')
            left = rng.random() < 0.5
            U_, P_, s_ = guarded('np_conserved.polar', 'left=%s' % left, npc.polar, N, left=left)
            if R.inv(U_, 'polar', 'left=%s' % left, role='u') and R.inv(P_, 'polar', 'left=%s' % left, role='p'):
                qt_is(P_, G.mv(mods, -np.asarray(U_.qtotal)), 'polar', 'left=%s' % left, 'u.qtotal + p.qtotal = a.qtotal')
    except Abort:
        pass
    # NOT generated here: speigs, orthogonal_columns (property C05; registered defect F05.6)
    # ---------------- 4. krylov_based.gram_schmidt (in place), sparse.*NpcLinearOperator
    try:
        R.op('gram_schmidt')
        vs = [vec()[1] for _ in range(rng.choice([2, 3]))]
        if rng.random() < 0.3 and not single:
            vs.append(vs[0].copy())         # linearly dependent: documented to be dropped (threshold meant for double precision)
        out = guarded('krylov_based.gram_schmidt', None, krylov_based.gram_schmidt, vs, **({'rcond': 1e-5} if single else {}))
        for o in out:
            if R.inv(o, 'gram_schmidt', None):
                qt_is(o, sec, 'gram_schmidt', None, 'unchanged')
        if len(out) > int(secmask.sum()):
            R.fail('C01', 'gram_schmidt', None, 'too-many', '%d orthonormal vectors in a sector of dimension %d' % (len(out), int(secmask.sum())))
    except Abort:
        pass
    try:
        R.op('sparse.NpcLinearOperator-wrappers')

        class MatOp(sparse.NpcLinearOperator):
            def __init__(self, M):
                self.M = M
                self.dtype = M.dtype

            def matvec(self, v):
                return npc.tensordot(self.M, v, axes=['v*', 'v'])

            def to_matrix(self):
                return self.M

            def adjoint(self):
                return MatOp(self.M.conj().itranspose(['v', 'v*']))

        base = MatOp(S)
        vd, v = vec()
        od, o = vec()
        which = rng.choice(['Sum', 'Shift', 'Orthogonal', 'Boost'])
        if which == 'Sum':
            op = sparse.SumNpcLinearOperator(base, MatOp(S * 0.5))
            wantd = 1.5 * Sd
        elif which == 'Shift':
            op = sparse.ShiftNpcLinearOperator(base, 0.75)
            wantd = Sd + 0.75 * np.eye(rL.n)
        elif which == 'Boost':
            op = sparse.BoostNpcLinearOperator(base, [0.5], [o])
            wantd = Sd + 0.5 * np.outer(od, od.conj())
        else:
            op = sparse.OrthogonalNpcLinearOperator(base, [o])
            R.inv(o, 'OrthogonalNpcLinearOperator', None, role='ortho_vec')
            on = od / np.linalg.norm(od) if np.linalg.norm(od) > 0 else od
            Pm = np.eye(rL.n) - np.outer(on, on.conj())
            wantd = Pm @ Sd @ Pm
        name = which + 'NpcLinearOperator'
        for variant in ('', '.adjoint()'):
            o2 = op if not variant else guarded('sparse.' + name + '.adjoint', None, op.adjoint)
            w = guarded('sparse.' + name + '.matvec', None, o2.matvec, v)
            if R.inv(w, name + variant + '.matvec', None) and qt_is(w, sec, name + variant + '.matvec', None, 'qtotal of the vector'):
                dense_is(w, wantd @ vd, name + variant + '.matvec', None, 'C16')
            # NOT generated: BoostNpcLinearOperator.to_matrix (refers to an attribute `shift` the class does not have);
            # OrthogonalNpcLinearOperator.to_matrix (meant for multi-leg operators whose to_matrix() has piped legs)
            if which not in ('Boost', 'Orthogonal'):
                M = guarded('sparse.' + name + '.to_matrix', None, o2.to_matrix)
                if R.inv(M, name + variant + '.to_matrix', None) and qt_is(M, zero, name + variant + '.to_matrix', None, '0'):
                    dense_is(M, wantd, name + variant + '.to_matrix', None, 'C16')
        R.inv(v, name + '.matvec', None, role='operand')
    except Abort:
        pass


# =========================================================================================
# coverage table: public API of tenpy.linalg by reflection
# =========================================================================================

API_MODULES = ('np_conserved', 'charges', 'sparse', 'random_matrix', 'krylov_based')


def reflect_public_api():
    """names 'module.function' / 'module.Class' / 'module.Class.method' of everything public that is defined in the modules of tenpy.linalg"""
    import importlib
    import inspect
    out = []
    for short in API_MODULES:
        m = importlib.import_module('tenpy.linalg.' + short)
        names = getattr(m, '__all__', None) or [n for n in dir(m) if not n.startswith('_')]
        for n in names:
            o = getattr(m, n, None)
            if inspect.isclass(o):
                if o.__module__ != m.__name__:
                    continue
                out.append('%s.%s' % (short, n))
                for k, v in o.__dict__.items():
                    if not k.startswith('_') and (callable(v) or isinstance(v, (classmethod, staticmethod, property))):
                        out.append('%s.%s.%s' % (short, n, k))
            elif callable(o) and getattr(o, '__module__', None) == m.__name__:
                out.append('%s.%s' % (short, n))
    return sorted(set(out))


def run_reflect(case, R):
    R.op('reflect')
    R.api_list = reflect_public_api()


# public names that are neither called by the streams of this file nor mentioned in the program generator: why (prefix match, longest wins)
NOT_IN_C02 = {
    'np_conserved.svd': 'C05 (factorization; invariants of the reduced form also here)',
    'np_conserved.eigvalsh': 'returns an ndarray', 'np_conserved.eigvals': 'returns an ndarray', 'np_conserved.norm': 'returns a number',
    'np_conserved.to_iterable_arrays': 'returns its argument',
    'np_conserved.Array.save_hdf5': 'C17', 'np_conserved.Array.from_hdf5': 'C17', 'charges.LegCharge.save_hdf5': 'C17', 'charges.LegCharge.from_hdf5': 'C17',
    'charges.LegPipe.save_hdf5': 'C17', 'charges.LegPipe.from_hdf5': 'C17', 'charges.ChargeInfo.save_hdf5': 'C17', 'charges.ChargeInfo.from_hdf5': 'C17',
    'charges.ChargeInfo': 'no tensor / leg returned (used by every case)',
    'charges.LegCharge.from_hdf5': 'C17', 'charges.DipolarChargeInfo.save_hdf5': 'C17', 'charges.DipolarChargeInfo.from_hdf5': 'C17',
    'charges.DipolarChargeInfo.test_sanity': 'no tensor / leg returned (called by every dipolar case)',
    'np_conserved.Array.sparse_stats': 'returns a string', 'np_conserved.Array.size': 'number', 'np_conserved.Array.stored_blocks': 'number', 'np_conserved.Array.ndim': 'number',
    'np_conserved.Array.has_label': 'bool', 'np_conserved.Array.get_leg_index': 'number', 'np_conserved.Array.get_leg_indices': 'numbers',
    'np_conserved.Array.is_completely_blocked': 'bool',
    'sparse.NpcLinearOperator': 'abstract prototype', 'sparse.NpcLinearOperatorWrapper': 'abstract base of the wrappers',
    'sparse.BoostNpcLinearOperator.to_matrix': 'refers to an attribute the class does not have (raises)', 'sparse.OrthogonalNpcLinearOperator.to_matrix': 'multi-leg operators only',
    'krylov_based.KrylovBased': 'C16', 'krylov_based.Arnoldi': 'C16', 'krylov_based.ArnoldiEvolution': 'C16', 'krylov_based.LanczosGroundState': 'C16',
    'krylov_based.LanczosEvolution': 'C16', 'krylov_based.GMRES': 'C16', 'krylov_based.lanczos_arpack': 'C16', 'krylov_based.plot_stats': 'plotting',
    'krylov_based.iadd_prefactor_other': 'wrapper of Array.iadd_prefactor_other (called by gram_schmidt)', 'krylov_based.iscale_prefactor': 'wrapper of Array.iscale_prefactor (called by gram_schmidt)',
}


def coverage_table(api_list, api_calls, gen_source, prog_ops=None):
    """per public name: how C02 reaches it.  api_calls: {'module.Class.method': number of calls in the streams of this file};
    prog_ops: {'tensordot' | 'LegCharge.sort' | ...: number of executions in the tensor / leg programs of npc_gen.py (their `op:` statistics)};
    gen_source: text of harness/npc_gen.py (static scan for what the statistics do not name: `.name(`, `'name'`)"""
    import re
    prog_ops = prog_ops or {}
    table = {}
    for name in api_list:
        parts = name.split('.')
        last = parts[-1]
        n = api_calls.get(name, 0)
        if n:
            table[name] = 'c02x streams (%d calls)' % n
            continue
        is_class = len(parts) == 2 and last[0].isupper()
        if is_class:
            members = sum(v for k, v in api_calls.items() if k.startswith(name + '.'))
            if members:
                table[name] = 'c02x streams (class; %d calls of its members)' % members
                continue
        if parts[0] in ('np_conserved', 'charges'):
            k = prog_ops.get('.'.join(parts[1:]), 0) or (prog_ops.get(last, 0) if parts[0] == 'np_conserved' else 0)
            if k:
                table[name] = 'tensor / leg programs of npc_gen.py (%d executions)' % k
                continue
            if re.search(r"(\.|')%s\b" % re.escape(last), gen_source):
                table[name] = 'tensor / leg programs of npc_gen.py (static scan of the generator)'
                continue
        why = None
        for k in sorted(NOT_IN_C02, key=len, reverse=True):
            if name == k or name.startswith(k + '.'):
                why = NOT_IN_C02[k]
                break
        table[name] = ('not in C02: ' + why) if why else 'UNCOVERED'
    return table


def run_wrap(case, R):
    """the tensor / leg programs of npc_gen.py (kinds 'programs' / 'legs' of the shared runner) executed through kind 'c02x': line recording,
    input classes of the operands and the additional invariants of harness/c02_depth.py; returns the result of the inner program"""
    import c02_depth
    inner = dict(case['inner'])
    if 'ops' in case:           # replay of a recorded prefix (harness/c01_common.case_of puts it next to the header)
        inner['ops'] = case['ops']
    if case['inner_kind'] == 'legs':
        res = c02_depth.run_leg_program(inner, R.config)
    else:
        P = c02_depth.DepthRunner(inner, R.config)
        if R.progress is not None:
            P.progress = lambda k, o, sc: R.progress(k, o, sc, ops=P.ops)
        res = P.run()
    R.inner_result = res


def _ops2(name):
    def run(case, R):
        import c02_ops2
        return getattr(c02_ops2, name)(case, R)
    return run


RUNNERS = {'leglookup': run_leglookup, 'flatop': run_flatop, 'flatpipe': run_flatpipe, 'linalg': run_linalg, 'reflect': run_reflect, 'wrap': run_wrap,
           'apiopts': _ops2('run_apiopts'), 'dipolar': _ops2('run_dipolar'), 'legops': _ops2('run_legops')}


def run_case(case, config, progress=None):
    R = Rec(case, config)
    R.progress = progress
    R.inner_result = None
    cov = None
    if case.get('cov'):
        import c02_cov as cov
        cov.start()
        if config == 'py':
            cov.install_param_recorder()
    try:
        with warnings.catch_warnings():
            warnings.simplefilter('ignore')
            RUNNERS[case['kind2']](case, R)
    except Exception:
        R.fail('runner', case['kind2'], None, 'crash', traceback.format_exc()[-1500:])
    r = R.result()
    if R.inner_result is not None:
        r = R.inner_result
    if cov is not None:
        r['cov'] = cov.flush()
        r['cov_src'] = cov.runner_sources()
        r['params'] = cov.flush_params()
    return r
