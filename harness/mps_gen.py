"""Shared state generators, dense (numpy-only) reference constructions and the tenpy executor for the
checks C07 (an MPS denotes the state it was built from) and C09 (MPS transformations).

Three layers, used from two sides:
  * spec generation (pure python `random.Random`, harness side): JSON-able descriptions of sites, boundary
    conditions, constructor, random data seeds and operation histories;
  * `build_data(spec, SI)`: the numpy random data of a spec (same on both sides, from the spec's seed);
  * references (harness side, numpy only, written from the documentation): dense vectors built with kron /
    explicit sums, Fock-space permutations with signs, transfer-matrix contraction of explicit tensors for
    infinite states;  `explicit_theta` contracts the *stored* tensors of an MPS according to its recorded
    form labels (independent of get_B/get_theta);
  * the executor `run_cases` (runner side, imports tenpy lazily) builds the MPS with the tenpy constructors,
    performs the operations and dumps raw tensors / tenpy's own answers into an .npz side file.
All dense data live in the *stored* local basis of the sites (tenpy sorts charges: stored index j is the
state `perm[j]` of the conserve=None basis); the std-basis tables below are written from the site docs and are
cross-checked against the sites at the start of each run.
"""
import os
for _v in ('OMP_NUM_THREADS', 'OPENBLAS_NUM_THREADS', 'MKL_NUM_THREADS'):
    os.environ.setdefault(_v, '1')
import numpy as np  # noqa: E402

HALF = {'A': (2, 0), 'B': (0, 2), 'C': (1, 1), 'G': (0, 0), 'Th': (2, 2)}     # exponents in units of 1/2
FORM_OF = {v: k for k, v in HALF.items()}

# kind -> (tenpy class, kwargs, family)
KINDS = {
    'SH:none': ('SpinHalfSite', {'conserve': None}, 'none'),
    'SH:Sz': ('SpinHalfSite', {'conserve': 'Sz'}, '2Sz'),
    'SH:par': ('SpinHalfSite', {'conserve': 'parity'}, 'pSz'),
    'S1:none': ('SpinSite', {'S': 1., 'conserve': None}, 'none'),
    'S1:Sz': ('SpinSite', {'S': 1., 'conserve': 'Sz'}, '2Sz'),
    'S1:par': ('SpinSite', {'S': 1., 'conserve': 'parity'}, 'pSz'),
    'F:none': ('FermionSite', {'conserve': None}, 'none'),
    'F:N': ('FermionSite', {'conserve': 'N'}, 'N'),
    'F:par': ('FermionSite', {'conserve': 'parity'}, 'pN'),
    'B2:none': ('BosonSite', {'Nmax': 2, 'conserve': None}, 'none'),
    'B2:N': ('BosonSite', {'Nmax': 2, 'conserve': 'N'}, 'N'),
    'B2:par': ('BosonSite', {'Nmax': 2, 'conserve': 'parity'}, 'pN'),
    'B3:none': ('BosonSite', {'Nmax': 3, 'conserve': None}, 'none'),
    'B3:N': ('BosonSite', {'Nmax': 3, 'conserve': 'N'}, 'N'),
    'SHF:none': ('SpinHalfFermionSite', {'cons_N': None, 'cons_Sz': None}, 'none'),
    'SHF:N': ('SpinHalfFermionSite', {'cons_N': 'N', 'cons_Sz': None}, 'N'),
    'SHF:par': ('SpinHalfFermionSite', {'cons_N': 'parity', 'cons_Sz': None}, 'pN'),
    'SHF:Sz': ('SpinHalfFermionSite', {'cons_N': None, 'cons_Sz': 'Sz'}, '2Sz'),
    'SHF:NSz': ('SpinHalfFermionSite', {'cons_N': 'N', 'cons_Sz': 'Sz'}, 'N2Sz'),
}
FAMILY_MOD = {'none': [], '2Sz': [1], 'pSz': [2], 'N': [1], 'pN': [2], 'N2Sz': [1, 1]}
FAMILIES = {}
for _k, _v in KINDS.items():
    FAMILIES.setdefault(_v[2], []).append(_k)
# kinds used only by the crossing-covering generator `gen_covering_x` (kept out of FAMILIES so that the random
# streams of the other generators are unchanged)
KINDS.update({
    'S3:none': ('SpinSite', {'S': 1.5, 'conserve': None}, 'none'),
    'S3:Sz': ('SpinSite', {'S': 1.5, 'conserve': 'Sz'}, '2Sz'),
})
# non-fermionic pools with several charge values per site (bond legs of a crossed bond then carry many sectors)
COVER_X_POOLS = {
    '2Sz': ['S3:Sz', 'S3:Sz', 'S1:Sz', 'S1:Sz', 'SH:Sz'],
    'N': ['B3:N', 'B3:N', 'B2:N', 'B2:N'],
    'pSz': ['S1:par', 'SH:par'],
    'pN': ['B2:par'],
    'none': ['S1:none', 'B2:none', 'SH:none'],
}
# (up, down) state labels usable for from_singlets
UPDOWN = {'SH': ('up', 'down'), 'S1': ('up', 'down'), 'F': ('full', 'empty'), 'SHF': ('up', 'down')}


def std_table(kind):
    """(dim, charges per std basis state, fermion parity per std basis state) from the documentation of
    the site classes; std basis = basis for conserve=None."""
    base, fam = kind.split(':')[0], KINDS[kind][2]
    if base == 'SH':        # [up, down]
        two_sz, n, par = [1, -1], None, [0, 0]
        psz = [1, 0]
    elif base == 'S1':      # [-1, 0, +1]
        two_sz, n, par = [-2, 0, 2], None, [0, 0, 0]
        psz = [0, 1, 0]
    elif base == 'S3':      # [-3/2, -1/2, +1/2, +3/2]
        two_sz, n, par = [-3, -1, 1, 3], None, [0, 0, 0, 0]
        psz = [0, 1, 0, 1]
    elif base == 'F':       # [empty, full]
        two_sz, n, par = None, [0, 1], [0, 1]
    elif base in ('B2', 'B3'):
        d = int(base[1]) + 1
        two_sz, n, par = None, list(range(d)), [0] * d
    elif base == 'SHF':     # [empty, up, down, full]
        two_sz, n, par = [0, 1, -1, 0], [0, 1, 1, 2], [0, 1, 1, 0]
    d = len(par)
    if fam == 'none':
        q = [()] * d
    elif fam == '2Sz':
        q = [(x,) for x in two_sz]
    elif fam == 'pSz':
        q = [(x,) for x in psz]
    elif fam == 'N':
        q = [(x,) for x in n]
    elif fam == 'pN':
        q = [(x % 2,) for x in n]
    elif fam == 'N2Sz':
        q = [(a, b) for a, b in zip(n, two_sz)]
    return d, q, par


# ------------------------------------------------------------------------------------------------
# runner side: sites
# ------------------------------------------------------------------------------------------------
_site_cache = {}


def make_site(kind):
    if kind not in _site_cache:
        from tenpy.networks import site as S
        cls, kw, _ = KINDS[kind]
        _site_cache[kind] = getattr(S, cls)(**kw)
    return _site_cache[kind]


def site_info(kinds):
    """tenpy's view of the sites (runner side): perm, charges, JW exponents, dense operators (stored basis)."""
    out = {}
    for kind in kinds:
        s = make_site(kind)
        ops = {}
        for name in sorted(s.opnames):
            m = s.get_op(name).to_ndarray()
            ops[name] = [np.real(m).tolist(), np.imag(m).tolist()]
        out[kind] = {'dim': int(s.dim), 'perm': [int(x) for x in s.perm],
                     'q': [[int(y) for y in x] for x in s.leg.to_qflat()],
                     'mod': [int(x) for x in s.leg.chinfo.mod], 'jw': [int(round(x)) for x in s.JW_exponent],
                     'ops': ops, 'need_JW': sorted(s.need_JW_string),
                     'labels': {k: int(v) for k, v in s.state_labels.items()}}
    return out


def check_site_tables(SI):
    """cross-check the hard-coded std tables against what the sites report; returns list of problems."""
    bad = []
    for kind, si in SI.items():
        d, q, par = std_table(kind)
        mod = FAMILY_MOD[KINDS[kind][2]]
        if si['dim'] != d or si['mod'] != mod:
            bad.append('%s: dim/mod %s %s' % (kind, si['dim'], si['mod']))
            continue
        perm = si['perm']
        for j in range(d):
            want = [x % m if m > 1 else x for x, m in zip(q[perm[j]], mod)]
            have = [x % m if m > 1 else x for x, m in zip(si['q'][j], mod)]
            if want != have:
                bad.append('%s: charge of stored state %d: %s vs documented %s' % (kind, j, have, want))
            if par[perm[j]] != si['jw'][j]:
                bad.append('%s: JW exponent of stored state %d' % (kind, j))
    return bad


class Sites:
    """harness-side view of a list of site kinds (stored basis)."""

    def __init__(self, kinds, SI):
        self.kinds = list(kinds)
        self.SI = SI
        self.dims = [SI[k]['dim'] for k in kinds]
        self.mod = FAMILY_MOD[KINDS[kinds[0]][2]]
        self.q = []
        self.par = []
        self.perm = []
        for k in kinds:
            d, q, par = std_table(k)
            p = SI[k]['perm']
            self.perm.append(p)
            self.q.append([q[p[j]] for j in range(d)])
            self.par.append(np.array([par[p[j]] for j in range(d)]))

    def op(self, i, name):
        re, im = self.SI[self.kinds[i]]['ops'][name]
        return np.array(re) + 1j * np.array(im)

    def needs_JW(self, i, name):
        return name in self.SI[self.kinds[i]]['need_JW']

    def total_charge(self, sub=None):
        """integer array of shape dims+(nq,) with the total charge of every basis state"""
        idx = list(range(len(self.kinds))) if sub is None else sub
        dims = [self.dims[i] for i in idx]
        nq = len(self.mod)
        tot = np.zeros(dims + [nq], dtype=int)
        for ax, i in enumerate(idx):
            qi = np.array(self.q[i], dtype=int).reshape(self.dims[i], nq)
            shp = [1] * len(dims) + [nq]
            shp[ax] = self.dims[i]
            tot = tot + qi.reshape(shp)
        for c, m in enumerate(self.mod):
            if m > 1:
                tot[..., c] %= m
        return tot

    def valid(self, q):
        return [int(x) % m if m > 1 else int(x) for x, m in zip(q, self.mod)]


# ------------------------------------------------------------------------------------------------
# dense helpers (numpy only)
# ------------------------------------------------------------------------------------------------

def rnd(rng, shape, cplx):
    a = rng.normal(size=shape)
    if cplx:
        a = a + 1j * rng.normal(size=shape)
    return a


def apply_on(psi, mat, axes):
    """apply matrix `mat` (acting on the listed tensor axes, kron order) to tensor psi"""
    k = len(axes)
    psi = np.moveaxis(psi, axes, range(k))
    shp = psi.shape
    D = int(np.prod(shp[:k]))
    psi = (mat @ psi.reshape(D, -1)).reshape(shp)
    return np.moveaxis(psi, range(k), axes)


def jw_string(psi, par, upto, offset=0):
    """multiply (-1)^{sum_{j<upto} parity_j}; psi axes offset.. are the sites"""
    for j in range(upto):
        sgn = 1 - 2 * np.asarray(par[j])
        shp = [1] * psi.ndim
        shp[j + offset] = len(sgn)
        psi = psi * sgn.reshape(shp)
    return psi


def permute_state(psi, perm, par):
    """Site permutation on Fock space, new[perm[i]] = old[i], with the sign of reordering the creation
    operators: (-1)^{#(j<k, perm[j]>perm[k], both occupations odd)}  (written from the docstring of swap_sites)."""
    L = psi.ndim
    for j in range(L):
        for k in range(j + 1, L):
            if perm[j] > perm[k] and par[j].any() and par[k].any():
                sg = 1 - 2 * np.outer(par[j], par[k])
                shp = [1] * L
                shp[j] = len(par[j])
                shp[k] = len(par[k])
                psi = psi * sg.reshape(shp)
    inv = [0] * L
    for i, p in enumerate(perm):
        inv[p] = i
    return np.transpose(psi, inv)


def schmidt(vec_tensor, cut):
    """Schmidt values of a dense tensor (axes = sites) for the cut left of site `cut`"""
    dl = int(np.prod(vec_tensor.shape[:cut]))
    s = np.linalg.svd(vec_tensor.reshape(dl, -1), compute_uv=False)
    return s


def entropy(s):
    p = s[s > 1e-30] ** 2
    return float(-np.sum(p * np.log(p)))


def spow(s, e):
    """s**(e/2) with 0**negative := 0 (zero Schmidt values carry no weight)"""
    if e == 0:
        return np.ones_like(s)
    out = np.zeros_like(s)
    nz = s > 0
    out[nz] = s[nz] ** (e / 2.)
    return out


def explicit_theta(Bs, Ss, forms, i0, n, finite, eL=2, eR=2):
    """Contract the STORED tensors of sites i0..i0+n-1 according to the recorded form labels:
    s^{eL/2} Gamma s Gamma ... s^{eR/2}.  Bs[i]: (vL, p, vR) dense; Ss[b] left of site b; forms half-units."""
    L = len(Bs)

    def S_left(i):
        return Ss[i % L] if not finite else Ss[i]

    def S_right(i):
        return Ss[(i + 1) % L] if not finite else Ss[i + 1]
    th = None
    for k in range(n):
        i = i0 + k
        B = Bs[i % L]
        f = forms[i % L]
        if f is None:
            raise ValueError('non-canonical label')
        wantL = eL if k == 0 else 2 - forms[(i - 1) % L][1]
        B = B * spow(S_left(i), wantL - f[0])[:, None, None]
        if k == n - 1:
            B = B * spow(S_right(i), eR - f[1])[None, None, :]
        if th is None:
            th = B
        else:
            th = np.tensordot(th, B, axes=(-1, 0))
    return th


def rdm_from_theta(theta, keep):
    """theta: (vL, p_0.., vR); reduced density matrix on the sites `keep` (indices into p_*), trace 1."""
    axes = [1 + k for k in keep]
    th = np.moveaxis(theta, axes, range(len(axes)))
    D = int(np.prod(th.shape[:len(axes)]))
    M = th.reshape(D, -1)
    rho = M @ M.conj().T
    return rho / np.trace(rho)


def rdm_from_vec(psi, keep):
    return rdm_from_theta(psi.reshape((1,) + psi.shape + (1,)), keep)


class TM:
    """Transfer-matrix contraction of explicit unit-cell tensors Ms[i] (vL, p, vR) in any gauge."""

    def __init__(self, Ms):
        self.Ms = [np.asarray(M, dtype=complex) for M in Ms]
        self.L = len(Ms)
        self.E = [np.einsum('apb,cpd->acbd', M, M.conj()).reshape(M.shape[0] ** 2, M.shape[2] ** 2) for M in self.Ms]
        T = self.E[0]
        for E in self.E[1:]:
            T = T @ E
        w, v = np.linalg.eig(T)
        k = int(np.argmax(np.abs(w)))
        self.eta = w[k]
        self.gap = float(np.sort(np.abs(w))[-2] / abs(w[k])) if len(w) > 1 else 0.
        self.r0 = v[:, k]
        w2, v2 = np.linalg.eig(T.T)
        k2 = int(np.argmax(np.abs(w2)))
        self.l0 = v2[:, k2]

    def left(self, b):
        l = self.l0
        for i in range(b % self.L):
            l = l @ self.E[i]
        return l

    def right(self, b):
        """right environment at the bond left of site b (b in 0..L)"""
        r = self.r0
        for i in range(self.L - 1, (b % self.L) - 1, -1):
            r = self.E[i] @ r
        return r

    def rdm(self, sites):
        sites = sorted(sites)
        i0, i1 = sites[0], sites[-1]
        c = self.Ms[i0 % self.L].shape[0]
        X = self.left(i0).reshape(c, c)            # (a, a')
        X = X.reshape(c, c, 1, 1)                  # (a, a', ket-open, bra-open)
        for i in range(i0, i1 + 1):
            M = self.Ms[i % self.L]
            if i in sites:
                # X[a,a',K,B] M[a,p,b] M*[a',q,b'] -> X[b,b',(K p),(B q)]
                X = np.einsum('acKB,apb,cqd->bdKpBq', X, M, M.conj())
                s = X.shape
                X = X.reshape(s[0], s[1], s[2] * s[3], s[4] * s[5])
            else:
                X = np.einsum('acKB,apb,cpd->bdKB', X, M, M.conj())
        cR = X.shape[0]
        r = self.right(i1 + 1).reshape(cR, cR)
        rho = np.einsum('bdKB,bd->KB', X, r)
        return rho / np.trace(rho)


def split_two(theta, chi_max=None):
    """SVD split of a dense two-site tensor (a, p, q, b) -> (a,p,c), (c,q,b) (reference side)."""
    a, p, q, b = theta.shape
    U, s, Vh = np.linalg.svd(theta.reshape(a * p, q * b), full_matrices=False)
    keep = s > 1e-14 * s[0]
    U, s, Vh = U[:, keep], s[keep], Vh[keep]
    return (U * s).reshape(a, p, -1), Vh.reshape(-1, q, b)


# ------------------------------------------------------------------------------------------------
# spec generation (harness side; `rng` is random.Random)
# ------------------------------------------------------------------------------------------------
FORMS = ['A', 'B', 'C', 'G', 'Th']


def gen_sites(rng, L, maxdim=None, family=None, hetero=None, fermionic=None):
    fam = family or rng.choice(['none', 'none', '2Sz', 'pSz', 'N', 'N', 'pN', 'N2Sz'])
    pool = list(FAMILIES[fam])
    if fermionic is True:
        pool = [k for k in pool if k.split(':')[0] in ('F', 'SHF')] or pool
    if fermionic is False:
        pool = [k for k in pool if k.split(':')[0] not in ('F', 'SHF')] or pool
    if hetero is None:
        hetero = rng.random() < 0.5
    for _ in range(200):
        if hetero:
            kinds = [rng.choice(pool) for _ in range(L)]
        else:
            kinds = [rng.choice(pool)] * L
        dim = 1
        for k in kinds:
            dim *= std_table(k)[0]
        if maxdim is None or dim <= maxdim:
            return kinds
    small = min(pool, key=lambda k: std_table(k)[0])
    d = std_table(small)[0]
    while L > 1 and d ** L > maxdim:      # the family has only large sites: use a shorter chain
        L -= 1
    return [small] * L


def gen_forms(rng, L):
    r = rng.random()
    if r < 0.4:
        return rng.choice(FORMS)
    return [rng.choice(FORMS) for _ in range(L)]


def gen_finite_build(rng, kinds, allow=None):
    """constructor description for a finite chain"""
    L = len(kinds)
    dim = 1
    for k in kinds:
        dim *= std_table(k)[0]
    methods = ['product', 'full', 'full_sparse', 'bflat', 'circuit', 'covering']
    bases = set(k.split(':')[0] for k in kinds)
    if len(set(kinds)) == 1 and list(bases)[0] in UPDOWN and L >= 2:
        methods.append('singlets')
        methods.append('singlets')
    if allow:
        methods = [m for m in methods if m in allow] or allow[:1]
    m = rng.choice(methods)
    b = {'method': m, 'seed': rng.randrange(1 << 30), 'cplx': rng.random() < 0.5}
    if m == 'product':
        b['entries'] = [rng.choice(['int', 'int', 'label', 'vec']) for _ in range(L)]
        b['form'] = gen_forms(rng, L)
        b['permute'] = rng.random() < 0.8
    elif m in ('full', 'full_sparse'):
        b['form'] = rng.choice([None, 'A', 'B', 'C', 'G'])
        b['normalize'] = rng.random() < 0.6
        b['k'] = rng.randint(2, 5)
    elif m == 'bflat':
        chi = [1]
        dl = 1
        dims = [std_table(k)[0] for k in kinds]
        for i in range(1, L):
            dl *= dims[i - 1]
            dr = 1
            for d in dims[i:]:
                dr *= d
            chi.append(max(1, min(rng.randint(1, 4), dl, dr)))
        chi.append(1)
        b['chi'] = chi
        b['form'] = rng.choice(['B', 'B', None, 'A', 'C', 'G'])
        if max(chi) == 1 and b['form'] is None:
            b['form'] = 'B'          # (a chi=1 state with label None is never canonicalised by from_Bflat)
        b['svs'] = rng.random() < 0.5
        b['permute'] = rng.random() < 0.7
    elif m == 'circuit':
        b['form'] = gen_forms(rng, L)
        b['gates'] = [rng.randrange(L - 1) for _ in range(rng.randint(1, 2 * L))]
    elif m == 'singlets':
        idx = list(range(L))
        rng.shuffle(idx)
        npairs = rng.randint(1, L // 2)
        b['pairs'] = [[idx[2 * j], idx[2 * j + 1]] for j in range(npairs)]
        b['lonely'] = sorted(idx[2 * npairs:])
        b['lonely_state'] = rng.choice(['up', 'down'])
        b['labels'] = rng.random() < 0.5
    elif m == 'covering':
        # partition of the sites into local groups of 1..3 sites, each in a random internal order
        idx = list(range(L))
        fermionic = any(sum(std_table(k)[2]) for k in kinds)
        if not fermionic:
            rng.shuffle(idx)
        groups = []
        j = 0
        while j < L:
            n = min(rng.randint(1, 3), L - j)
            g = idx[j:j + n]
            rng.shuffle(g)
            groups.append(g)
            j += n
        rng.shuffle(groups)
        b['groups'] = groups
        b['k'] = rng.randint(1, 3)
    return b


def gen_covering_x(rng):
    """from_product_mps_covering with CROSSING / interleaved local states of 1-3 sites whose bonds carry several
    charge sectors and generic (non-degenerate) Schmidt weights: the virtual legs of the result are products of
    the local bond legs, re-sorted by charge.  Local index tuples are ascending or differ from ascending by one
    transposition (any other order runs into the known finding F31).  'local_prep': 'canon' = the local MPS is
    brought to canonical form by canonical_form() (virtual legs sorted by charge), 'raw' = as returned by
    from_full."""
    fam = rng.choice(['2Sz', '2Sz', '2Sz', 'N', 'N', 'N', 'pSz', 'pN', 'none'])
    pool = COVER_X_POOLS[fam]
    L = rng.choice([4, 4, 5, 6, 6])
    if rng.random() < 0.6:
        kinds = [rng.choice(pool)] * L
    else:
        kinds = [rng.choice(pool) for _ in range(L)]
    while int(np.prod([std_table(k)[0] for k in kinds])) > 4096:
        kinds = kinds[:-1]
    L = len(kinds)
    idx = list(range(L))
    rng.shuffle(idx)
    groups = []
    j = 0
    while j < L:
        n = min(rng.choice([2, 2, 2, 3, 3, 1]), L - j)
        g = sorted(idx[j:j + n])
        if n >= 2 and rng.random() < 0.25:
            a, c = rng.sample(range(n), 2)
            g[a], g[c] = g[c], g[a]
        groups.append(g)
        j += n
    rng.shuffle(groups)
    b = {'method': 'covering', 'seed': rng.randrange(1 << 30), 'cplx': rng.random() < 0.4, 'groups': groups,
         'k': None, 'sector': 'max', 'local_prep': 'canon' if rng.random() < 0.88 else 'raw'}
    return {'bc': 'finite', 'sites': kinds, 'build': b}


def largest_sector(S, sub):
    """the total charge on the sites `sub` shared by the largest number of basis states"""
    if not S.mod:
        return []
    tot = S.total_charge(sub).reshape(-1, len(S.mod))
    vals, cnt = np.unique(tot, axis=0, return_counts=True)
    return [int(x) for x in vals[int(np.argmax(cnt))]]


def sector_vector(rng, S, sub, k=None, cplx=False, Q=None):
    """random vector with definite total charge on the sites `sub` of S (tensor of shape dims)"""
    dims = [S.dims[i] for i in sub]
    tot = S.total_charge(sub)
    pick = tuple(int(rng.integers(d)) for d in dims)
    Q = tot[pick] if Q is None else np.array(S.valid(Q), dtype=int)
    mask = np.all(tot == Q, axis=-1) if S.mod else np.ones(dims, dtype=bool)
    v = rnd(rng, dims, cplx) * mask
    if k is not None:
        flat = np.flatnonzero(mask.reshape(-1))
        ch = rng.choice(flat, size=min(k, len(flat)), replace=False)
        m2 = np.zeros(mask.size, dtype=bool)
        m2[ch] = True
        v = v * m2.reshape(mask.shape)
    return v, [int(x) for x in Q]


def charge_conserving_mask(S, sub):
    D = int(np.prod([S.dims[i] for i in sub]))
    if not S.mod:
        return np.ones((D, D), dtype=bool)
    tot = S.total_charge(sub).reshape(-1, len(S.mod))
    return np.all(tot[:, None, :] == tot[None, :, :], axis=-1)


def random_gate(rng, S, sub, cplx, unitary=True):
    """random charge-conserving operator on the sites `sub` (kron order), built block by block (one block per
    total charge); unitary (Q factor of a random block) if requested, else a generic invertible block"""
    D = int(np.prod([S.dims[i] for i in sub]))
    if S.mod:
        tot = S.total_charge(sub).reshape(D, len(S.mod))
        keys = [tuple(t) for t in tot]
    else:
        keys = [()] * D
    out = np.zeros((D, D), dtype=complex if cplx else float)
    for key in sorted(set(keys)):
        idx = [j for j in range(D) if keys[j] == key]
        blk = rnd(rng, (len(idx), len(idx)), cplx)
        if unitary:
            blk, _ = np.linalg.qr(blk)
        else:
            blk = blk + 0.7 * np.eye(len(idx))
        out[np.ix_(idx, idx)] = blk
    return out


def build_data(spec, SI):
    """numpy data of a finite-state spec + dense reference.  Returns dict with
    'vec' (tensor, shape dims, stored basis: the state INCLUDING its norm, i.e. psi.norm * contraction),
    'norm' (expected psi.norm), and the raw constructor inputs."""
    S = Sites(spec['sites'], SI)
    b = spec['build']
    rng = np.random.default_rng(b['seed'])
    L = len(S.kinds)
    cplx = b['cplx']
    out = {}
    m = b['method']
    if m == 'product':
        vec = np.ones([1] * L, dtype=complex)
        pst = []
        for i, e in enumerate(b['entries']):
            d = S.dims[i]
            perm = S.perm[i]
            if e == 'int':
                j = int(rng.integers(d))        # index in the std basis if permute else stored basis
                pst.append(j)
                loc = np.zeros(d)
                if b['permute']:
                    loc[perm.index(j)] = 1.
                else:
                    loc[j] = 1.
            elif e == 'label':
                labels = sorted(SI[S.kinds[i]]['labels'])
                lab = labels[int(rng.integers(len(labels)))]
                pst.append(lab)
                loc = np.zeros(d)
                loc[SI[S.kinds[i]]['labels'][lab]] = 1.
            else:
                # local superposition within one charge sector (std basis order if permute)
                j0 = int(rng.integers(d))
                qs = S.q[i]
                amp = rnd(rng, (d,), cplx)
                loc = np.array([amp[j] if qs[j] == qs[j0] else 0. for j in range(d)])
                loc = loc / np.linalg.norm(loc)
                if b['permute']:
                    std = np.zeros(d, dtype=loc.dtype)
                    for j in range(d):
                        std[perm[j]] = loc[j]
                    pst.append(std)
                else:
                    pst.append(loc)
            shp = [1] * L
            shp[i] = d
            vec = vec * loc.reshape(shp)
        out['p_state'] = pst
        out['vec'] = vec
        out['norm'] = 1.
    elif m in ('full', 'full_sparse'):
        v, Q = sector_vector(rng, S, list(range(L)), k=b['k'] if m == 'full_sparse' else None, cplx=cplx, Q=b.get('Q'))
        v = v * float(rng.uniform(0.5, 2.0))
        out['psi_in'] = v
        nrm = float(np.linalg.norm(v))
        out['vec'] = v if not b['normalize'] else v / nrm       # the state including its norm
        out['norm'] = 1. if b['normalize'] else nrm             # expected psi.norm
    elif m == 'bflat':
        chi = b['chi']
        nq = len(S.mod)
        # bond charges: reachable charges, so that every column of every B has a non-zero entry
        qb = [[tuple([0] * nq)]]
        Bs = []
        for i in range(L):
            d = S.dims[i]
            cand = []
            for a in qb[i]:
                for p in range(d):
                    cand.append(tuple(S.valid([x + y for x, y in zip(a, S.q[i][p])])))
            nxt = [cand[int(rng.integers(len(cand)))] for _ in range(chi[i + 1])]
            qb.append(nxt)
            B = rnd(rng, (d, chi[i], chi[i + 1]), cplx)
            for p in range(d):
                for a in range(chi[i]):
                    for c in range(chi[i + 1]):
                        if tuple(S.valid([x + y for x, y in zip(qb[i][a], S.q[i][p])])) != nxt[c]:
                            B[p, a, c] = 0.
            Bs.append(B)
        out['B_stored'] = Bs          # physical index in the stored basis
        svs = None
        if b['svs'] and b['form'] is not None:
            svs = [np.ones(1)] + [np.sort(rng.uniform(0.3, 1.0, size=chi[i]))[::-1] for i in range(1, L)] + [np.ones(1)]
            svs = [s / np.linalg.norm(s) for s in svs]
        elif b['form'] is not None:
            svs = [np.ones(c) / np.sqrt(c) for c in chi]
        out['svs'] = svs if b['svs'] else None
        f = HALF[b['form']] if b['form'] is not None else None
        th = None
        for i in range(L):
            T = np.transpose(Bs[i], (1, 0, 2))      # (vL, p, vR)
            if f is not None:
                # the stored tensor is claimed to be s^nuL Gamma s^nuR: denotation has s^1 on every bond
                T = T * spow(svs[i], 2 - f[0] if i == 0 else 0)[:, None, None]
                T = T * spow(svs[i + 1], 2 - f[1] - (f[0] if i + 1 < L else 0))[None, None, :]
            th = T if th is None else np.tensordot(th, T, axes=(-1, 0))
        v = th.reshape(S.dims)
        out['vec_unnormalized'] = v
        # from_Bflat canonicalises (and thereby normalises) only when some bond dimension exceeds 1
        out['vec'] = v / np.linalg.norm(v) if max(chi) > 1 else v
        out['norm'] = 1.
        # what the caller passes: std-basis order if permute
        if b['permute']:
            Bin = []
            for i in range(L):
                X = np.zeros_like(Bs[i])
                for j in range(S.dims[i]):
                    X[S.perm[i][j]] = Bs[i][j]
                Bin.append(X)
            out['Bflat'] = Bin
        else:
            out['Bflat'] = Bs
        out['qb0'] = [list(qb[0][0])]
    elif m == 'circuit':
        vec = np.ones([1] * L, dtype=complex)
        pst = []
        for i in range(L):
            j = int(rng.integers(S.dims[i]))
            pst.append(j)
            loc = np.zeros(S.dims[i])
            loc[j] = 1.
            shp = [1] * L
            shp[i] = S.dims[i]
            vec = vec * loc.reshape(shp)
        gates = []
        for i in b['gates']:
            U = random_gate(rng, S, [i, i + 1], cplx)
            gates.append(U)
            vec = apply_on(vec, U, [i, i + 1])
        out['p_state'] = pst
        out['gate_mats'] = gates
        out['vec'] = vec
        out['norm'] = 1.
    elif m == 'singlets':
        base = S.kinds[0].split(':')[0]
        up, down = UPDOWN[base]
        lab = SI[S.kinds[0]]['labels']
        iu, idn = lab[up], lab[down]
        d = S.dims[0]
        vec = np.ones([1] * L, dtype=complex)
        for (i, j) in b['pairs']:
            t = np.zeros((d, d))
            t[iu, idn] = 0.5 ** 0.5
            t[idn, iu] = -0.5 ** 0.5
            shp = [1] * L
            shp[i] = d
            shp[j] = d
            if i < j:
                vec = vec * t.reshape(shp)
            else:   # local sites (0, 1) -> (i, j) with i > j: a (fermionic) reordering of the local pair
                vec = vec * permute_state(t, [1, 0], [S.par[0], S.par[0]]).reshape(shp)
        for i in b['lonely']:
            loc = np.zeros(d)
            loc[lab[up] if b['lonely_state'] == 'up' else lab[down]] = 1.
            shp = [1] * L
            shp[i] = d
            vec = vec * loc.reshape(shp)
        out['up_down'] = (up, down) if b['labels'] else (S.perm[0][iu], S.perm[0][idn])
        out['lonely_state'] = (up if b['lonely_state'] == 'up' else down) if b['labels'] else \
            S.perm[0][lab[up] if b['lonely_state'] == 'up' else lab[down]]
        out['vec'] = vec
        out['norm'] = 1.
    elif m == 'covering':
        vec = np.ones([1] * L, dtype=complex)
        locs = []
        for g in b['groups']:
            if b.get('sector') == 'max':      # full support on the largest charge sector: generic Schmidt weights
                v, Q = sector_vector(rng, S, g, k=None, cplx=cplx, Q=largest_sector(S, g))
            else:
                v, Q = sector_vector(rng, S, g, k=b['k'] + 1, cplx=cplx)
            v = v / np.linalg.norm(v)
            locs.append(v)
            # local state lives on local sites 0..n-1 which are mapped to the sites g[0..n-1]:
            # fermionic reordering sign inside the local state when g is not ascending
            order = np.argsort(g)
            rank = [0] * len(g)
            for r, o in enumerate(order):
                rank[o] = r
            vs = permute_state(v, rank, [S.par[i] for i in g])
            gs = sorted(g)
            shp = [1] * L
            for ax, i in enumerate(gs):
                shp[i] = S.dims[i]
            vec = vec * vs.reshape(shp)
        out['locals'] = locs
        out['vec'] = vec
        out['norm'] = 1.
    else:
        raise ValueError(m)
    return out


# ------------------------------------------------------------------------------------------------
# infinite states
# ------------------------------------------------------------------------------------------------

def gen_infinite_build(rng, kinds):
    L = len(kinds)
    methods = ['product', 'bflat', 'bflat', 'bflat']
    bases = set(k.split(':')[0] for k in kinds)
    if len(set(kinds)) == 1 and list(bases)[0] in UPDOWN and L % 2 == 0:
        methods.append('singlets')
    m = rng.choice(methods)
    b = {'method': m, 'seed': rng.randrange(1 << 30), 'cplx': rng.random() < 0.5}
    if m == 'product':
        b['form'] = gen_forms(rng, L)
    elif m == 'bflat':
        b['chi'] = [rng.randint(1, 3) for _ in range(L)]
        if max(b['chi']) == 1:
            b['chi'][rng.randrange(L)] = 2
        b['form'] = rng.choice(['B', 'B', None])
        b['permute'] = rng.random() < 0.7
    elif m == 'singlets':
        # perfect matching of the sites of cells 0 (partners may live in neighbouring cells)
        idx = list(range(L))
        rng.shuffle(idx)
        pairs = []
        for j in range(L // 2):
            a, c = idx[2 * j], idx[2 * j + 1]
            if rng.random() < 0.4:
                c += L * rng.choice([-1, 1])
            pairs.append([a, c])
        b['pairs'] = pairs
    return b


def build_data_infinite(spec, SI):
    """reference for an infinite state: either explicit unit-cell tensors ('Ms', any gauge; stored basis)
    or a finite dense patch ('patch', with 'patch_cells' = (first cell, number of cells))."""
    S = Sites(spec['sites'], SI)
    b = spec['build']
    rng = np.random.default_rng(b['seed'])
    L = len(S.kinds)
    cplx = b['cplx']
    out = {}
    if b['method'] == 'product':
        pst, Ms = [], []
        for i in range(L):
            j = int(rng.integers(S.dims[i]))
            pst.append(j)
            M = np.zeros((1, S.dims[i], 1))
            M[0, S.perm[i].index(j), 0] = 1.
            Ms.append(M)
        out['p_state'] = pst
        out['Ms'] = Ms
    elif b['method'] == 'bflat':
        chi = b['chi']
        nq = len(S.mod)
        ok = False
        for attempt in range(50):
            # bond charges; bond L = bond 0 shifted by the charge Q carried by one unit cell (from_Bflat gauges
            # it into the total charge of the last tensor); tensors masked to the charge rule
            qb = [[tuple(S.valid(rng.integers(0, 2, size=nq))) for _ in range(chi[i])] for i in range(L)]
            Q = [0] * nq
            for i in range(L):
                Q = [x + y for x, y in zip(Q, S.q[i][int(rng.integers(S.dims[i]))])]
            qb.append([tuple(S.valid([x + y for x, y in zip(a, Q)])) for a in qb[0]])
            Bs = []
            good = True
            for i in range(L):
                d = S.dims[i]
                B = rnd(rng, (d, chi[i], chi[(i + 1) % L]), cplx)
                for p in range(d):
                    for a in range(chi[i]):
                        for c in range(chi[(i + 1) % L]):
                            if tuple(S.valid([x + y for x, y in zip(qb[i][a], S.q[i][p])])) != qb[i + 1][c]:
                                B[p, a, c] = 0.
                if np.any(np.abs(B).sum(axis=(0, 1)) == 0) or np.any(np.abs(B).sum(axis=(0, 2)) == 0):
                    good = False
                Bs.append(B / max(1e-300, np.linalg.norm(B)) * np.sqrt(chi[(i + 1) % L]))
            if not good:
                continue
            tm = TM([np.transpose(B, (1, 0, 2)) for B in Bs])
            c0 = chi[0]
            sl = np.linalg.svd(tm.l0.reshape(c0, c0), compute_uv=False)
            sr = np.linalg.svd(tm.r0.reshape(c0, c0), compute_uv=False)
            # injective (unique dominant eigenvalue, full-rank fixed points) and well conditioned
            if tm.gap < 0.8 and abs(tm.eta) > 1e-8 and sl[-1] > 1e-3 * sl[0] and sr[-1] > 1e-3 * sr[0]:
                ok = True
                break
        out['ok'] = ok
        out['B_stored'] = Bs
        out['qb0'] = [list(x) for x in qb[0]]
        Ms = [np.transpose(B, (1, 0, 2)) for B in Bs]
        out['Ms'] = Ms
        if b['permute']:
            Bin = []
            for i in range(L):
                X = np.zeros_like(Bs[i])
                for j in range(S.dims[i]):
                    X[S.perm[i][j]] = Bs[i][j]
                Bin.append(X)
            out['Bflat'] = Bin
        else:
            out['Bflat'] = Bs
    elif b['method'] == 'singlets':
        base = S.kinds[0].split(':')[0]
        up, down = UPDOWN[base]
        lab = SI[S.kinds[0]]['labels']
        iu, idn = lab[up], lab[down]
        d = S.dims[0]
        c0, nc = -1, 5                       # patch = cells -1..3, window = cells 0..2
        n = nc * L
        vec = np.ones([1] * n, dtype=complex)
        used = set()
        for cell in range(c0 - 1, c0 + nc + 1):
            for (i, j) in b['pairs']:
                a, c = i + cell * L - c0 * L, j + cell * L - c0 * L
                if 0 <= a < n and 0 <= c < n:
                    t = np.zeros((d, d))
                    t[iu, idn] = 0.5 ** 0.5
                    t[idn, iu] = -0.5 ** 0.5
                    shp = [1] * n
                    shp[a] = d
                    shp[c] = d
                    vec = vec * (t if a < c else permute_state(t, [1, 0], [S.par[0], S.par[0]])).reshape(shp)
                    used.add(a)
                    used.add(c)
        # sites of the patch whose partner is outside: maximally mixed after tracing the partner; they lie
        # outside the window, any state will do
        for a in range(n):
            if a not in used:
                loc = np.zeros(d)
                loc[0] = 1.
                shp = [1] * n
                shp[a] = d
                vec = vec * loc.reshape(shp)
        out['patch'] = vec
        out['patch_first'] = c0 * L
        out['up_down'] = (up, down)
    return out
