"""C10 coverage audit: which public functions / methods of the anchored source files, and which branches inside them, do the
streams of harness/c10.py reach?

The items are enumerated from the SOURCE of the tree under test (AST), the hits come from the line recorder inside the
implementation runner (harness/impl/c10_impl.py: start_trace).  Every public name of the anchored classes must either be
reached (at least one statement of its body executed) or be classified in EXCLUDED with a reason taken from the property text;
anything else is a correspondence failure of the check (a new public method cannot silently escape)."""
import ast
import os

FILES = ('tenpy/models/model.py', 'tenpy/networks/terms.py', 'tenpy/algorithms/exact_diag.py')

# public names that are deliberately not part of the quantifier of C10 ("all representations of a model Hamiltonian are the same
# operator"): reason
EXCLUDED = {
    # tenpy/models/model.py
    'model.Model.rng': 'random generator of a model: no representation of the Hamiltonian',
    'model.Model.save_hdf5': 'serialisation (property C17)',
    'model.Model.from_hdf5': 'serialisation (property C17)',
    'model.Model.get_extra_default_measurements': 'simulation plumbing: no representation of the Hamiltonian',
    'model.NearestNeighborModel.get_extra_default_measurements': 'simulation plumbing',
    'model.MPOModel.get_extra_default_measurements': 'simulation plumbing',
    'model.Model.update_time_parameter': 'time-dependent models (re-initialisation with a new parameter): not a representation change',
    'model.Model.estimate_RAM_saving_factor': 'memory heuristic: no representation of the Hamiltonian',
    'model.NearestNeighborModel.trivial_like_NNModel': 'builds the zero Hamiltonian on purpose',
    'model.CouplingMPOModel.init_sites': 'abstract (NotImplementedError): implemented by the model classes, reached through them',
    # tenpy/networks/terms.py
    'terms.TermList.__str__': 'pretty printer',
    'terms.CouplingTerms.plot_coupling_terms': 'matplotlib plot',
    'terms.OnsiteTerms._test_terms': None, 'terms.CouplingTerms._test_terms': None,      # (private: listed for completeness)
    # tenpy/algorithms/exact_diag.py
    'exact_diag.ExactDiag.full_diagonalization': 'eigen-decomposition of the exported matrix (linear algebra: properties C02 / C13)',
    'exact_diag.ExactDiag.groundstate': 'eigen-decomposition of the exported matrix',
    'exact_diag.ExactDiag.exp_H': 'eigen-decomposition of the exported matrix',
    'exact_diag.ExactDiag.sparse_diag': 'eigen-decomposition of the exported matrix',
    'exact_diag.ExactDiag.full_to_mps': 'state conversion (property C03): no representation of the Hamiltonian',
    'exact_diag.ExactDiag.possible_charge_sectors': 'charge bookkeeping of the pipe (property C04)',
}
# Hdf5Exportable plumbing inherited by every class
EXCLUDED_METHOD_NAMES = {'save_hdf5': 'serialisation (property C17)', 'from_hdf5': 'serialisation (property C17)'}

# branches that cannot be reached by a valid input of the property (error branches are recognised automatically: a branch whose
# first statement is `raise` / `assert False` / warnings.warn is an error branch and listed separately)


def _is_error_stmt(st):
    if isinstance(st, ast.Raise):
        return True
    if isinstance(st, ast.Assert) and isinstance(st.test, ast.Constant) and st.test.value is False:
        return True
    if isinstance(st, ast.Return) and isinstance(st.value, ast.Name) and st.value.id == 'NotImplemented':
        return True
    return False


def _docstring_lines(fn):
    if (fn.body and isinstance(fn.body[0], ast.Expr) and isinstance(fn.body[0].value, ast.Constant)
            and isinstance(fn.body[0].value.value, str)):
        return set(range(fn.body[0].lineno, fn.body[0].end_lineno + 1))
    return set()


def _stmt_lines(fn):
    """first lines of all statements in the body of fn (nested defs included: they belong to the item), without docstrings"""
    doc = _docstring_lines(fn)
    out = set()
    for node in ast.walk(fn):
        if isinstance(node, ast.stmt) and node is not fn and node.lineno not in doc:
            if isinstance(node, (ast.FunctionDef, ast.ClassDef)):
                continue
            out.add(node.lineno)
    return out


def _branches(fn):
    """[(line of the branch head, kind, first line of the branch body, is_error_branch)] for if / elif / else / for-else /
    try-except / loop bodies"""
    out = []
    for node in ast.walk(fn):
        if isinstance(node, ast.If):
            out.append((node.lineno, 'if', node.body[0].lineno, _is_error_stmt(node.body[0])))
            if node.orelse and not (len(node.orelse) == 1 and isinstance(node.orelse[0], ast.If)):
                out.append((node.lineno, 'else', node.orelse[0].lineno, _is_error_stmt(node.orelse[0])))
        elif isinstance(node, (ast.For, ast.While)):
            out.append((node.lineno, 'loop', node.body[0].lineno, False))
            if node.orelse:
                out.append((node.lineno, 'loop-else', node.orelse[0].lineno, _is_error_stmt(node.orelse[0])))
        elif isinstance(node, ast.Try):
            for h in node.handlers:
                out.append((node.lineno, 'except', h.body[0].lineno, _is_error_stmt(h.body[-1]) or _is_error_stmt(h.body[0])))
    return sorted(set(out))


def enumerate_items(repo):
    """{item name: {'file', 'line', 'public', 'lines': set, 'branches': [...], 'params': [...]}}"""
    items = {}
    for rel in FILES:
        path = os.path.join(repo, rel)
        src = open(path).read()
        tree = ast.parse(src)
        mod = os.path.splitext(os.path.basename(rel))[0]

        def add(name, fn, public):
            a = fn.args
            params = [x.arg for x in a.posonlyargs + a.args + a.kwonlyargs if x.arg not in ('self', 'cls')]
            items[name] = {'file': rel, 'line': fn.lineno, 'public': public, 'lines': _stmt_lines(fn),
                           'branches': _branches(fn), 'params': params}
        for node in tree.body:
            if isinstance(node, ast.FunctionDef):
                add('%s.%s' % (mod, node.name), node, not node.name.startswith('_'))
            elif isinstance(node, ast.ClassDef):
                for sub in node.body:
                    if isinstance(sub, ast.FunctionDef):
                        pub = (not sub.name.startswith('_')) or sub.name in ('__init__', '__iadd__', '__add__', '__mul__', '__iter__')
                        add('%s.%s.%s' % (mod, node.name, sub.name), sub, pub and not node.name.startswith('_'))
    return items


def table(repo, hits):
    """coverage table from the recorded line hits {file: [lines]}:
    returns (table {item: row}, unclassified public items not reached, summary dict)"""
    items = enumerate_items(repo)
    hit = {f: set(v) for f, v in (hits or {}).items()}
    tab = {}
    unclassified = []
    n_reached = n_excl = n_pub = 0
    br_tot = br_hit = br_err = br_err_hit = 0
    unreached_branches = []
    for name, it in sorted(items.items()):
        h = hit.get(it['file'], set())
        lines = it['lines']
        got = lines & h
        reached = bool(got) or not lines
        row = {'reached': reached, 'lines': '%d/%d' % (len(got), len(lines))}
        short = name.split('.')[-1]
        excl = EXCLUDED.get(name, EXCLUDED_METHOD_NAMES.get(short))
        if name in EXCLUDED or short in EXCLUDED_METHOD_NAMES:
            row['excluded'] = excl or 'private helper'
        bs = []
        for head, kind, first, is_err in it['branches']:
            ok = first in h
            if is_err:
                br_err += 1
                br_err_hit += ok
            else:
                br_tot += 1
                br_hit += ok
                if not ok and reached and 'excluded' not in row:
                    bs.append('%s@%d' % (kind, head))
                    unreached_branches.append('%s:%s@%d' % (name, kind, head))
        if bs:
            row['unreached_branches'] = bs
        if it['public']:
            n_pub += 1
            if 'excluded' in row and not reached:
                n_excl += 1
            elif reached:
                n_reached += 1
            else:
                unclassified.append(name)
        tab[name] = row
    summary = {'public_items': n_pub, 'reached': n_reached, 'excluded_not_reached': n_excl, 'unclassified_unreached': len(unclassified),
               'branches_reached': '%d/%d' % (br_hit, br_tot), 'error_branches_reached': '%d/%d' % (br_err_hit, br_err),
               'unreached_branches': unreached_branches}
    return tab, unclassified, summary
