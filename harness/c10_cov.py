"""C10 coverage audit: which public functions / methods of the anchored source files, and which branches inside them, do the
streams of harness/c10.py reach?

The items are enumerated from the SOURCE of the tree under test (AST), the hits come from the line recorder inside the
implementation runner (harness/impl/c10_impl.py: start_trace).  Every public name of the anchored classes must either be
reached (at least one statement of its body executed) or be classified in EXCLUDED with a reason taken from the property text;
anything else is a correspondence failure of the check (a new public method cannot silently escape)."""
import ast
import os

FILES = ('tenpy/models/model.py', 'tenpy/networks/terms.py', 'tenpy/algorithms/exact_diag.py')

# public names that are deliberately not part of the quantifier of C10 ("all representations of a model Hamiltonian are the same
# operator"): reason
EXCLUDED = {
    # tenpy/models/model.py
    'model.Model.rng': 'random generator of a model: no representation of the Hamiltonian',
    'model.Model.save_hdf5': 'serialisation (property C17)',
    'model.Model.from_hdf5': 'serialisation (property C17)',
    'model.Model.get_extra_default_measurements': 'simulation plumbing: no representation of the Hamiltonian',
    'model.NearestNeighborModel.get_extra_default_measurements': 'simulation plumbing',
    'model.MPOModel.get_extra_default_measurements': 'simulation plumbing',
    'model.Model.update_time_parameter': 'time-dependent models (re-initialisation with a new parameter): not a representation change',
    'model.Model.estimate_RAM_saving_factor': 'memory heuristic: no representation of the Hamiltonian',
    'model.NearestNeighborModel.trivial_like_NNModel': 'builds the zero Hamiltonian on purpose',
    'model.CouplingMPOModel.init_sites': 'abstract (NotImplementedError): implemented by the model classes, reached through them',
    # tenpy/networks/terms.py
    'terms.TermList.__str__': 'pretty printer',
    'terms.CouplingTerms.plot_coupling_terms': 'matplotlib plot',
    'terms.OnsiteTerms._test_terms': None, 'terms.CouplingTerms._test_terms': None,      # (private: listed for completeness)
    # tenpy/algorithms/exact_diag.py
    'exact_diag.ExactDiag.full_diagonalization': 'eigen-decomposition of the exported matrix (linear algebra: properties C02 / C13)',
    'exact_diag.ExactDiag.groundstate': 'eigen-decomposition of the exported matrix',
    'exact_diag.ExactDiag.exp_H': 'eigen-decomposition of the exported matrix',
    'exact_diag.ExactDiag.sparse_diag': 'eigen-decomposition of the exported matrix',
    'exact_diag.ExactDiag.full_to_mps': 'state conversion (property C03): no representation of the Hamiltonian',
    'exact_diag.ExactDiag.possible_charge_sectors': 'charge bookkeeping of the pipe (property C04)',
}
# Hdf5Exportable plumbing inherited by every class
EXCLUDED_METHOD_NAMES = {'save_hdf5': 'serialisation (property C17)', 'from_hdf5': 'serialisation (property C17)'}

# branches that cannot be reached by a valid input of the property (error branches are recognised automatically: a branch whose
# first statement is `raise` / `assert False` / warnings.warn is an error branch and listed separately)


def _is_error_stmt(st):
    if isinstance(st, ast.Raise):
        return True
    if isinstance(st, ast.Assert) and isinstance(st.test, ast.Constant) and st.test.value is False:
        return True
    if isinstance(st, ast.Return) and isinstance(st.value, ast.Name) and st.value.id == 'NotImplemented':
        return True
    return False


def _docstring_lines(fn):
    if (fn.body and isinstance(fn.body[0], ast.Expr) and isinstance(fn.body[0].value, ast.Constant)
            and isinstance(fn.body[0].value.value, str)):
        return set(range(fn.body[0].lineno, fn.body[0].end_lineno + 1))
    return set()


def _stmt_lines(fn):
    """first lines of all statements in the body of fn (nested defs included: they belong to the item), without docstrings"""
    doc = _docstring_lines(fn)
    out = set()
    for node in ast.walk(fn):
        if isinstance(node, ast.stmt) and node is not fn and node.lineno not in doc:
            if isinstance(node, (ast.FunctionDef, ast.ClassDef)):
                continue
            out.add(node.lineno)
    return out


def _branches(fn):
    """[(line of the branch head, kind, first line of the branch body, is_error_branch, source text of the condition)] for
    if / elif / else / for-else / try-except / loop bodies"""
    out = []

    def txt(node):
        try:
            return ast.unparse(node)[:90]
        except Exception:
            return '?'
    for node in ast.walk(fn):
        if isinstance(node, ast.If):
            out.append((node.lineno, 'if', node.body[0].lineno, _is_error_stmt(node.body[0]), 'if ' + txt(node.test)))
            if node.orelse and not (len(node.orelse) == 1 and isinstance(node.orelse[0], ast.If)):
                out.append((node.lineno, 'else', node.orelse[0].lineno, _is_error_stmt(node.orelse[0]), 'else of: if ' + txt(node.test)))
        elif isinstance(node, (ast.For, ast.While)):
            head = ('for %s in %s' % (txt(node.target), txt(node.iter))) if isinstance(node, ast.For) else 'while ' + txt(node.test)
            out.append((node.lineno, 'loop', node.body[0].lineno, False, head))
            if node.orelse:
                out.append((node.lineno, 'loop-else', node.orelse[0].lineno, _is_error_stmt(node.orelse[0]), 'else of: ' + head))
        elif isinstance(node, ast.Try):
            for h in node.handlers:
                out.append((node.lineno, 'except', h.body[0].lineno, _is_error_stmt(h.body[-1]) or _is_error_stmt(h.body[0]),
                            'except ' + (txt(h.type) if h.type is not None else '')))
    return sorted(set(out))


# branches (item, source text of the condition) that no valid input of the property reaches, or that lie outside it: reason
EXCLUDED_BRANCHES = {
    ('exact_diag.ExactDiag._exceeds_max_size', 'if size > self.max_size'): 'size guard (max_size): the exporters are used below the limit',
    ('exact_diag.ExactDiag.build_full_H_from_mpo', 'if self._exceeds_max_size()'): 'size guard (max_size)',
    ('exact_diag.ExactDiag.build_full_H_from_bonds', 'if self._exceeds_max_size()'): 'size guard (max_size)',
    ('model.CouplingMPOModel.init_lattice', 'if helical is not None'): 'HelicalLattice wrapper: lattice geometry is property C19',
    ('model.CouplingMPOModel.init_lattice', 'if irregular_remove is not None'): 'IrregularLattice wrapper: lattice geometry is property C19',
    ('model.CouplingMPOModel.init_lattice', 'if isinstance(check_lat, IrregularLattice)'): 'lattice wrappers (C19)',
    ('model.CouplingMPOModel.init_lattice', 'if isinstance(check_lat, HelicalLattice)'): 'lattice wrappers (C19)',
    ('model.CouplingMPOModel.init_lattice', 'if isinstance(check_lat, MultiSpeciesLattice)'): 'lattice wrappers (C19)',
    ('model.CouplingMPOModel.init_lattice', 'if species_sites is not None'): 'MultiSpeciesLattice: reached only by the model classes that use it',
    ('model.Model.copy', "if hasattr(self, '_rng')"): 'random generator of a model: no representation of the Hamiltonian',
    ('terms.ExponentiallyDecayingTerms.add_centered_exponentially_decaying_term', 'if i < 0'):
        'CouplingModel.add_exponentially_decaying_centered_terms normalises a negative i before (its own branch is reached)',
    ('terms.ExponentiallyDecayingTerms.add_to_graph', 'if label[1] == key'): 'name clash of graph states with a user-given key (key stays at its default)',
    ('terms.ExponentiallyDecayingTerms.add_to_graph', 'except Exception'): 'labels of other graph states that are not tuples (skipped on purpose)',
    ('terms.ExponentiallyDecayingTerms.add_to_graph', 'while (key_nr, key) in all_states'): 'name clash of graph states',
    ('terms.ExponentiallyDecayingTerms.to_TermList', 'if abs(pref) < cutoff'): None,
    ('terms.MultiCouplingTerms.multi_coupling_term_handle_JW', "if op_string == 'JW'"): "documented as 'probably not what you want' (warning branch)",
    ('terms.order_combine_term', 'if N > 100'): 'warning for terms of more than 100 operators',
    ('model._warn_post_init_add', "if hasattr(self, 'H_MPO') and (not getattr(self, 'manually_call_init_H', False))"): None,
}


def enumerate_items(repo):
    """{item name: {'file', 'line', 'public', 'lines': set, 'branches': [...], 'params': [...]}}"""
    items = {}
    for rel in FILES:
        path = os.path.join(repo, rel)
        src = open(path).read()
        tree = ast.parse(src)
        mod = os.path.splitext(os.path.basename(rel))[0]

        def add(name, fn, public):
            a = fn.args
            params = [x.arg for x in a.posonlyargs + a.args + a.kwonlyargs if x.arg not in ('self', 'cls')]
            pos = a.posonlyargs + a.args
            options = [x.arg for x in pos[len(pos) - len(a.defaults):]] + [x.arg for x, d in zip(a.kwonlyargs, a.kw_defaults) if d is not None]
            items[name] = {'file': rel, 'line': fn.lineno, 'public': public, 'lines': _stmt_lines(fn),
                           'branches': _branches(fn), 'params': params, 'options': options}
        for node in tree.body:
            if isinstance(node, ast.FunctionDef):
                add('%s.%s' % (mod, node.name), node, not node.name.startswith('_'))
            elif isinstance(node, ast.ClassDef):
                for sub in node.body:
                    if isinstance(sub, ast.FunctionDef):
                        pub = (not sub.name.startswith('_')) or sub.name in ('__init__', '__iadd__', '__add__', '__mul__', '__iter__')
                        add('%s.%s.%s' % (mod, node.name, sub.name), sub, pub and not node.name.startswith('_'))
    return items


# optional parameters that deliberately stay at their default: reason
EXCLUDED_OPTIONS = {
    ('exact_diag.ExactDiag.__init__', 'max_size'): 'size guard (warning branch), not a representation option',
    ('terms.OnsiteTerms.add_to_nn_bond_Arrays', 'distribute'): 'calc_H_bond always uses (0.5, 0.5); other splittings are not reachable through the model API',
    ('terms.ExponentiallyDecayingTerms.add_to_graph', 'key'): 'internal name of the MPO graph states',
    ('terms.CouplingTerms.coupling_term_handle_JW', 'op_string'): 'helper behind add_local_term / TermList, which pass None (the explicit strings go through add_coupling)',
    ('terms.OnsiteTerms.remove_zeros', 'tol_zero'): None, ('terms.CouplingTerms.remove_zeros', 'tol_zero'): None,
    ('terms.MultiCouplingTerms.remove_zeros', 'tol_zero'): None,
    ('model.NearestNeighborModel.calc_H_MPO_from_bond', 'tol_zero'): 'numerical zero threshold of the SVD of the bond operators (not a representation option)',
    ('model.MPOModel.calc_H_bond_from_MPO', 'tol_zero'): 'numerical zero threshold of the consistency check',
}


def option_table(repo, seen):
    """{item: {option: [kinds of values seen]}} for all reached public items with optional parameters; returns (table, list of
    (item, option) that never left the default and are not excluded)"""
    items = enumerate_items(repo)
    tab, stuck = {}, []
    for name, it in sorted(items.items()):
        if not it['public'] or not it['options']:
            continue
        short = name.split('.')[-1]
        if name in EXCLUDED or short in EXCLUDED_METHOD_NAMES:
            continue
        row = {}
        for o in it['options']:
            vals = sorted((seen.get(name) or {}).get(o, []))
            row[o] = vals
            if not [v for v in vals if v != 'default']:
                if (name, o) in EXCLUDED_OPTIONS:
                    row[o] = vals + ['(excluded: %s)' % (EXCLUDED_OPTIONS[(name, o)] or 'numerical zero threshold, exercised through calc_H_MPO / calc_H_bond(tol_zero)')]
                else:
                    stuck.append('%s(%s=)' % (name, o))
        tab[name] = row
    return tab, stuck


def table(repo, hits):
    """coverage table from the recorded line hits {file: [lines]}:
    returns (table {item: row}, unclassified public items not reached, summary dict)"""
    items = enumerate_items(repo)
    hit = {f: set(v) for f, v in (hits or {}).items()}
    tab = {}
    unclassified = []
    n_reached = n_excl = n_pub = 0
    br_tot = br_hit = br_err = br_err_hit = br_excl = 0
    unreached_branches, excluded_branches = [], []
    for name, it in sorted(items.items()):
        h = hit.get(it['file'], set())
        lines = it['lines']
        got = lines & h
        reached = bool(got) or not lines
        row = {'reached': reached, 'lines': '%d/%d' % (len(got), len(lines))}
        short = name.split('.')[-1]
        excl = EXCLUDED.get(name, EXCLUDED_METHOD_NAMES.get(short))
        if name in EXCLUDED or short in EXCLUDED_METHOD_NAMES:
            row['excluded'] = excl or 'private helper'
        bs = []
        for head, kind, first, is_err, cond in it['branches']:
            ok = first in h
            if is_err:
                br_err += 1
                br_err_hit += ok
            else:
                br_tot += 1
                br_hit += ok
                if not ok and reached and 'excluded' not in row:
                    if (name, cond) in EXCLUDED_BRANCHES:
                        br_excl += 1
                        excluded_branches.append('%s: %s  [%s]' % (name, cond, EXCLUDED_BRANCHES[(name, cond)] or
                                                                  'approximate export with cutoff > 0 (finite systems are exported with cutoff = 0)'))
                    else:
                        bs.append('%s' % cond)
                        unreached_branches.append('%s: %s' % (name, cond))
        if bs:
            row['unreached_branches'] = bs
        if it['public']:
            n_pub += 1
            if 'excluded' in row and not reached:
                n_excl += 1
            elif reached:
                n_reached += 1
            else:
                unclassified.append(name)
        tab[name] = row
    summary = {'public_items': n_pub, 'reached': n_reached, 'excluded_not_reached': n_excl, 'unclassified_unreached': len(unclassified),
               'branches_reached': '%d/%d' % (br_hit, br_tot), 'branches_excluded': br_excl,
               'error_branches_reached': '%d/%d (raise / assert False / return NotImplemented branches: invalid inputs)' % (br_err_hit, br_err),
               'unreached_branches': unreached_branches, 'excluded_branches': excluded_branches}
    return tab, unclassified, summary
