"""C02 - depth of the coverage: WHICH input classes reach the invariant oracle through which operation, and invariants beyond
npc_gen.check_array_invariants / check_leg_invariants (internal maps of LegPipe, documented storage types, second accessors).

Runner side (fresh interpreter; numpy + tenpy):
  classes_of_array / classes_of_leg   input classes of the operands of one operation (statistics `in:<item>|<class>`)
  deep_array / deep_leg / deep_pipe   additional invariants (independent recomputation from the class doc strings of charges.LegPipe / LegCharge
                                      and doc/intro/npc.rst), applied to every object the base oracle is applied to
  DepthRunner                         npc_gen.ProgramRunner + the two things above + single precision tensors in the histories
Harness side (numpy only): CLASSES, class_table, required-class guard.
"""
import random

import numpy as np

import npc_gen as G

QT = G.QT

LEG_CLASSES = ('leg:sorted+blocked', 'leg:blocked-not-sorted', 'leg:bunched-not-blocked', 'leg:not-bunched', 'leg:empty-block', 'leg:no-index',
               'leg:qconj=-1', 'leg:pipe')
CH_CLASSES = ('ch:none', 'ch:U1', 'ch:Z2', 'ch:ZN>2', 'ch:multi', 'ch:multi:U1+ZN>2')
ARR_CLASSES = ('arr:no-blocks', 'arr:shares-data', 'arr:qtotal!=0', 'arr:qdata-unsorted', 'arr:unlabeled',
               'arr:dt=int64', 'arr:dt=float32', 'arr:dt=float64', 'arr:dt=complex64', 'arr:dt=complex128')
CLASSES = LEG_CLASSES + CH_CLASSES + ARR_CLASSES
# classes every frequently executed operation must have seen at least once (operands or, for creating operations, results)
CORE_CLASSES = ('leg:sorted+blocked', 'leg:not-bunched', 'leg:qconj=-1', 'ch:multi', 'ch:ZN>2', 'arr:qtotal!=0')
NOT_APPLICABLE = {('construct.diag', 'arr:qtotal!=0'), ('construct.eye_like', 'arr:qtotal!=0')}     # documented total charge 0
NOT_APPLICABLE_PREFIX = ()


def chinfo_classes(mods):
    mods = [int(m) for m in mods]
    if not mods:
        return ['ch:none']
    if len(mods) == 1:
        return ['ch:U1' if mods[0] == 1 else 'ch:Z2' if mods[0] == 2 else 'ch:ZN>2']
    out = ['ch:multi']
    if 1 in mods and any(m > 2 for m in mods):
        out.append('ch:multi:U1+ZN>2')
    return out


def classes_of_leg(l):
    ch = np.asarray(l.charges)
    sl = np.asarray(l.slices)
    out = set()
    nb = len(sl) - 1
    rows = [tuple(r) for r in ch.tolist()]
    blocked = len(set(rows)) == nb
    srt, bun = G.rows_sorted(ch), G.rows_bunched(ch)
    if blocked and srt:
        out.add('leg:sorted+blocked')
    elif blocked:
        out.add('leg:blocked-not-sorted')
    elif bun:
        out.add('leg:bunched-not-blocked')
    if not bun:
        out.add('leg:not-bunched')
    if nb and np.any(np.diff(sl) == 0):
        out.add('leg:empty-block')
    if int(sl[-1]) == 0:
        out.add('leg:no-index')
    if l.qconj == -1:
        out.add('leg:qconj=-1')
    if getattr(l, 'legs', None) is not None:
        out.add('leg:pipe')
    return out


def classes_of_array(x, others=()):
    out = set()
    for l in x.legs:
        out |= classes_of_leg(l)
    out.update(chinfo_classes(x.chinfo.mod))
    if len(x._data) == 0:
        out.add('arr:no-blocks')
    elif not G.rows_sorted(np.asarray(x._qdata)):
        out.add('arr:qdata-unsorted')
    if np.any(np.asarray(x.qtotal) != 0):
        out.add('arr:qtotal!=0')
    if all(l is None for l in x._labels):
        out.add('arr:unlabeled')
    out.add('arr:dt=%s' % x.dtype)
    ids = {id(b) for b in x._data}
    for y in others:
        if y is x:
            continue
        if y._data is x._data or y._qdata is x._qdata or (ids and any(id(b) in ids for b in y._data)):
            out.add('arr:shares-data')
            break
    return out


# ---------------------------------------------------------------------------------------------------------------------
# additional invariants
# ---------------------------------------------------------------------------------------------------------------------

_pipe_cache = {}


def deep_pipe(p, mods, where='pipe', full=True):
    """internal maps of a LegPipe against the class doc string: q_map rows [b_j, b_{j+1}, I_s, i_1..i_n] (one row per combination of incoming
    blocks, lex-sorted by I_s then i), q_map_slices, _perm / _strides, charge fusion rule, map_incoming_flat as a second accessor"""
    key = id(p)
    fp = (id(p.q_map), np.asarray(p.charges).tobytes(), np.asarray(p.slices).tobytes(), p.qconj, tuple(id(l) for l in p.legs),
          tuple((np.asarray(l.charges).tobytes(), np.asarray(l.slices).tobytes(), l.qconj) for l in p.legs))
    hit = _pipe_cache.get(key)
    if hit is not None and hit[0] is p and hit[1] == fp:
        return list(hit[2])
    bad = _deep_pipe(p, mods, where, full)
    if len(_pipe_cache) > 4000:
        _pipe_cache.clear()
    _pipe_cache[key] = (p, fp, tuple(bad))
    return bad


def _deep_pipe(p, mods, where, full):
    bad = []
    legs = list(p.legs)
    nl = len(legs)
    q = len(mods)
    if p.nlegs != nl:
        return [('pipe-nlegs', '%s: nlegs %r but %d incoming legs' % (where, p.nlegs, nl))]
    qm = p.q_map
    nb_in = [len(l.slices) - 1 for l in legs]
    N = int(np.prod(nb_in))
    if not isinstance(qm, np.ndarray) or qm.ndim != 2 or qm.shape != (N, 3 + nl) or qm.dtype != np.intp:
        return [('pipe-q_map-shape', '%s: q_map %r %r for incoming block numbers %s' % (where, getattr(qm, 'shape', None), getattr(qm, 'dtype', None), nb_in))]
    sl = np.asarray(p.slices)
    nb = len(sl) - 1
    ch = np.asarray(p.charges).reshape(nb, q)
    if N == 0:
        return bad
    inc = qm[:, 3:]
    if np.any(inc < 0) or np.any(inc >= np.array(nb_in)[None, :]) or len({tuple(r) for r in inc.tolist()}) != N:
        return [('pipe-q_map-combinations', '%s: the rows of q_map do not list every combination of incoming blocks exactly once: %s' % (where, inc.tolist()))]
    Is = qm[:, 2]
    if np.any(Is < 0) or np.any(Is >= nb):
        return [('pipe-q_map-qindex', '%s: q_map[:, 2] = %s outside range(%d)' % (where, Is.tolist(), nb))]
    want = np.ones(N, dtype=np.int64)
    tot = np.zeros((N, q), dtype=QT)
    for k, l in enumerate(legs):
        want = want * np.diff(np.asarray(l.slices))[inc[:, k]]
        tot = tot + np.asarray(l.charges).reshape(nb_in[k], q)[inc[:, k]] * l.qconj
    if not np.array_equal(qm[:, 1] - qm[:, 0], want):
        bad.append(('pipe-q_map-sizes', '%s: b_{j+1} - b_j = %s, product of the incoming block sizes %s' % (where, (qm[:, 1] - qm[:, 0]).tolist(), want.tolist())))
    if q and not np.array_equal(G.mv(mods, tot), G.mv(mods, ch[Is] * p.qconj)):
        bad.append(('pipe-fusion-rule', '%s: charges[I_s]*qconj != sum of the incoming charges*qconj for some row of q_map' % where))
    qms = np.asarray(p.q_map_slices)
    if qms.shape != (nb + 1,) or qms[0] != 0 or qms[-1] != N or np.any(np.diff(qms) < 0):
        bad.append(('pipe-q_map_slices', '%s: q_map_slices %s for %d rows, %d blocks' % (where, qms.tolist(), N, nb)))
    else:
        for I in range(nb):
            rows = qm[qms[I]:qms[I + 1]]
            if np.any(rows[:, 2] != I):
                bad.append(('pipe-q_map_slices', '%s: rows %d:%d of q_map do not all have I_s == %d' % (where, qms[I], qms[I + 1], I)))
                break
            size = int(sl[I + 1] - sl[I])
            starts = np.concatenate([[0], rows[:-1, 1]]) if len(rows) else np.zeros(0, dtype=np.intp)
            if len(rows) and (not np.array_equal(rows[:, 0], starts) or rows[-1, 1] != size):
                bad.append(('pipe-q_map-tiling', '%s: the slices %s of block %d do not tile range(%d)' % (where, rows[:, :2].tolist(), I, size)))
                break
            if not len(rows) and size:
                bad.append(('pipe-q_map-tiling', '%s: block %d of size %d has no row in q_map' % (where, I, size)))
                break
    keyrows = qm[:, 2:]
    krows = [tuple(r) for r in keyrows.tolist()]
    if krows != sorted(krows):
        bad.append(('pipe-q_map-order', '%s: rows of q_map are not lex-sorted by (I_s, i_1, ...): %s' % (where, keyrows.tolist())))
    st = np.asarray(p._strides)
    if st.shape != (nl,):
        bad.append(('pipe-strides', '%s: _strides %s' % (where, st.tolist())))
    else:
        j = np.sum(inc * st[None, :], axis=1)
        try:
            jj = j if p._perm is None else np.asarray(p._perm)[j]
            if not np.array_equal(jj, np.arange(N)):
                bad.append(('pipe-perm-strides', '%s: _perm[sum(i * _strides)] is not the row index of q_map' % where))
        except IndexError:
            bad.append(('pipe-perm-strides', '%s: _perm / _strides out of range' % where))
    if bad or not full:
        return bad
    # second accessor: map_incoming_flat (flat incoming indices -> index of the pipe)
    n_in = [int(np.asarray(l.slices)[-1]) for l in legs]
    total = int(np.prod(n_in))
    if total == 0 or total != int(sl[-1]):
        return bad
    qf_in = [np.asarray(l.to_qflat()).reshape(n, q) * l.qconj for l, n in zip(legs, n_in)]
    qf_out = np.asarray(p.to_qflat()).reshape(total, q) * p.qconj
    if total <= 48:
        idxs = list(np.ndindex(*n_in))
    else:
        r = random.Random(total * 7919 + nl)
        idxs = [tuple(r.randrange(n) for n in n_in) for _ in range(24)]
    seen = set()
    for idx in idxs:
        try:
            out = int(p.map_incoming_flat(list(idx)))
        except Exception as e:
            bad.append(('pipe-map_incoming_flat', '%s: map_incoming_flat(%s) raises %s: %s' % (where, list(idx), type(e).__name__, str(e)[:80])))
            break
        if not 0 <= out < total:
            bad.append(('pipe-map_incoming_flat', '%s: map_incoming_flat(%s) = %d outside the pipe' % (where, list(idx), out)))
            break
        if q and not np.array_equal(G.mv(mods, qf_out[out]), G.mv(mods, sum(qf_in[k][i] for k, i in enumerate(idx)))):
            bad.append(('pipe-map_incoming_flat', '%s: map_incoming_flat(%s) = %d carries charge %s, the incoming indices %s' % (
                where, list(idx), out, G.mv(mods, qf_out[out]).tolist(), G.mv(mods, sum(qf_in[k][i] for k, i in enumerate(idx))).tolist())))
            break
        seen.add(out)
    if not bad and total <= 48 and len(seen) != total:
        bad.append(('pipe-map_incoming_flat', '%s: map_incoming_flat is not a bijection onto range(ind_len)' % where))
    return bad


def deep_leg(leg, mods, where='leg'):
    """storage types documented in the class doc string of LegCharge + the maps of a LegPipe (recursively)"""
    bad = []
    sl, ch = leg.slices, leg.charges
    if not isinstance(sl, np.ndarray) or sl.dtype != np.intp:
        bad.append(('leg-slices-type', '%s: slices is %s %s (documented ndarray[np.intp])' % (where, type(sl).__name__, getattr(sl, 'dtype', None))))
    if not isinstance(ch, np.ndarray) or ch.dtype != QT:
        bad.append(('leg-charges-type', '%s: charges is %s %s (documented ndarray[QTYPE])' % (where, type(ch).__name__, getattr(ch, 'dtype', None))))
    if not isinstance(leg.sorted, (bool, np.bool_)) or not isinstance(leg.bunched, (bool, np.bool_)):
        bad.append(('leg-flag-type', '%s: sorted=%r bunched=%r' % (where, leg.sorted, leg.bunched)))
    if bad:
        return bad
    sub = getattr(leg, 'legs', None)
    if sub is not None:
        for i, l in enumerate(sub):
            bad.extend(deep_leg(l, mods, where + '.legs[%d]' % i))
        if not bad:
            bad.extend(deep_pipe(leg, mods, where))
    return bad


def deep_array(x, mods):
    bad = []
    qt = x.qtotal
    if not isinstance(qt, np.ndarray) or qt.dtype != QT:
        bad.append(('qtotal-type', 'qtotal is %s %s (documented 1D array of QTYPE)' % (type(qt).__name__, getattr(qt, 'dtype', None))))
    if not isinstance(x.dtype, np.dtype):
        bad.append(('dtype-type', 'dtype attribute is %r' % (x.dtype,)))
    if not isinstance(x._data, list):
        bad.append(('data-type', '_data is a %s (documented list of arrays)' % type(x._data).__name__))
    for b in x._data:
        if type(b) is not np.ndarray:
            bad.append(('block-type', 'a block is a %s' % type(b).__name__))
            break
    if not isinstance(x._qdata_sorted, (bool, np.bool_)):
        bad.append(('qdata_sorted-type', '_qdata_sorted = %r' % (x._qdata_sorted,)))
    if not isinstance(x.legs, list):
        bad.append(('legs-type', 'legs is a %s (documented list)' % type(x.legs).__name__))
    if not isinstance(x._labels, list):
        bad.append(('labels-type', '_labels is a %s' % type(x._labels).__name__))
    for i, l in enumerate(x.legs):
        if l.chinfo is not x.chinfo and l.chinfo != x.chinfo:
            bad.append(('leg-chinfo', 'legs[%d].chinfo differs from the chinfo of the array' % i))
        bad.extend(deep_leg(l, mods, 'legs[%d]' % i))
    return bad


# ---------------------------------------------------------------------------------------------------------------------
# program runner with depth statistics
# ---------------------------------------------------------------------------------------------------------------------

class DepthRunner(G.ProgramRunner):
    """the tensor programs of npc_gen with (1) the input classes of the operands of every step recorded, (2) the additional invariants applied
    wherever the base oracle is applied, (3) program key 'single_p': probability that a real initial tensor / an astype target is single
    precision (float32 / complex64; drawn from a side generator so that the sequence of operations is the one of the same program without the key)"""

    def __init__(self, prog, config):
        super().__init__(prog, config)
        self.single_p = float(prog.get('single_p', 0.0))
        self.side = random.Random(prog['seed'] ^ 0x3c6ef372)

    def gen_step(self):
        o = super().gen_step()
        if self.single_p and o is not None and 'malformed' not in o:
            u = self.side.random()
            pick = self.side.choice(['float32', 'float32', 'complex64'])
            if o['op'] == 'init' and o.get('dtype') == 'float64' and u < self.single_p:
                o['dtype'] = pick
            elif o['op'] == 'storage' and str(o.get('kind', '')).startswith('astype') and u < self.single_p:
                src = self.env.slots[o['a']]
                if o.get('dtype') == 'complex128':
                    o['dtype'] = 'complex64'
                elif o.get('dtype') == 'float64' and src is not None and src.impl.dtype.kind != 'c':
                    o['dtype'] = 'float32'
        return o

    def operand_slots(self, o):
        idx = []
        for k in ('a', 'b'):
            if isinstance(o.get(k), int):
                idx.append(o[k])
        idx.extend(i for i in (o.get('arrays') or []) if isinstance(i, int))
        if 'grid' in o:
            for row in o['grid']:
                idx.extend([g for g in (row if isinstance(row, list) else [row]) if isinstance(g, int)])
        return [i for i in idx if 0 <= i < len(self.env.slots) and self.env.slots[i] is not None]

    def do_step(self, o):
        opname = o['op'] + ('.' + o['kind'] if 'kind' in o and o['op'] in ('add', 'scale', 'storage', 'labels', 'charges', 'construct') else '')
        if o.get('inplace') and o['op'] in ('transpose', 'conj', 'scale_axis'):
            opname = 'i' + o['op']
        if o['op'] == 'getitem' and o.get('take_slice'):
            opname = 'take_slice'
        self._item = opname
        classes = set()
        ops = self.operand_slots(o)
        if 'malformed' not in o:
            live = [s.impl for s in self.env.slots if s is not None]
            try:
                for i in ops:
                    classes |= classes_of_array(self.env.slots[i].impl, live)
            except Exception:
                pass
        before = len(self.env.slots)
        super().do_step(o)
        if 'malformed' not in o:
            if not ops:        # creation: the classes of what was created
                try:
                    for s in self.env.slots[before:]:
                        if s is not None:
                            classes |= classes_of_array(s.impl)
                except Exception:
                    pass
            for c in classes:
                self.stat('in:%s|%s' % (opname, c))

    def check_invariants(self, slot_idx, opname, cond, mods=None, obj=None, role=''):
        ok = super().check_invariants(slot_idx, opname, cond, mods=mods, obj=obj, role=role)
        x = obj if obj is not None else self.env.slots[slot_idx].impl
        try:
            bad = deep_array(x, mods if mods is not None else self.env.mods)
        except Exception as e:
            bad = [('deep-invariant-check-raises', '%s: %s' % (type(e).__name__, str(e)[:120]))]
        seen = set()
        for kind, text in bad:
            if kind in seen:
                continue
            seen.add(kind)
            self.fail('C02', opname, role.strip('+') if role else cond, kind, text)
        return ok and not bad


def run_leg_program(prog, config):
    """npc_gen.run_leg_program with the additional invariants applied to every leg its oracle is applied to"""
    base = G.check_leg_invariants

    def chk(leg, mods, where='leg'):
        bad = base(leg, mods, where)
        try:
            bad = bad + deep_leg(leg, mods, where)
        except Exception as e:
            bad = bad + [('deep-invariant-check-raises', '%s: %s' % (type(e).__name__, str(e)[:120]))]
        return bad
    G.check_leg_invariants = chk
    try:
        res = G.run_leg_program(prog, config)
    finally:
        G.check_leg_invariants = base
    res['stats']['nontrivial'] = 1
    return res


# ---------------------------------------------------------------------------------------------------------------------
# harness side
# ---------------------------------------------------------------------------------------------------------------------

def class_table(hists):
    """{item: {class: count}} from the `in:<item>|<class>` statistics of the streams"""
    table = {}
    for hist in hists:
        for k, v in hist.items():
            if k.startswith('in:'):
                item, cls = k[3:].split('|', 1)
                d = table.setdefault(item, {})
                d[cls] = d.get(cls, 0) + v
    return table
