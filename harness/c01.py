"""C01 - block-sparse tensor algebra agrees with dense numpy algebra.

proof gate (coq/Props/C01.v) + random programs over the public operations of np_conserved (harness/npc_gen.py),
run in both configurations ('py' pure Python, 'cy' rebuilt extension); after EVERY step the result is compared
with the same numpy operation on the dense forms (labels, qtotal, per-leg (ind_len, qconj, qflat) as documented);
the operations covered by coq/Model/TensorOps.v (and the block values of tensordot, coq/Model/TensorDot.v) are additionally
executed by the Coq model (vm_compute) on the recorded storage of the operands and compared with what the implementation returned.
"""
import json
import os

import common
import c01_common as cc
import npc_gen

PROP = 'C01'
P_CHAIN = 0.8
COQ_IMPORTS = ['Base.Prelude', 'Model.Charge', 'Model.Tensor', 'Model.TensorOps', 'Model.TensorCheck', 'Model.TensorDot', 'Model.TensorDotCheck']


def replay(ctx, prop):
    doc = json.load(open(ctx.replay_in))
    case = doc['input']
    kind = case.get('stream', 'programs')
    res, infos, crashes = cc.run_programs(kind, [case['program']], case['config'], case.get('optimize0', False), nchunks=1)
    cc.collect(ctx, prop, 'replay', [case['program']], res, crashes, case['config'], case.get('optimize0', False), kind)
    for f in res[0]['fails']:
        print('  step %s  %s  %s' % (f['step'], f['key'], f['what'][:300]))
    return ctx.finish('replay of one recorded program')


def coq_stream(ctx, prop, results, programs, checker, max_cases):
    cases, origin = [], []
    for pi, res in enumerate(results):
        for rec in res.get('coq', []):
            if len(cases) >= max_cases:
                break
            try:
                lit = cc.coq_case(rec)
            except Exception as e:      # a literal that cannot be built is a harness problem
                ctx.fail('correspondence', 'cannot build Coq literal: %r' % (e,), None)
                lit = None
            if lit is not None:
                cases.append('(%s : case)' % lit)
                origin.append((pi, rec['op']))
    if not cases or not os.path.exists(os.path.join(common.VERIF, 'coq', 'Model', 'TensorCheck.v')):
        return 0, {}
    bad, err = common.coq_failing_indices('cases_%s' % prop.lower(), COQ_IMPORTS, checker, cases, shard=150)
    if err:
        ctx.fail('correspondence', 'model evaluation failed: ' + err[-800:], None)
    per_op = {}
    for _, opn in origin:
        per_op[opn] = per_op.get(opn, 0) + 1
    for b in bad[:5]:
        pi, opn = origin[b]
        ctx.fail('correspondence', 'Coq model (%s) and implementation disagree on operation %s' % (checker, opn),
                 {'stream': 'coq', 'program': programs[pi], 'coq_case': cases[b][:3000]})
    for _ in cases:
        ctx.count('model-vs-impl', len(ctx._distinct), nontrivial=False)
    return len(cases), per_op


def gen_label(rng, depth=0):
    if depth >= 3 or rng.random() < 0.6:
        base = rng.choice(['a', 'b', 'vL', 'vR', 'p', 'w0', 'x', '?0', '?3', '?12'])
        if rng.random() < 0.3 and not base.startswith('?'):
            base += '*'
        return base
    return '(' + '.'.join(gen_label(rng, depth + 1) for _ in range(rng.randint(1, 3))) + ')'


def label_stream(ctx, rng, n):
    """Array._combine_leg_labels / _split_leg_label / _conj_leg_label against Model/Labels.v (+ oracle: documented round trips)"""
    cases = [{'labels': [gen_label(rng) for _ in range(rng.randint(1, 4))]} for _ in range(n)]
    for c in cases:
        if rng.random() < 0.1:
            c['count'] = len(c['labels']) + rng.choice([-1, 1])
    res, infos, crashes = cc.run_programs('labels', cases, 'py', False, nchunks=1)
    lits = []
    for c, r in zip(cases, res):
        ls = c['labels']
        cnt = c.get('count', len(ls))
        ctx.count('labels', ls, nontrivial=any('(' in l for l in ls), sample={'labels': ls, 'combined': r.get('combined')})
        if 'combined' not in r:
            ctx.fail('correspondence', 'label runner failed: %s' % (r,), {'stream': 'labels', 'case': c})
            continue
        # oracle: documented behaviour
        want = [None if l.startswith('?') else l for l in ls]
        if cnt == len(ls) and r['split'] != want:
            ctx.fail('oracle', '_split_leg_label(_combine_leg_labels(%r)) = %r, documented %r' % (ls, r['split'], want),
                     {'stream': 'labels', 'case': c}, match_key='C01:_split_leg_label:roundtrip')
        if cnt != len(ls) and r['split'] != 'ValueError':
            ctx.fail('oracle', '_split_leg_label with wrong count %d accepted: %r' % (cnt, r['split']), {'stream': 'labels', 'case': c},
                     match_key='C01:_split_leg_label:wrong-count-accepted')
        if r['conj_conj'] != ls:
            ctx.fail('oracle', '_conj_leg_label is not an involution on %r: %r' % (ls, r['conj_conj']), {'stream': 'labels', 'case': c},
                     match_key='C01:_conj_leg_label:involution')
        spl = None if r['split'] == 'ValueError' else common.Some([common.opt(x) for x in r['split']])
        lits.append('(%s : label_case)' % common.coq_lit((ls, cnt, r['combined'], spl, r['conj'], r['conj_combined'])))
    bad, err = common.coq_failing_indices('cases_c01_labels', ['Base.Prelude', 'Model.Labels', 'Model.LabelsCheck'], 'check_label_case', lits, shard=400)
    if err:
        ctx.fail('correspondence', 'label model evaluation failed: ' + err[-600:], None)
    for b in bad[:5]:
        ctx.fail('correspondence', 'Model/Labels.v and the label functions of np_conserved disagree', {'stream': 'labels', 'case': cases[b], 'impl': res[b]})
    return len(lits)


# focused programs of the stream `assign`: mostly item / slice assignment (npc Array, ndarray and scalar values) on tensors with many
# missing blocks, interleaved with the operations that read the result (getitem, gauge_total_charge, storage operations; all others rarely)
ASSIGN_WEIGHTS = {'setitem': 14.0, 'getitem': 2.0, 'gauge_total_charge': 2.0, 'storage': 1.0, '*': 0.15}
ASSIGN_P_MISSING = [0.25, 0.4, 0.6]
ASSIGN_CLASSES = ('value-fewer-blocks', 'value-same-count', 'value-more-blocks')


def assign_stream(ctx, rng, n, seen, all_hist):
    """`a[inds] = value` with an npc Array value whose stored blocks are chosen independently of the blocks a[inds] stores (value stores blocks
    a[inds] lacks, lacks blocks a[inds] stores, same count at other positions, none, all; zero blocks stored or not; blocks in shuffled order),
    for slices / masks / index arrays / mixed integer indices, compared with the numpy assignment on the dense forms; several assignments to the
    same tensor in a row, so that the block pattern of `a` is itself the result of earlier assignments"""
    progs = [npc_gen.make_program(rng, ctx.tier, record_coq=0, keep_flagged=True, rich=(i % 2 == 1), sparse_values=True, strict_alias=True,
                                  op_weights=ASSIGN_WEIGHTS, p_missing=ASSIGN_P_MISSING) for i in range(n)]
    for p in progs:
        p['nsteps'] += 3
    cov = {}
    for config in ('py', 'cy'):
        results, infos, crashes = cc.run_programs('programs', progs, config, False)
        hist, notes = cc.collect(ctx, PROP, 'assign-' + config, progs, results, crashes, config, False, seen_keys=seen)
        all_hist['assign-' + config] = {k: v for k, v in sorted(hist.items())}
        pre = 'setitem-npc:part-stores-block-the-value-lacks:'
        cov[config] = {'programs': len(progs), 'setitem': hist.get('op:setitem', 0), 'npc_values': hist.get('setitem-npc', 0),
                       'with_mask_or_index_array': hist.get('setitem-npc:mask-or-index-array', 0),
                       'value_stores_block_the_part_lacks': hist.get('setitem-npc:value-stores-block-the-part-lacks', 0),
                       'value_without_blocks': hist.get('setitem-npc:value-without-blocks', 0),
                       'part_stores_block_the_value_lacks': {c: hist.get(pre + c, 0) for c in ASSIGN_CLASSES}}
        d = cov[config]['part_stores_block_the_value_lacks']
        if ctx.tier == 'quick' and n >= 800 and (d['value-same-count'] + d['value-more-blocks'] < 8 or d['value-fewer-blocks'] < 20):
            ctx.fail('correspondence', 'the assignment stream reached too few assignments where a[inds] stores a block that the value does not '
                     'store: %s (%s)' % (d, config), None)
    ctx.cov['assignment'] = cov


# ---------------------------------------------------------------------------------------------
# coverage audit: stream `ext` (operations / options of harness/c01_ext.py) and the coverage tables
# ---------------------------------------------------------------------------------------------
EXT_WEIGHTS = {'*': 0.7, 'norm': 2.5, 'unary': 2.0, 'blockwise': 2.5, 'matvec': 1.5, 'eq': 1.0, 'get_block': 1.5, 'apply_charge_mapping': 1.5, 'add_charge': 1.5,
               'construct2': 4.0, 'grid_pieces': 2.0, 'nested_pipes': 2.0, 'combine_split': 3.0, 'charges': 2.0, 'storage': 3.0, 'construct': 3.0, 'grid_outer': 2.0, 'grid_concat': 1.5, 'squeeze': 2.0,
               'sort_legcharge': 2.5, 'combine_legs': 5.0, 'split_legs': 5.0, 'getitem': 5.0, 'setitem': 4.0}
EXT_P_MISSING = [0.0, 0.25, 0.25, 0.6, 1.0]      # 1.0: tensors without any stored block as operands

# public names of np_conserved outside the property (reason from the property text: C01 speaks about the tensor ALGEBRA and its dense values)
API_EXCLUDED = {
    'svd': 'matrix factorization: C05', 'qr': 'matrix factorization: C05', 'lq': 'matrix factorization: C05', 'polar': 'matrix factorization: C05',
    'pinv': 'built on svd: C05', 'eigh': 'eigen decomposition: C05', 'eig': 'eigen decomposition: C05', 'eigvalsh': 'eigen decomposition: C05',
    'eigvals': 'eigen decomposition: C05', 'speigs': 'sparse eigen decomposition: C05', 'expm': 'matrix function built on eigh/eig: C05',
    'orthogonal_columns': 'built on qr: C05', 'to_iterable_arrays': 'returns its argument (no tensor value)',
    'Array.save_hdf5': 'serialisation: C17', 'Array.from_hdf5': 'serialisation: C17',
    'Array.shift_charges': 'needs a DipolarChargeInfo; the property quantifies over none / U(1) / Z_N charges',
    'Array.shift_charges_horizontal': 'needs a DipolarChargeInfo; the property quantifies over none / U(1) / Z_N charges',
    'Array.sparse_stats': 'returns a string about the storage', 'Array.test_sanity': 'invariant check (C02); called on every tensor the programs create',
    'Array.is_completely_blocked': 'bool about the block structure of the legs, which is not an observable of C01 (C02)',
}
# names that ARE the observation of every comparison of a result with numpy
API_OBSERVERS = {'Array.to_ndarray': 'dense form of every result', 'Array.get_leg_labels': 'labels of every result'}
# optional parameters that are deliberately not varied
OPT_EXCLUDED = {
    ('detect_grid_outer_legcharge', 'bunch'): 'accepted but neither documented nor used by the function',
}
# functions of np_conserved.py outside the property (line coverage table): the excluded public names + their private workers
COV_EXCLUDED_FUNCS = ('svd', 'qr', 'lq', 'polar', 'pinv', 'eigh', 'eig', 'eigvalsh', 'eigvals', 'speigs', 'expm', 'orthogonal_columns', 'to_iterable_arrays', '_svd_worker',
                      '_eig_worker', '_eigvals_worker', '__pyx_unpickle_Array', 'Array.save_hdf5', 'Array.from_hdf5', 'Array.shift_charges', 'Array.shift_charges_horizontal',
                      'Array.sparse_stats', 'Array.__repr__', 'Array.__str__', 'Array._bunch', 'Array._perm_qind', 'Array.is_completely_blocked')


def ext_programs(rng, tier, n):
    return [npc_gen.make_program(rng, tier, record_coq=0, p_chain=0.6, keep_flagged=True, rich=(i % 2 == 1), sparse_values=True, strict_alias=True, ext=True, op_weights=EXT_WEIGHTS,
                                 p_missing=EXT_P_MISSING, leg_style='single-block' if i % 5 == 4 else None) for i in range(n)]


def ext_stream(ctx, rng, n, seen, all_hist):
    """programs with the key `ext` (see harness/c01_ext.py): the public operations / documented options the other streams do not reach, results over
    another ChargeInfo continued by further operations, second accessors; returns the statistics of the py configuration"""
    progs = ext_programs(rng, ctx.tier, n)
    for p in progs:
        p['nsteps'] += 2
    hists = {}
    for config in ('py', 'cy'):
        results, infos, crashes = cc.run_programs('programs', progs, config, False)
        hist, notes = cc.collect(ctx, PROP, 'ext-' + config, progs, results, crashes, config, False, seen_keys=seen)
        hists[config] = hist
        all_hist['ext-' + config] = {k: v for k, v in sorted(hist.items()) if not k.startswith(('api:', 'opt:'))}
    return hists


def coverage_tables(ctx, hists, cov_future):
    """item x option -> reached (count) / excluded (reason); a public name of np_conserved (function, Array method, operator) that is neither
    reached with a compared value nor classified is a correspondence failure, and so is a documented optional parameter that kept one value"""
    res, infos, crashes = cc.run_programs('c01reflect', [{'seed': 0}], 'py', False, nchunks=1)
    api = (res[0] or {}).get('api')
    if not api:
        ctx.fail('correspondence', 'reflection of the public names of np_conserved failed: %s' % (res[0],), None)
        return
    table, opt_table = {}, {}
    n_reached = n_excluded = n_opt = n_opt_excluded = 0
    for name in sorted(api):
        cnt = {cfg: h.get('api:' + name, 0) for cfg, h in hists.items()}
        if name in API_EXCLUDED:
            table[name] = 'excluded: ' + API_EXCLUDED[name]
            n_excluded += 1
            continue
        if name in API_OBSERVERS:
            table[name] = 'observer: ' + API_OBSERVERS[name]
            n_reached += 1
            continue
        if min(cnt.values()) <= 0:
            table[name] = 'NOT REACHED'
            ctx.fail('correspondence', 'coverage: the public name np_conserved.%s is neither reached by the ext stream (value compared with numpy) nor classified '
                     'in harness/c01.py' % name, None)
            continue
        table[name] = 'ext stream: %s calls' % '/'.join('%d %s' % (v, k) for k, v in sorted(cnt.items()))
        n_reached += 1
        for prm in api[name]:
            seen_cls = sorted(k.split('=', 1)[1] for k in hists['py'] if k.startswith('opt:%s:%s=' % (name, prm)))
            if (name, prm) in OPT_EXCLUDED:
                opt_table['%s(%s)' % (name, prm)] = 'excluded: ' + OPT_EXCLUDED[(name, prm)]
                n_opt_excluded += 1
            elif len(seen_cls) >= 2:
                opt_table['%s(%s)' % (name, prm)] = 'classes of values: ' + ', '.join(seen_cls[:12])
                n_opt += 1
            else:
                opt_table['%s(%s)' % (name, prm)] = 'NOT VARIED: %s' % seen_cls
                if ctx.tier != 'quick' or hists['py'].get('op:init', 0) >= 1200:
                    ctx.fail('correspondence', 'coverage: the documented optional parameter `%s` of np_conserved.%s kept one value in the ext stream (%s) and is not '
                             'classified in harness/c01.py' % (prm, name, seen_cls), None)
    # forms of arguments without a default (index forms, operand forms ...) that the ext stream distinguishes
    forms = {}
    for k, v in hists['py'].items():
        if k.startswith('opt:'):
            _, name, rest = k.split(':', 2)
            prm = rest.split('=', 1)[0]
            if prm not in api.get(name, []):
                forms.setdefault('%s(%s)' % (name, prm), {})[rest.split('=', 1)[1]] = v
    ctx.cov['api_coverage'] = {'names': table, 'optional_parameters': opt_table, 'argument_forms': forms,
                               'summary': {'public_names': len(api), 'reached': n_reached, 'excluded': n_excluded, 'optional_parameters_varied': n_opt,
                                           'optional_parameters_excluded': n_opt_excluded},
                               'continuation_on_results_over_another_ChargeInfo': {k: v for k, v in sorted(hists['py'].items()) if k.startswith(('follow:', 'follow-op:'))}}
    # line coverage of np_conserved.py for one representative chunk (py configuration)
    try:
        cres = cov_future.result()
    except Exception as e:      # noqa: BLE001
        cres = {'error': repr(e)}
    if not cres or 'functions' not in cres:
        ctx.notes.append('line coverage of np_conserved.py not measured: %s' % ((cres or {}).get('error'),))
        return
    fn = {k: v for k, v in cres['functions'].items() if not k.startswith(COV_EXCLUDED_FUNCS) and v['lines']}
    missed = {k: v['missed'] for k, v in fn.items() if v['missed']}

    def is_error_line(t):
        return t.startswith(('raise ', 'warnings.warn', 'assert ', 'msg = ', 'return NotImplemented')) or t in ('(', ')')
    value_missed = {k: [m for m in v if not is_error_line(m[1])] for k, v in missed.items()}
    value_missed = {k: v for k, v in value_missed.items() if v}
    ctx.cov['line_coverage_np_conserved'] = {
        'chunk': '%d programs (ext + default + assignment), py configuration, tracer %s' % (cres['programs'], cres.get('tracer')),
        'functions_in_scope': len(fn), 'functions_never_entered': sorted(k for k, v in fn.items() if len(v['missed']) == v['lines']),
        'statements': sum(v['lines'] for v in fn.values()), 'statements_missed': sum(len(v['missed']) for v in fn.values()),
        'missed_error_or_warning_statements': sum(len(v) for v in missed.values()) - sum(len(v) for v in value_missed.values()),
        'missed_other_statements': value_missed}
    never = [k for k in ctx.cov['line_coverage_np_conserved']['functions_never_entered'] if not k.split('.')[-1].startswith('_')]
    for k in never:
        ctx.fail('correspondence', 'coverage: the public function np_conserved.%s was never entered by the traced chunk and is not classified' % k, None)


def main(ctx):
    if ctx.replay_in:
        ctx.proof = None
        return replay(ctx, PROP)
    rng = ctx.rng
    t_start = __import__('time').time()
    ctx.proof = common.check_proofs(PROP, extra_targets=['Model/TensorCheck.vo', 'Model/LabelsCheck.vo', 'Model/TensorDotCheck.vo'])
    nprog = ctx.pick(1400, 12000)
    nleg = ctx.pick(1500, 10000)
    if not ctx.proof.ok:
        nprog *= 3              # intensified search when an obligation is broken
    corpus = [c['program'] for c in common.corpus_cases(PROP) if 'program' in c]
    # every second program over 'rich' legs (several charge blocks, few missing blocks); in all programs the result of an operation that
    # rebuilds / permutes the block table is, with probability P_CHAIN, immediately combined with a fresh partner tensor (different
    # block pattern) by add / sub / iadd_prefactor_other / (i)binary_blockwise / inner / tensordot; tensors whose dense form is right
    # but whose cached flags are wrong stay alive (keep_flagged) so that operations trusting the flag are compared with numpy
    # sparse_values: in all programs the value of `a[inds] = value` has a block sparsity of its own (see npc_gen.OpSetitem.sparsify)
    programs = corpus + [npc_gen.make_program(rng, ctx.tier, record_coq=2, p_chain=P_CHAIN, keep_flagged=True, rich=(i % 2 == 1), sparse_values=True, strict_alias=True)
                         for i in range(nprog)]
    seen = {}
    all_hist = {}
    coq_done = {}
    # line coverage of np_conserved.py under a tracer: one chunk in the background while the streams run
    from concurrent.futures import ThreadPoolExecutor
    cov_rng = __import__('random').Random(7919 * int(getattr(ctx, 'seed', 0) or 0) + 13)       # (does not draw from ctx.rng: the other streams keep their programs)
    cov_progs = ext_programs(cov_rng, ctx.tier, ctx.pick(800, 2000)) + \
        [npc_gen.make_program(cov_rng, ctx.tier, record_coq=0, p_chain=P_CHAIN, keep_flagged=True, rich=(i % 2 == 1), sparse_values=True, strict_alias=True) for i in range(ctx.pick(200, 500))] + \
        [npc_gen.make_program(cov_rng, ctx.tier, record_coq=0, keep_flagged=True, rich=(i % 2 == 1), sparse_values=True, strict_alias=True, op_weights=ASSIGN_WEIGHTS,
                              p_missing=ASSIGN_P_MISSING) for i in range(ctx.pick(100, 250))]
    cov_pool = ThreadPoolExecutor(max_workers=1)
    cov_future = cov_pool.submit(lambda: cc._run_chunk('c01cov', [{'seed': 0, 'programs': cov_progs}], 'py', False, 'cov')[0][0])
    for config in ('py', 'cy'):
        results, infos, crashes = cc.run_programs('programs', programs, config, False)
        if config == 'cy' and not all(i.get('have_cython') for i in infos if i):
            ctx.fail('correspondence', 'the rebuilt extension was not loaded in the cy configuration', None)
        hist, notes = cc.collect(ctx, PROP, 'programs-' + config, programs, results, crashes, config, False, seen_keys=seen)
        all_hist[config] = {k: v for k, v in sorted(hist.items())}
        if notes:
            ctx.notes.append('%s: observations outside C01 (not counted): %s' % (config, dict(sorted(notes.items())[:12])))
        n, per_op = coq_stream(ctx, PROP, results, programs, 'check_case_c01v', ctx.pick(700, 4000))
        coq_done[config] = {'cases': n, 'per_op': per_op}
    legprogs = [npc_gen.make_leg_program(rng) for _ in range(nleg)]
    results, infos, crashes = cc.run_programs('legs', legprogs, 'py', False)
    hist, notes = cc.collect(ctx, PROP, 'legs', legprogs, results, crashes, 'py', False, kind='legs', seen_keys=seen)
    all_hist['legs'] = hist
    nlab = label_stream(ctx, rng, ctx.pick(400, 3000))
    assign_stream(ctx, rng, ctx.pick(800, 6000) * (1 if ctx.proof.ok else 3), seen, all_hist)
    import time
    t_ext = time.time()
    ext_hists = ext_stream(ctx, rng, ctx.pick(1300, 9000) * (1 if ctx.proof.ok else 3), seen, all_hist)
    t_tab = time.time()
    coverage_tables(ctx, ext_hists, cov_future)
    cov_pool.shutdown(wait=False)
    ctx.cov['coverage_audit_wall_s'] = {'ext_stream': round(t_tab - t_ext, 1), 'tables_and_wait_for_traced_chunk': round(time.time() - t_tab, 1),
                                        'all_before': round(t_ext - t_start, 1)}
    ctx.cov['traces_validated_against_impl'] = sum(v['cases'] for v in coq_done.values()) + nlab
    ctx.cov['model_vs_impl'] = coq_done
    ctx.cov['input_distribution'] = all_hist
    # how often the result of a block-table-permuting operation was an operand of a binary operation (per configuration):
    #  chains = all such steps, order_sensitive = the permuted operand stored >= 2 blocks in non-lexsorted order and the other operand had a
    #  different block table, directed = chains produced on purpose (partner + binary step), by_permuting_op / by_binary_op = split of `chains`
    ctx.cov['permute_then_binary'] = {
        cfg: {'programs': len(programs),
              'chains': h.get('chain:permute-then-binary', 0),
              'order_sensitive': h.get('chain:permute-then-binary:order-sensitive', 0),
              'directed': {k.split(':', 1)[1]: v for k, v in h.items() if k.startswith('chain-directed:')},
              'by_permuting_op': {k.split(':', 1)[1]: v for k, v in h.items() if k.startswith('chain-perm:')},
              'by_binary_op': {k.split(':', 1)[1]: v for k, v in h.items() if k.startswith('chain-bin:')},
              'tensors_kept_alive_with_false_flag': h.get('kept-with-false-flag', 0)}
        for cfg, h in all_hist.items() if cfg in ('py', 'cy')}
    for cfg, d in ctx.cov['permute_then_binary'].items():
        ctx.notes.append('%s: permute-then-binary chains: %d in %d programs (%d order-sensitive); without directed chains the same generator gave '
                         'about 75 (7 order-sensitive) per 1400 programs' % (cfg, d['chains'], d['programs'], d['order_sensitive']))
        if d['chains'] < len(programs) // 2 and ctx.tier == 'quick':
            ctx.fail('correspondence', 'the program generator produced only %d permute-then-binary chains in %d programs (%s)' % (
                d['chains'], len(programs), cfg), None)
    ctx.assumptions += [
        'C01 oracle: numpy on dense arrays with small integer / Gaussian-integer entries (exact in float64); the documented index map of a LegPipe '
        '(C-order over incoming blocks, stable sort by charge, bunch) is re-implemented in harness/npc_gen.py',
        'C01 not generated: legs without any block (block_number == 0) and index selections that keep nothing; add_leg(axis=rank); dtype promotion is not compared',
        'C01 coverage audit: public names of np_conserved outside the property (coverage.api_coverage.names, reasons from the property text): matrix factorizations and functions '
        'built on them (C05), hdf5 (C17), shift_charges (DipolarChargeInfo), strings / storage statistics; split_legs(cutoff) is exercised with a cutoff below every non-zero entry '
        '(numpy has no such operation: a larger cutoff changes the dense form by design); from_func / from_func_square are called with functions of the block shape only (the order of '
        'the calls is not documented); ipurge_zeros cutoffs are half-integers on integer tensors (never equal to a block norm); the block structure of legs is not compared (C02)',
        'C01 Coq model covers transpose, conj, scalar multiplication, addition (sorted merge), outer and tensordot (rows, charges and dense values; not full contractions); all other operations are '
        'checked by the numpy oracle only',
    ]
    return ctx.finish(RULE, 'theorems of coq/Props/C01.v about the block-sparse model (Model/Tensor.v, TensorOps.v, Labels.v); model executed against both '
                      'configurations on recorded operand storage; numpy oracle after every step of random programs over the public operations')


RULE = ('random programs (2-3 initial tensors + 1-6 (quick) / 1-12 (thorough) operations over ~60 public operations; 0-3 charges, mod 1..5, both qconj, unsorted / '
        'duplicated / size-0 charge blocks, LegPipes, rank 1-4 (thorough 1-6), nonzero qtotal, missing and zero blocks, float/complex/int entries; ~10% malformed '
        'operations expecting an error class; every second program over legs with 2-4 charge blocks of >= 2 different charges; with probability 0.8 the '
        'result of an operation that rebuilds the block table is next combined with a fresh partner tensor by add / sub / iadd_prefactor_other / '
        '(i)binary_blockwise / inner / tensordot, statistics in coverage.permute_then_binary); the value of an assignment a[inds] = value stores its own '
        'selection of blocks (independent of the blocks a[inds] stores: more / fewer / the same number at other positions / none / all, zero blocks stored '
        'or not, shuffled order); stream `assign`: programs of mostly such assignments on tensors with 25-60% missing blocks (statistics in '
        'coverage.assignment); stream `ext` (harness/c01_ext.py): programs over the same operations with their full documented option spaces plus the public '
        'operations the other streams do not call (coverage.api_coverage: every public function of np_conserved / public method and operator of Array, by reflection, is reached '
        'with a compared value or excluded with a reason; every optional parameter takes >= 2 classes of values), every 5th program over legs of one block, tensors without stored '
        'blocks, results over another ChargeInfo continued by 1-3 further operations, second accessors of every result compared; line coverage of np_conserved.py for one traced '
        'chunk in coverage.line_coverage_np_conserved.  One case = one program; evaluations counts steps; a program is non-trivial when some step produced a tensor '
        'with a non-zero entry; distinct = distinct (seed, operation sequence).  Each program is run in the py and the cy configuration.')
