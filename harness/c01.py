"""C01 - block-sparse tensor algebra agrees with dense numpy algebra.

proof gate (coq/Props/C01.v) + random programs over the public operations of np_conserved (harness/npc_gen.py),
run in both configurations ('py' pure Python, 'cy' rebuilt extension); after EVERY step the result is compared
with the same numpy operation on the dense forms (labels, qtotal, per-leg (ind_len, qconj, qflat) as documented);
the operations covered by coq/Model/TensorOps.v (and the block values of tensordot, coq/Model/TensorDot.v) are additionally
executed by the Coq model (vm_compute) on the recorded storage of the operands and compared with what the implementation returned.
"""
import json
import os

import common
import c01_common as cc
import npc_gen

PROP = 'C01'
P_CHAIN = 0.8
COQ_IMPORTS = ['Base.Prelude', 'Model.Charge', 'Model.Tensor', 'Model.TensorOps', 'Model.TensorCheck', 'Model.TensorDot', 'Model.TensorDotCheck']


def replay(ctx, prop):
    doc = json.load(open(ctx.replay_in))
    case = doc['input']
    kind = case.get('stream', 'programs')
    res, infos, crashes = cc.run_programs(kind, [case['program']], case['config'], case.get('optimize0', False), nchunks=1)
    cc.collect(ctx, prop, 'replay', [case['program']], res, crashes, case['config'], case.get('optimize0', False), kind)
    for f in res[0]['fails']:
        print('  step %s  %s  %s' % (f['step'], f['key'], f['what'][:300]))
    return ctx.finish('replay of one recorded program')


def coq_stream(ctx, prop, results, programs, checker, max_cases):
    cases, origin = [], []
    for pi, res in enumerate(results):
        for rec in res.get('coq', []):
            if len(cases) >= max_cases:
                break
            try:
                lit = cc.coq_case(rec)
            except Exception as e:      # a literal that cannot be built is a harness problem
                ctx.fail('correspondence', 'cannot build Coq literal: %r' % (e,), None)
                lit = None
            if lit is not None:
                cases.append('(%s : case)' % lit)
                origin.append((pi, rec['op']))
    if not cases or not os.path.exists(os.path.join(common.VERIF, 'coq', 'Model', 'TensorCheck.v')):
        return 0, {}
    bad, err = common.coq_failing_indices('cases_%s' % prop.lower(), COQ_IMPORTS, checker, cases, shard=150)
    if err:
        ctx.fail('correspondence', 'model evaluation failed: ' + err[-800:], None)
    per_op = {}
    for _, opn in origin:
        per_op[opn] = per_op.get(opn, 0) + 1
    for b in bad[:5]:
        pi, opn = origin[b]
        ctx.fail('correspondence', 'Coq model (%s) and implementation disagree on operation %s' % (checker, opn),
                 {'stream': 'coq', 'program': programs[pi], 'coq_case': cases[b][:3000]})
    for _ in cases:
        ctx.count('model-vs-impl', len(ctx._distinct), nontrivial=False)
    return len(cases), per_op


def gen_label(rng, depth=0):
    if depth >= 3 or rng.random() < 0.6:
        base = rng.choice(['a', 'b', 'vL', 'vR', 'p', 'w0', 'x', '?0', '?3', '?12'])
        if rng.random() < 0.3 and not base.startswith('?'):
            base += '*'
        return base
    return '(' + '.'.join(gen_label(rng, depth + 1) for _ in range(rng.randint(1, 3))) + ')'


def label_stream(ctx, rng, n):
    """Array._combine_leg_labels / _split_leg_label / _conj_leg_label against Model/Labels.v (+ oracle: documented round trips)"""
    cases = [{'labels': [gen_label(rng) for _ in range(rng.randint(1, 4))]} for _ in range(n)]
    for c in cases:
        if rng.random() < 0.1:
            c['count'] = len(c['labels']) + rng.choice([-1, 1])
    res, infos, crashes = cc.run_programs('labels', cases, 'py', False, nchunks=1)
    lits = []
    for c, r in zip(cases, res):
        ls = c['labels']
        cnt = c.get('count', len(ls))
        ctx.count('labels', ls, nontrivial=any('(' in l for l in ls), sample={'labels': ls, 'combined': r.get('combined')})
        if 'combined' not in r:
            ctx.fail('correspondence', 'label runner failed: %s' % (r,), {'stream': 'labels', 'case': c})
            continue
        # oracle: documented behaviour
        want = [None if l.startswith('?') else l for l in ls]
        if cnt == len(ls) and r['split'] != want:
            ctx.fail('oracle', '_split_leg_label(_combine_leg_labels(%r)) = %r, documented %r' % (ls, r['split'], want),
                     {'stream': 'labels', 'case': c}, match_key='C01:_split_leg_label:roundtrip')
        if cnt != len(ls) and r['split'] != 'ValueError':
            ctx.fail('oracle', '_split_leg_label with wrong count %d accepted: %r' % (cnt, r['split']), {'stream': 'labels', 'case': c},
                     match_key='C01:_split_leg_label:wrong-count-accepted')
        if r['conj_conj'] != ls:
            ctx.fail('oracle', '_conj_leg_label is not an involution on %r: %r' % (ls, r['conj_conj']), {'stream': 'labels', 'case': c},
                     match_key='C01:_conj_leg_label:involution')
        spl = None if r['split'] == 'ValueError' else common.Some([common.opt(x) for x in r['split']])
        lits.append('(%s : label_case)' % common.coq_lit((ls, cnt, r['combined'], spl, r['conj'], r['conj_combined'])))
    bad, err = common.coq_failing_indices('cases_c01_labels', ['Base.Prelude', 'Model.Labels', 'Model.LabelsCheck'], 'check_label_case', lits, shard=400)
    if err:
        ctx.fail('correspondence', 'label model evaluation failed: ' + err[-600:], None)
    for b in bad[:5]:
        ctx.fail('correspondence', 'Model/Labels.v and the label functions of np_conserved disagree', {'stream': 'labels', 'case': cases[b], 'impl': res[b]})
    return len(lits)


# focused programs of the stream `assign`: mostly item / slice assignment (npc Array, ndarray and scalar values) on tensors with many
# missing blocks, interleaved with the operations that read the result (getitem, gauge_total_charge, storage operations; all others rarely)
ASSIGN_WEIGHTS = {'setitem': 14.0, 'getitem': 2.0, 'gauge_total_charge': 2.0, 'storage': 1.0, '*': 0.15}
ASSIGN_P_MISSING = [0.25, 0.4, 0.6]
ASSIGN_CLASSES = ('value-fewer-blocks', 'value-same-count', 'value-more-blocks')


def assign_stream(ctx, rng, n, seen, all_hist):
    """`a[inds] = value` with an npc Array value whose stored blocks are chosen independently of the blocks a[inds] stores (value stores blocks
    a[inds] lacks, lacks blocks a[inds] stores, same count at other positions, none, all; zero blocks stored or not; blocks in shuffled order),
    for slices / masks / index arrays / mixed integer indices, compared with the numpy assignment on the dense forms; several assignments to the
    same tensor in a row, so that the block pattern of `a` is itself the result of earlier assignments"""
    progs = [npc_gen.make_program(rng, ctx.tier, record_coq=0, keep_flagged=True, rich=(i % 2 == 1), sparse_values=True,
                                  op_weights=ASSIGN_WEIGHTS, p_missing=ASSIGN_P_MISSING) for i in range(n)]
    for p in progs:
        p['nsteps'] += 3
    cov = {}
    for config in ('py', 'cy'):
        results, infos, crashes = cc.run_programs('programs', progs, config, False)
        hist, notes = cc.collect(ctx, PROP, 'assign-' + config, progs, results, crashes, config, False, seen_keys=seen)
        all_hist['assign-' + config] = {k: v for k, v in sorted(hist.items())}
        pre = 'setitem-npc:part-stores-block-the-value-lacks:'
        cov[config] = {'programs': len(progs), 'setitem': hist.get('op:setitem', 0), 'npc_values': hist.get('setitem-npc', 0),
                       'with_mask_or_index_array': hist.get('setitem-npc:mask-or-index-array', 0),
                       'value_stores_block_the_part_lacks': hist.get('setitem-npc:value-stores-block-the-part-lacks', 0),
                       'value_without_blocks': hist.get('setitem-npc:value-without-blocks', 0),
                       'part_stores_block_the_value_lacks': {c: hist.get(pre + c, 0) for c in ASSIGN_CLASSES}}
        d = cov[config]['part_stores_block_the_value_lacks']
        if ctx.tier == 'quick' and n >= 800 and (d['value-same-count'] + d['value-more-blocks'] < 8 or d['value-fewer-blocks'] < 20):
            ctx.fail('correspondence', 'the assignment stream reached too few assignments where a[inds] stores a block that the value does not '
                     'store: %s (%s)' % (d, config), None)
    ctx.cov['assignment'] = cov


def main(ctx):
    if ctx.replay_in:
        ctx.proof = None
        return replay(ctx, PROP)
    rng = ctx.rng
    ctx.proof = common.check_proofs(PROP, extra_targets=['Model/TensorCheck.vo', 'Model/LabelsCheck.vo', 'Model/TensorDotCheck.vo'])
    nprog = ctx.pick(1400, 12000)
    nleg = ctx.pick(1500, 10000)
    if not ctx.proof.ok:
        nprog *= 3              # intensified search when an obligation is broken
    corpus = [c['program'] for c in common.corpus_cases(PROP) if 'program' in c]
    # every second program over 'rich' legs (several charge blocks, few missing blocks); in all programs the result of an operation that
    # rebuilds / permutes the block table is, with probability P_CHAIN, immediately combined with a fresh partner tensor (different
    # block pattern) by add / sub / iadd_prefactor_other / (i)binary_blockwise / inner / tensordot; tensors whose dense form is right
    # but whose cached flags are wrong stay alive (keep_flagged) so that operations trusting the flag are compared with numpy
    # sparse_values: in all programs the value of `a[inds] = value` has a block sparsity of its own (see npc_gen.OpSetitem.sparsify)
    programs = corpus + [npc_gen.make_program(rng, ctx.tier, record_coq=2, p_chain=P_CHAIN, keep_flagged=True, rich=(i % 2 == 1), sparse_values=True)
                         for i in range(nprog)]
    seen = {}
    all_hist = {}
    coq_done = {}
    for config in ('py', 'cy'):
        results, infos, crashes = cc.run_programs('programs', programs, config, False)
        if config == 'cy' and not all(i.get('have_cython') for i in infos if i):
            ctx.fail('correspondence', 'the rebuilt extension was not loaded in the cy configuration', None)
        hist, notes = cc.collect(ctx, PROP, 'programs-' + config, programs, results, crashes, config, False, seen_keys=seen)
        all_hist[config] = {k: v for k, v in sorted(hist.items())}
        if notes:
            ctx.notes.append('%s: observations outside C01 (not counted): %s' % (config, dict(sorted(notes.items())[:12])))
        n, per_op = coq_stream(ctx, PROP, results, programs, 'check_case_c01v', ctx.pick(700, 4000))
        coq_done[config] = {'cases': n, 'per_op': per_op}
    legprogs = [npc_gen.make_leg_program(rng) for _ in range(nleg)]
    results, infos, crashes = cc.run_programs('legs', legprogs, 'py', False)
    hist, notes = cc.collect(ctx, PROP, 'legs', legprogs, results, crashes, 'py', False, kind='legs', seen_keys=seen)
    all_hist['legs'] = hist
    nlab = label_stream(ctx, rng, ctx.pick(400, 3000))
    assign_stream(ctx, rng, ctx.pick(800, 6000) * (1 if ctx.proof.ok else 3), seen, all_hist)
    ctx.cov['traces_validated_against_impl'] = sum(v['cases'] for v in coq_done.values()) + nlab
    ctx.cov['model_vs_impl'] = coq_done
    ctx.cov['input_distribution'] = all_hist
    # how often the result of a block-table-permuting operation was an operand of a binary operation (per configuration):
    #  chains = all such steps, order_sensitive = the permuted operand stored >= 2 blocks in non-lexsorted order and the other operand had a
    #  different block table, directed = chains produced on purpose (partner + binary step), by_permuting_op / by_binary_op = split of `chains`
    ctx.cov['permute_then_binary'] = {
        cfg: {'programs': len(programs),
              'chains': h.get('chain:permute-then-binary', 0),
              'order_sensitive': h.get('chain:permute-then-binary:order-sensitive', 0),
              'directed': {k.split(':', 1)[1]: v for k, v in h.items() if k.startswith('chain-directed:')},
              'by_permuting_op': {k.split(':', 1)[1]: v for k, v in h.items() if k.startswith('chain-perm:')},
              'by_binary_op': {k.split(':', 1)[1]: v for k, v in h.items() if k.startswith('chain-bin:')},
              'tensors_kept_alive_with_false_flag': h.get('kept-with-false-flag', 0)}
        for cfg, h in all_hist.items() if cfg in ('py', 'cy')}
    for cfg, d in ctx.cov['permute_then_binary'].items():
        ctx.notes.append('%s: permute-then-binary chains: %d in %d programs (%d order-sensitive); without directed chains the same generator gave '
                         'about 75 (7 order-sensitive) per 1400 programs' % (cfg, d['chains'], d['programs'], d['order_sensitive']))
        if d['chains'] < len(programs) // 2 and ctx.tier == 'quick':
            ctx.fail('correspondence', 'the program generator produced only %d permute-then-binary chains in %d programs (%s)' % (
                d['chains'], len(programs), cfg), None)
    ctx.assumptions += [
        'C01 oracle: numpy on dense arrays with small integer / Gaussian-integer entries (exact in float64); the documented index map of a LegPipe '
        '(C-order over incoming blocks, stable sort by charge, bunch) is re-implemented in harness/npc_gen.py',
        'C01 not generated: legs without any block (block_number == 0) and index selections that keep nothing; add_leg(axis=rank); dtype promotion is not compared',
        'C01 Coq model covers transpose, conj, scalar multiplication, addition (sorted merge), outer and tensordot (rows, charges and dense values; not full contractions); all other operations are '
        'checked by the numpy oracle only',
    ]
    return ctx.finish(RULE, 'theorems of coq/Props/C01.v about the block-sparse model (Model/Tensor.v, TensorOps.v, Labels.v); model executed against both '
                      'configurations on recorded operand storage; numpy oracle after every step of random programs over the public operations')


RULE = ('random programs (2-3 initial tensors + 1-6 (quick) / 1-12 (thorough) operations over ~60 public operations; 0-3 charges, mod 1..5, both qconj, unsorted / '
        'duplicated / size-0 charge blocks, LegPipes, rank 1-4 (thorough 1-6), nonzero qtotal, missing and zero blocks, float/complex/int entries; ~10% malformed '
        'operations expecting an error class; every second program over legs with 2-4 charge blocks of >= 2 different charges; with probability 0.8 the '
        'result of an operation that rebuilds the block table is next combined with a fresh partner tensor by add / sub / iadd_prefactor_other / '
        '(i)binary_blockwise / inner / tensordot, statistics in coverage.permute_then_binary); the value of an assignment a[inds] = value stores its own '
        'selection of blocks (independent of the blocks a[inds] stores: more / fewer / the same number at other positions / none / all, zero blocks stored '
        'or not, shuffled order); stream `assign`: programs of mostly such assignments on tensors with 25-60% missing blocks (statistics in '
        'coverage.assignment).  One case = one program; evaluations counts steps; a program is non-trivial when some step produced a tensor '
        'with a non-zero entry; distinct = distinct (seed, operation sequence).  Each program is run in the py and the cy configuration.')
