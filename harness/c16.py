"""C16 - Krylov solvers return Ritz data of the operator they are given.

proof gate (coq/Props/C16.v)  +  correspondence: instrumented LanczosGroundState / LanczosEvolution runs
(which Krylov vector is cached / combined with which coefficient) and tools.misc.argsort  <->  Model/Krylov.v
(vm_compute)  +  oracle: dense eigh / eig / scipy expm of the same operators (written from the documentation).
"""
import numpy as np
import scipy.linalg

import common
import c16_gen as G
from common import coq_lit, Nat, CoqRaw

WHICH = ['LM', 'SM', 'LR', 'SR', 'LI', 'SI']
ALIASES = {'LM': ['LM', 'm>'], 'SM': ['SM', 'm<'], 'LR': ['LR', '>', 'LA'], 'SR': ['SR', '<', 'SA'], 'LI': ['LI'], 'SI': ['SI']}


# ------------------------------------------------------------------------------ generators
def gen_spec(rng, seed, herm=True, nmax=60):
    n = rng.choice([1, 2, 3, 4, 5, 6, 8, 10, 14, 20, 30, 45, 60])
    while n > nmax:
        n = rng.choice([1, 2, 3, 4, 5, 6, 8, 10, 14, 20])
    leg = G.random_leg_spec(rng, n)
    spectrum = rng.choice([None, None, 'degenerate', 'lowrank', 'integer', 'clustered']) if herm else \
        rng.choice([None, None, 'lowrank', 'normal'])
    # prefer the largest sector half of the time
    sizes = {}
    for i, (s, c) in enumerate(zip(leg['sizes'], leg['charges'])):
        sizes[tuple(c)] = sizes.get(tuple(c), 0) + s
    if rng.random() < 0.6:
        best = max(sizes.values())
        sector = [i for i, c in enumerate(leg['charges']) if sizes[tuple(c)] == best][0]
    else:
        sector = rng.randrange(len(leg['sizes']))
    spec = {'leg': leg, 'seed': seed, 'herm': herm, 'cplx': rng.random() < 0.5, 'spectrum': spectrum, 'sector': sector,
            'start': rng.choice(['random', 'random', 'random', 'few', 'basis']), 'few': rng.choice([1, 2, 3, 4]),
            'scale': rng.choice([1.0, 1.0, 0.01, 37.5])}
    return spec


def sector_dim(spec):
    return len(G.sector_indices(spec['leg'], spec['sector']))


def gen_lanczos(rng, seed, evo=False):
    spec = gen_spec(rng, seed)
    m = sector_dim(spec)
    N_max = rng.choice([2, 3, 4, 6, 8, 12, 20, 30, m, m + 1, m + 3, 70])
    N_min = rng.choice([2, 2, 2, 3, 5, min(N_max, max(2, m)), N_max])
    N_min = max(2, min(N_min, N_max, max(2, m)))
    N_max = max(N_max, N_min)
    opts = {'N_min': N_min, 'N_max': N_max,
            'N_cache': rng.choice([None, 2, 2, 3, 3, 4, 5, 7, N_max, N_max + 2]),
            'reortho': rng.random() < 0.4,
            'E_shift': rng.choice([None, None, -3.0, -20.0, 1.5, 8.0]),
            'cutoff': rng.choice([None, None, 1e-12, 1e-10]),
            'P_tol': rng.choice([None, None, 1e-20, 1e-10]),
            'E_tol': rng.choice([None, None, 1e-13])}
    case = {'kind': 'lanczos', 'spec': spec, 'opts': opts, 'wrap': rng.choice([None, None, 'shift', 'sum', 'ortho', 'ortho']),
            'wrap_shift': rng.choice([0.7, -4.0]), 'n_ortho': rng.choice([1, 2, 3]), 'ortho_dependent': rng.random() < 0.2,
            'twice': rng.random() < 0.5}
    if case['wrap'] == 'ortho' and m <= case['n_ortho']:
        case['wrap'] = None
    if evo:
        d = rng.choice([[0.0, -0.1], [0.0, 0.1], [0.0, 1.0], [0.0, -2.5], [0.1, 0.0], [-0.5, 0.0], [1.0, 0.0], [-0.05, -0.1], [0.3, 0.7]])
        case['evo'] = {'delta': d, 'normalize': rng.choice([None, None, True, False])}
        case['rerun'] = rng.choice([None, [0.0, 0.3], [-0.2, 0.0], [0.1, -0.4]])
        if case['spec']['scale'] != 1.0 and rng.random() < 0.5:
            case['spec']['scale'] = 1.0
        case['opts']['E_tol'] = None
        case['opts']['E_shift'] = rng.choice([None, None, -1.0, 0.5])
    return case


def gen_arnoldi(rng, seed, evo=False):
    herm = rng.random() < 0.3
    spec = gen_spec(rng, seed, herm=herm, nmax=30)
    spec['start'] = rng.choice(['random', 'random', 'basis'])
    m = sector_dim(spec)
    N_max = rng.choice([m, m, m + 2, 20, 30, 5, 3])
    N_max = max(2, N_max)
    which = rng.choice(WHICH)
    opts = {'N_min': rng.choice([2, 2, 3, max(2, min(m, N_max))]), 'N_max': N_max, 'which': rng.choice(ALIASES[which]),
            'num_ev': rng.choice([1, 1, 2, 3, 5]), 'E_shift': None, 'P_tol': rng.choice([None, 1e-20]),
            'cutoff': rng.choice([None, 1e-12])}
    opts['N_min'] = min(opts['N_min'], N_max)
    opts['num_ev'] = max(1, min(opts['num_ev'], N_max - 1))     # Arnoldi._converged needs num_ev < N_max
    if which in ('LR', 'SR') and rng.random() < 0.3:
        opts['E_shift'] = rng.choice([-2.0, 3.0])
    case = {'kind': 'arnoldi', 'spec': spec, 'opts': opts, 'which': which, 'wrap': rng.choice([None, None, 'sum', 'shift']),
            'wrap_shift': 0.7}
    if evo:
        opts.pop('which')
        opts.pop('num_ev')
        opts['E_shift'] = None
        case['evo'] = {'deltas': [rng.choice([[0.0, -0.1], [0.0, 0.5], [0.1, 0.0], [-0.05, -0.1], [-1.0, 0.0], [0.0, 2.0]]) for _ in range(3)],
                       'normalize': rng.choice([None, True, False])}
    return case


def gen_gmres(rng, seed):
    spec = gen_spec(rng, seed, herm=rng.random() < 0.3, nmax=30)
    spec['start'] = 'random'
    spec['scale'] = 1.0
    m = sector_dim(spec)
    return {'kind': 'gmres', 'spec': spec, 'diag_shift': rng.choice([3.0, 8.0, -9.0]) if spec['spectrum'] not in ('integer', 'degenerate')
            else rng.choice([8.5, -9.5]), 'x0_scale': rng.choice([0.0, 1.0]),
            'opts': {'N_min': rng.choice([None, 1, 2]), 'N_max': rng.choice([None, 3, 5, m, m + 1, 30]),
                     'restart': rng.choice([None, 1, 3]), 'res': rng.choice([None, 1e-6, 1e-12])}}


def gen_gs(rng, seed):
    spec = gen_spec(rng, seed, nmax=30)
    m = sector_dim(spec)
    count = rng.randint(1, min(6, m + 2))
    return {'kind': 'gs', 'spec': spec, 'count': count,
            'dependent': [[rng.randrange(count), rng.randrange(count), rng.choice([1.0, -2.5])] for _ in range(rng.choice([0, 0, 1, 2]))],
            'combo': rng.random() < 0.5, 'zero': [rng.randrange(count)] if rng.random() < 0.2 else [],
            'rcond': rng.choice([None, None, 1e-10])}


def gen_flat(rng, seed):
    spec = gen_spec(rng, seed, herm=rng.random() < 0.5, nmax=30)
    if rng.random() < 0.6:
        return {'kind': 'flat', 'mode': 'array', 'spec': spec, 'charge_sector': rng.choice(['block', 'block', 0, None]),
                'compact_flat': rng.choice([None, None, True, False]), 'unlabelled': rng.random() < 0.5}
    spec = gen_spec(rng, seed, herm=True, nmax=8)
    spec2 = gen_spec(rng, seed + 1, herm=True, nmax=6)
    spec2['leg'] = G.random_leg_spec(rng, rng.choice([1, 2, 3, 4, 5]))
    # both legs need the same ChargeInfo
    spec2['leg']['mods'] = spec['leg']['mods']
    spec2['leg']['charges'] = [[rng.randint(-1, 1) if mm == 1 else rng.randrange(mm) for mm in spec['leg']['mods']]
                               for _ in spec2['leg']['sizes']]
    spec2['sector'] = rng.randrange(len(spec2['leg']['sizes']))
    spec['start'] = spec2['start'] = 'random'
    return {'kind': 'flat', 'mode': 'pipe', 'spec': spec, 'spec2': spec2, 'compact_flat': rng.random() < 0.6,
            'labels_split': rng.choice([None, ['a', 'b'], ['b', 'a']]), 'herm_cls': rng.random() < 0.5}


def gen_argsort(rng):
    n = rng.choice([1, 2, 3, 5, 8, 12, 20])
    style = rng.random()
    lim = 3 if style < 0.4 else 50
    z = [[rng.randint(-lim, lim), rng.randint(-lim, lim)] for _ in range(n)]
    real = rng.random() < 0.3
    if real:
        z = [[a, 0] for a, b in z]
    w = rng.randrange(6)
    return {'kind': 'argsort', 'z': z, 'which': rng.choice(ALIASES[WHICH[w]]), 'wcode': w, 'real': real}


# ------------------------------------------------------------------------------ dense reference
def dense_effective(case, with_E_shift=True):
    """dense matrix of the operator the solver works with (documentation of the wrappers), restricted to the
    charge sector of the start vector; returns (Meff_sector, I, v0_sector, s)."""
    spec = case['spec']
    M = G.dense_operator(spec)
    I = G.sector_indices(spec['leg'], spec['sector'])
    v0 = G.dec(case['v0']) if 'v0' in case else G.start_vector(spec, M)
    s = case['opts'].get('E_shift') or 0.0
    if not with_E_shift:
        s = 0.0
    wrap = case.get('wrap')
    n = M.shape[0]
    if wrap == 'shift':
        Mb = M + case['wrap_shift'] * np.eye(n)
    elif wrap == 'sum':
        Mb = M + G.dense_operator(dict(spec, seed=spec['seed'] + 5))
    else:
        Mb = M
    if wrap == 'ortho':
        ovs = G.extra_vectors(spec, M, case['n_ortho'], tag=2)
        if case.get('ortho_dependent') and len(ovs) > 1:
            ovs[1] = 2.0 * ovs[0]
        O = np.array(ovs).T
        U, sv, _ = np.linalg.svd(O, full_matrices=False)
        U = U[:, sv > 1e-10 * max(1.0, sv[0])]
        P = np.eye(n) - U @ U.conj().T
        Meff = P @ (M + s * np.eye(n)) @ P       # E_shift is applied to the wrapped operator: P (H + s) P
    else:
        Meff = Mb + s * np.eye(n)
    return Meff[np.ix_(I, I)], I, v0[I], s


def krylov_dim(Ms, v0, nmax):
    """dimension of the exact Krylov space span{v0, M v0, ...} (dense Arnoldi, orthogonalised twice, relative
    breakdown threshold): an implementation run with more iterations than this went on with rounding noise."""
    m = Ms.shape[0]
    if m == 0 or np.linalg.norm(v0) == 0:
        return 0, []
    scale = max(1e-300, np.linalg.norm(Ms, 2))
    V = [v0 / np.linalg.norm(v0)]
    ratios = []
    for k in range(min(m, nmax)):
        w = Ms @ V[-1]
        for _ in range(2):
            for v in V:
                w = w - np.vdot(v, w) * v
        nw = np.linalg.norm(w)
        if nw < 1e-9 * scale or len(V) == m:
            return len(V), ratios
        ratios.append(nw / scale)
        V.append(w / nw)
    return len(V), ratios


def cond_tol(scale, ratios, N):
    """tolerance for Ritz data: orthogonality of a Krylov basis is lost like eps / (smallest relative norm of a new vector)"""
    c = 1.0
    for r in ratios[:max(0, N - 1)]:
        c *= min(1.0, 10 * r)          # errors are amplified by every small new vector (single-pass Gram-Schmidt)
    return scale * min(1e-3, max(1e-8, 1e-13 / max(c, 1e-300)))


def wkey(which, z):
    return {'LM': -abs(z), 'SM': abs(z), 'LR': -z.real, 'SR': z.real, 'LI': -z.imag, 'SI': z.imag}[which]


# ------------------------------------------------------------------------------ oracles
def oracle_lanczos(ctx, case, r):
    spec = case['spec']
    probs, known = [], []
    Ms, I, v0s, s = dense_effective(case)
    m = len(I)
    scale = max(1.0, np.linalg.norm(Ms, 2)) if m else 1.0
    opts = case['opts']
    pl = r['plain']
    n = sum(spec['leg']['sizes'])
    psi = G.dec(pl['psi'])
    N = pl['N']
    outside = np.delete(psi, I)
    if np.linalg.norm(outside) > 0 or not pl['qtotal_ok']:
        probs.append('result leaves the charge sector of the start vector')
    x = psi[I]
    cutoff = opts.get('cutoff') or (np.finfo(float).eps * 100)
    early = N >= 1 and abs(pl['beta'][N - 1]) < cutoff
    if N > opts['N_max'] or (N < opts['N_min'] and not early):
        probs.append('N=%d outside [N_min=%d, N_max=%d] without cutoff exit' % (N, opts['N_min'], opts['N_max']))
    dK, ratios = krylov_dim(Ms, v0s, opts['N_max'] + 1)
    well = N <= dK       # beyond the exact Krylov dimension only rounding noise is added (N_min forces it, or the cutoff missed it)
    tol = cond_tol(scale, ratios, N)
    if case.get('evo') is None:
        E_run = pl['E'] + s
        if abs(np.linalg.norm(x) - 1.0) > 1e-10:
            probs.append('returned vector not normalised: |psi| = %.15g' % np.linalg.norm(x))
        if well:
            rq = (x.conj() @ Ms @ x).real / max(1e-300, (x.conj() @ x).real)
            if abs(rq - E_run) > tol:
                probs.append('returned E0 (+E_shift) = %.12g is not the Rayleigh quotient %.12g of the returned vector' % (E_run, rq))
            lam = np.linalg.eigvalsh(Ms)
            if E_run < lam[0] - tol:
                probs.append('E0 %.12g below the smallest eigenvalue %.12g' % (E_run, lam[0]))
            if N == m and dK == m and abs(E_run - lam[0]) > 10 * tol:
                probs.append('Krylov dimension = space dimension %d but E0 %.12g != lambda_min %.12g' % (m, E_run, lam[0]))
            if N == m and dK == m and np.linalg.norm(Ms @ x - E_run * x) > max(1e-5 * scale, 100 * tol):
                probs.append('Krylov dimension = space dimension but the returned vector is not an eigenvector')
        # first Lanczos coefficient is the Rayleigh quotient of the start vector
        a0 = (v0s.conj() @ Ms @ v0s).real / (v0s.conj() @ v0s).real
        if abs(pl['alpha'][0] - a0) > tol:
            probs.append('h[0,0] = %.12g is not <psi0|H|psi0> = %.12g' % (pl['alpha'][0], a0))
        if 'twice' in r:
            t0, t1 = r['twice']
            if abs(t0['E'] - t1['E']) > 1e-9 * scale or t0['N'] != t1['N'] or abs(t0['E'] - pl['E']) > 1e-9 * scale:
                msg = ('second LanczosGroundState on the same operator object returns E0=%.12g, the first %.12g (options E_shift=%s)'
                       % (t1['E'], t0['E'], opts.get('E_shift')))
                if case.get('wrap') == 'ortho' and opts.get('E_shift') is not None and abs(t0['E'] - pl['E']) <= 1e-9 * scale:
                    known.append(msg)
                else:
                    probs.append(msg)
    else:
        evo = case['evo']
        delta = complex(*evo['delta'])
        exact = scipy.linalg.expm(delta * Ms) @ v0s
        normalize = evo['normalize'] if evo['normalize'] is not None else (delta.real == 0.0)
        ref = exact / np.linalg.norm(exact) if normalize else exact
        nrm = np.linalg.norm(x)
        if normalize and abs(nrm - 1.0) > 1e-10:
            probs.append('normalize: |psi| = %.15g' % nrm)
        if delta.real == 0.0 and not normalize and abs(nrm - np.linalg.norm(v0s)) > 1e-9 * np.linalg.norm(v0s):
            probs.append('anti-Hermitian exponent: norm %.15g != norm of start vector %.15g' % (nrm, np.linalg.norm(v0s)))
        accurate = well and (N < opts['N_max'] or N >= dK)
        etol = max(1e-7, 10 * tol / scale)
        if accurate and np.linalg.norm(x - ref) > etol * max(1.0, np.linalg.norm(ref)):
            probs.append('exp(delta H) psi0: deviation %.3e from scipy expm (N=%d, dim=%d)' % (np.linalg.norm(x - ref), N, m))
        if 'rerun' in pl:
            d2 = complex(*case['rerun'])
            ex2 = scipy.linalg.expm(d2 * Ms) @ v0s
            n2 = evo['normalize'] if evo['normalize'] is not None else (d2.real == 0.0)
            ref2 = ex2 / np.linalg.norm(ex2) if n2 else ex2
            x2 = G.dec(pl['rerun']['psi'])[I]
            N2 = pl['rerun']['N']
            if (N2 < opts['N_max'] or N2 >= dK) and well and N2 <= dK and np.linalg.norm(x2 - ref2) > etol * max(1.0, np.linalg.norm(ref2)):
                msg = 'second run() of the same LanczosEvolution: deviation %.3e from expm (N=%d)' % (np.linalg.norm(x2 - ref2), N2)
                nc_ = opts.get('N_cache') or opts['N_max']
                if opts.get('reortho') and N > nc_ + 1:
                    known.append('RERUN ' + msg)     # stale vectors of the rebuild phase stay in _cache and are used for reortho
                else:
                    probs.append(msg)
    # independence of N_cache
    if 'allcache' in r and well:
        ac = r['allcache']
        pa = G.dec(ac['psi'])
        if case.get('evo') is None and opts.get('reortho'):
            # re-orthogonalisation uses the cached vectors: h differs by rounding, the eigenvector by a phase
            ov = np.vdot(pa, psi)
            if abs(ov) > 0:
                pa = pa * (ov / abs(ov))
        if opts.get('reortho'):
            # by design the re-orthogonalisation uses what is in the cache: only the Ritz value is compared, loosely
            dep = abs(ac['E'] - pl['E']) > max(1e-6 * scale, 100 * tol) and ac['N'] == N
        else:
            dep = ac['N'] != N or abs(ac['E'] - pl['E']) > 1e-9 * scale or np.linalg.norm(pa - psi) > 1e-9 * max(1.0, np.linalg.norm(psi))
        if dep:
            probs.append('result depends on N_cache=%s: E %.12g vs %.12g, |dpsi| = %.3e, N %d vs %d' % (
                opts.get('N_cache'), pl['E'], ac['E'], np.linalg.norm(pa - psi), N, ac['N']))
    return probs, known, {'N': N, 'm': m, 'well': well, 'early': early}


def oracle_arnoldi(ctx, case, r):
    probs = []
    Ms, I, v0s, s = dense_effective(case)
    m = len(I)
    scale = max(1.0, np.linalg.norm(Ms, 2))
    if case.get('evo') is not None:
        evo = case['evo']
        for d, run in zip(evo['deltas'], r['runs']):
            delta = complex(*d)
            exact = scipy.linalg.expm(delta * Ms) @ v0s
            normalize = bool(evo['normalize'])
            ref = exact / np.linalg.norm(exact) if normalize else exact
            x = G.dec(run['psi'])[I]
            N = run['N']
            dK, ratios = krylov_dim(Ms, v0s, case['opts']['N_max'] + 1)
            etol = max(1e-7, 10 * cond_tol(scale, ratios, N) / scale)
            if N <= dK and (N < case['opts']['N_max'] or N >= dK) and np.linalg.norm(x - ref) > etol * max(1.0, np.linalg.norm(ref)):
                probs.append('ArnoldiEvolution delta=%s: deviation %.3e from expm (N=%d, dim=%d)' % (d, np.linalg.norm(x - ref), N, m))
            if normalize and abs(np.linalg.norm(x) - 1) > 1e-10:
                probs.append('ArnoldiEvolution normalize: norm %.15g' % np.linalg.norm(x))
            if delta.real == 0 and case['spec']['herm'] and not normalize and N <= dK and \
                    abs(np.linalg.norm(x) - np.linalg.norm(v0s)) > 1e-9 * np.linalg.norm(v0s):
                probs.append('ArnoldiEvolution anti-Hermitian exponent: norm not preserved')
        return probs, {'m': m}
    which = case['which']
    Es = G.dec(r['Es'])
    N = r['N']
    dK, ratios = krylov_dim(Ms, v0s, case['opts']['N_max'] + 1)
    tol = cond_tol(scale, ratios, N)
    k = min(N, case['opts']['num_ev'])
    if len(r['psis']) != k:
        probs.append('%d vectors for min(N, num_ev) = %d' % (len(r['psis']), k))
    E_run = Es[:k] + s
    keys = [wkey(which, z) for z in E_run]
    if any(keys[i] > keys[i + 1] + 1e-12 * scale for i in range(len(keys) - 1)):
        probs.append('Ritz values %s not ordered as which=%s requests' % (list(E_run), case['opts']['which']))
    if N <= dK:
        for i, pv in enumerate(r['psis'][:k]):
            x = G.dec(pv)[I]
            if abs(np.linalg.norm(x) - 1) > 1e-9:
                probs.append('Ritz vector %d not normalised' % i)
            rq = x.conj() @ Ms @ x
            if abs(rq - E_run[i]) > 10 * tol:
                probs.append('Ritz value %d = %s is not the Rayleigh quotient %s of its vector' % (i, E_run[i], rq))
        if N == m and dK == m:
            ev = np.linalg.eigvals(Ms)
            ev = sorted(ev, key=lambda z: wkey(which, z))
            for i in range(k):
                if abs(wkey(which, ev[i]) - keys[i]) > max(1e-5 * scale, 1000 * tol):
                    probs.append('full Krylov dimension: %d-th requested eigenvalue %s, got %s' % (i, ev[i], E_run[i]))
                    break
    return probs, {'m': m, 'N': N}


def oracle_gmres(ctx, case, r):
    spec = case['spec']
    M = G.dense_operator(spec)
    n = M.shape[0]
    A = M + case['diag_shift'] * np.eye(n)
    b = G.start_vector(spec, A)
    x = G.dec(r['x'])
    true = np.linalg.norm(A @ x - b) / np.linalg.norm(b)
    probs, known = [], []
    if abs(true - r['res']) > 1e-10 * max(1.0, true):
        probs.append('reported residual %.6e, actual |Ax-b|/|b| = %.6e' % (r['res'], true))
    I = G.sector_indices(spec['leg'], spec['sector'])
    if np.linalg.norm(np.delete(x, I)) > 1e-12:
        probs.append('solution leaves the charge sector of b')
    # the error history: the estimate on which the solver decided, vs the actual residual of the returned x
    te = r['total_error']
    x0 = G.extra_vectors(spec, M, 1, tag=3)[0] * case['x0_scale']
    dK, _ = krylov_dim(A[np.ix_(I, I)], (b - A @ x0)[I], 100)
    if len(r['iters']) == 1 and r['iters'][0] <= dK:      # beyond the exhausted Krylov space (N_min forces it) only noise is added
        est = te[0][-1]
        if abs(est - true) > 1e-8 + 1e-6 * true:
            msg = 'last residual estimate in total_error %.6e, actual residual %.6e' % (est, true)
            if spec['cplx']:
                known.append(msg)
            else:
                probs.append(msg)
    return probs, known, {'true': true}


def oracle_gs(ctx, case, r):
    probs = []
    spec = case['spec']
    I = G.sector_indices(spec['leg'], spec['sector'])
    V = np.array([G.dec(v)[I] for v in r['inputs']]).T if r['inputs'] else np.zeros((len(I), 0))
    Q = np.array([G.dec(v)[I] for v in r['out']]).T if r['out'] else np.zeros((len(I), 0))
    k = Q.shape[1]
    if k and np.linalg.norm(Q.conj().T @ Q - np.eye(k)) > 1e-8:
        probs.append('returned set not orthonormal: |Q^dagger Q - 1| = %.3e' % np.linalg.norm(Q.conj().T @ Q - np.eye(k)))
    sv = np.linalg.svd(V, compute_uv=False) if V.size else np.array([])
    rank_hi = int(np.sum(sv > 1e-6 * max(1.0, sv[0]))) if len(sv) else 0
    if k < rank_hi:
        probs.append('%d vectors returned, numerical rank of the input is %d' % (k, rank_hi))
    if k > min(V.shape):
        probs.append('more vectors than the dimension allows')
    # span(Q) inside span(V)
    if k and V.size:
        Uv, svv, _ = np.linalg.svd(V, full_matrices=False)
        Uv = Uv[:, svv > 1e-13 * max(1.0, svv[0])]
        resid = np.linalg.norm(Q - Uv @ (Uv.conj().T @ Q))
        if resid > 1e-6 and k <= rank_hi:
            probs.append('returned vectors leave the span of the input (%.3e)' % resid)
    if not r['inplace']:
        probs.append('result vectors are not the (modified) input objects')
    return probs, {'k': k, 'rank': rank_hi}


def oracle_flat(ctx, case, r):
    probs = []
    spec = case['spec']
    M = G.dense_operator(spec)
    if case['mode'] == 'array':
        fc = G.flat_charges(spec['leg'])
        cs = case['charge_sector']
        mods = spec['leg']['mods']
        if cs is None:
            I = list(range(len(fc)))
        elif cs == 0:
            I = [i for i, c in enumerate(fc) if all((v % mm == 0) if mm > 1 else v == 0 for v, mm in zip(c, mods))]
        else:
            I = G.sector_indices(spec['leg'], spec['sector'])
        qsec = tuple(spec['leg']['charges'][spec['sector']])
        nonzero_sector = cs == 'block' and any((v % mm != 0) if mm > 1 else v != 0 for v, mm in zip(qsec, mods))
        self_conj = all((2 * v) % mm == 0 if mm > 1 else v == 0 for v, mm in zip(qsec, mods))
        # known: a leg with qconj=-1 and a sector q != -q: the non-compact code path compares raw leg charges with the vector qtotal
        k_qconj = spec['leg']['qconj'] == -1 and nonzero_sector and not self_conj
        k_label = cs is None and not case.get('unlabelled')
        info = {'dim': len(I)}
        if 'valueerror' in r:
            if case.get('compact_flat') is True and (not r['blocked'] or cs is None):
                return [], [], {'rejected': True}
            if not I:
                return [], [], {'rejected': True}      # the requested sector does not exist on this leg
            if k_qconj:
                return [], ['qconj'], info
            return ['FlatLinearOperator.from_NpcArray raised ValueError: ' + r['valueerror']], [], info
        if 'matvec_error' in r:
            if cs is None and not r['blocked'] and r['matvec_error'].startswith('ValueError'):
                return [], [], {'rejected': True}      # all-sector vectors need a sorted, blocked leg (pipes of tenpy are)
            if k_label and 'Label not found: None' in r['matvec_error']:
                return [], ['label'], info
            if k_qconj and not r['compact']:
                return [], ['qconj'], info
            return ['FlatLinearOperator.matvec raised ' + r['matvec_error']], [], info
        if r['mask_idx'] != I or r['shape'] != len(I):
            if k_qconj and not r['compact']:
                return [], ['qconj'], info
            probs.append('flat indices %s, charge sector has %s' % (r['mask_idx'], I))
            return probs, [], info
        x, y, back, full = G.dec(r['x']), G.dec(r['y']), G.dec(r['back']), G.dec(r['full'])
        if np.linalg.norm(back - x) > 0:
            probs.append('npc_to_flat(flat_to_npc(x)) != x')
        emb = np.zeros(len(fc), dtype=complex)
        emb[I] = x
        if np.linalg.norm(full - emb) > 0:
            probs.append('flat_to_npc(x) is not x embedded at the indices of the charge sector')
        if len(I) and np.linalg.norm(y - M[np.ix_(I, I)] @ x) > 1e-10 * max(1.0, np.linalg.norm(y)):
            probs.append('matvec on flat vectors differs from the dense block')
        return probs, [], {'dim': len(I)}
    M2 = G.dense_operator(case['spec2'])
    X, Y, guess, gb = G.dec(r['x_full']), G.dec(r['y_full']), G.dec(r['guess']), G.dec(r['guess_back'])
    if np.linalg.norm(G.dec(r['back']) - G.dec(r['x'])) > 0:
        probs.append('pipe: npc_to_flat(flat_to_npc(x)) != x')
    if np.linalg.norm(gb - guess) > 1e-14 * max(1.0, np.linalg.norm(guess)):
        probs.append('pipe: guess_flat does not map back to the guess')
    ref = M @ X + X @ M2.T
    if np.linalg.norm(Y - ref) > 1e-10 * max(1.0, np.linalg.norm(ref)):
        probs.append('pipe: matvec differs from the dense operator')
    # x must live in the charge sector of the guess only
    nz = np.abs(X) > 0
    fa, fb = G.flat_charges(spec['leg']), G.flat_charges(case['spec2']['leg'])
    qa = tuple(spec['leg']['charges'][spec['sector']])
    qb = tuple(case['spec2']['leg']['charges'][case['spec2']['sector']])
    mods = spec['leg']['mods']
    ja, jb = spec['leg']['qconj'], case['spec2']['leg']['qconj']

    def tot(a, b):
        return tuple(((ja * u + jb * v) % mm) if mm > 1 else (ja * u + jb * v) for u, v, mm in zip(a, b, mods))
    want = tot(qa, qb)
    cnt = sum(1 for a in fa for b in fb if tot(a, b) == want)
    if case['compact_flat'] and r['shape'] != cnt:
        probs.append('pipe compact: flat dimension %d, sector dimension %d' % (r['shape'], cnt))
    for i, a in enumerate(fa):
        for j, b in enumerate(fb):
            if nz[i, j] and tot(a, b) != want:
                probs.append('pipe: flat_to_npc puts weight outside the sector of the guess')
                return probs, [], {}
    return probs, [], {'dim': r['shape']}


# ------------------------------------------------------------------------------ main
def run_chunks(ctx, cases):
    np_ = common.NPROC
    chunks = [cases[i::np_] for i in range(np_)]
    chunks = [c for c in chunks if c]
    res = common.run_impl_parallel('c16_impl.py', [{'cases': ch} for ch in chunks])
    results = [None] * len(cases)
    for i, (r, err) in enumerate(res):
        if err:
            ctx.fail('correspondence', 'implementation runner failed: ' + err[-600:], None)
            continue
        for j, x in enumerate(r):
            results[i + j * np_] = x
    return results


def main(ctx):
    rng = ctx.rng
    ctx.proof = common.check_proofs('C16')
    mult = 1 if ctx.proof.ok else 3
    base = ctx.seed * 1000000
    cases = []
    n_l = ctx.pick(260, 2600) * mult
    cases += [gen_lanczos(rng, base + i) for i in range(n_l)]
    cases += [gen_lanczos(rng, base + 100000 + i, evo=True) for i in range(ctx.pick(140, 1400) * mult)]
    cases += [gen_arnoldi(rng, base + 200000 + i) for i in range(ctx.pick(120, 1200) * mult)]
    cases += [gen_arnoldi(rng, base + 300000 + i, evo=True) for i in range(ctx.pick(50, 500) * mult)]
    cases += [gen_gmres(rng, base + 400000 + i) for i in range(ctx.pick(60, 600) * mult)]
    cases += [gen_gs(rng, base + 500000 + i) for i in range(ctx.pick(80, 800) * mult)]
    cases += [gen_flat(rng, base + 600000 + i) for i in range(ctx.pick(100, 1000) * mult)]
    cases += [gen_argsort(rng) for i in range(ctx.pick(300, 3000) * mult)]
    for c in common.corpus_cases('C16'):
        cases.append(c['case'])
    for c in cases:
        # eigenvector-based start vectors are not reproducible across processes (degenerate spectra): fix them here
        if c['kind'] in ('lanczos', 'arnoldi') and 'v0' not in c:
            c['v0'] = G.enc(G.start_vector(c['spec'], G.dense_operator(c['spec'])))
    results = run_chunks(ctx, cases)
    coq_l, coq_l_idx, coq_a, coq_a_idx = [], [], [], []
    coq_h, coq_h_idx = [], []
    hist = {'rebuild_path': 0, 'early_exit': 0, 'full_dim': 0, 'N1': 0, 'reortho': 0, 'E_shift': 0, 'ortho': 0, 'beyond_dim': 0, 'h_reads_converged': 0}
    for idx, (case, r) in enumerate(zip(cases, results)):
        kind = case['kind']
        stream = kind + ('-evo' if case.get('evo') else '')
        if r is None:
            continue
        if 'runner_error' in r:
            ctx.fail('correspondence', '%s runner failed: %s' % (kind, r['runner_error'][-500:]), {'stream': stream, 'case': case})
            continue
        if 'error' in r:
            ctx.fail('oracle', '%s raised %s' % (kind, r['error']), {'stream': stream, 'case': case, 'tb': r.get('tb')},
                     match_key='C16:%s-raises' % stream)
            continue
        if kind == 'lanczos':
            probs, known, info = oracle_lanczos(ctx, case, r)
            tr, pl = r['traced'], r['plain']
            if tr['N'] != pl['N'] or abs(tr['E'] - pl['E']) > 1e-12 * max(1, abs(pl['E'])) or \
                    np.linalg.norm(G.dec(tr['psi']) - G.dec(pl['psi'])) > 1e-12 * max(1.0, np.linalg.norm(G.dec(pl['psi']))):
                ctx.fail('correspondence', 'instrumented run differs from the plain run', {'stream': stream, 'case': case})
            if tr['trace_problems']:
                ctx.fail('correspondence', 'cache trace: ' + '; '.join(tr['trace_problems'][:3]), {'stream': stream, 'case': case})
            nc = case['opts'].get('N_cache') or case['opts']['N_max']
            N = tr['N']
            rebuild = N > nc + 1
            hist['rebuild_path'] += rebuild
            hist['early_exit'] += info['early']
            hist['full_dim'] += (N == info['m'])
            hist['beyond_dim'] += (not info['well'])
            hist['N1'] += (N == 1)
            hist['reortho'] += bool(case['opts'].get('reortho'))
            hist['E_shift'] += case['opts'].get('E_shift') is not None
            hist['ortho'] += case.get('wrap') == 'ortho'
            ctx.count(stream, [case['spec']['seed'], case['opts'], case.get('wrap'), case.get('evo')], nontrivial=N > 1,
                      sample={'opts': case['opts'], 'wrap': case.get('wrap'), 'dim_sector': info['m'], 'N': N, 'E': pl['E']})
            if probs:
                key = 'C16:lanczos' + ('-evo' if case.get('evo') else '')
                ctx.fail('oracle', '; '.join(probs[:4]), {'stream': stream, 'case': case,
                                                          'impl': {'E': pl['E'], 'N': pl['N']}}, match_key=key)
            for kn in known:
                if kn.startswith('RERUN '):
                    ctx.fail('oracle', kn[6:], {'stream': stream, 'case': case},
                             match_key='C16:LanczosEvolution.run:second-run:stale-cache-after-rebuild+reortho')
                else:
                    ctx.fail('oracle', kn, {'stream': stream, 'case': case},
                             match_key='C16:KrylovBased.__init__:E_shift-mutates-OrthogonalNpcLinearOperator')
            evs = [tuple(Nat(v) for v in e) for e in tr['events']]
            terms = [tuple(Nat(v) for v in t) for t in tr['terms']]
            coq_l.append(coq_lit(((Nat(nc), bool(case['opts'].get('reortho')), Nat(N), evs, terms))))
            coq_l_idx.append(idx)
            # accesses to the tridiagonal matrix h interleaved with the other events (Model/Krylov2.v)
            hevs = [tuple(Nat(v) for v in e) for e in tr['hevents']]
            coq_h.append(coq_lit((Nat(nc), bool(case['opts'].get('reortho')), Nat(N), [bool(b) for b in tr['cv']], hevs)))
            coq_h_idx.append(idx)
            hist['h_reads_converged'] += sum(tr['cv'])
        elif kind == 'arnoldi':
            probs, info = oracle_arnoldi(ctx, case, r)
            ctx.count(stream, [case['spec']['seed'], case['opts'], case.get('evo')], nontrivial=info['m'] > 1,
                      sample={'opts': case['opts'], 'dim_sector': info['m']})
            if probs:
                ctx.fail('oracle', '; '.join(probs[:4]), {'stream': stream, 'case': case}, match_key='C16:' + stream)
        elif kind == 'gmres':
            probs, known, info = oracle_gmres(ctx, case, r)
            ctx.count(stream, [case['spec']['seed'], case['opts']], nontrivial=True, sample={'opts': case['opts'], 'res': r['res']})
            if probs:
                ctx.fail('oracle', 'GMRES: ' + '; '.join(probs[:4]), {'stream': stream, 'case': case}, match_key='C16:gmres')
            if known:
                ctx.fail('oracle', 'GMRES (complex operator): ' + known[0], {'stream': stream, 'case': case},
                         match_key='C16:GMRES:complex-operator:residual-estimate')
        elif kind == 'gs':
            probs, info = oracle_gs(ctx, case, r)
            ctx.count(stream, [case['spec']['seed'], case['count'], case['dependent']], nontrivial=info['k'] > 1,
                      sample={'count': case['count'], 'returned': info['k'], 'rank': info['rank']})
            if probs:
                ctx.fail('oracle', 'gram_schmidt: ' + '; '.join(probs[:4]), {'stream': stream, 'case': case}, match_key='C16:gram_schmidt')
        elif kind == 'flat':
            probs, known, info = oracle_flat(ctx, case, r)
            if 'qconj' in known:
                ctx.fail('oracle', 'FlatLinearOperator on a leg with qconj=-1, non-compact flat vectors, charge sector q != -q: the mask '
                         'compares raw leg charges with the qtotal of the vector (ValueError / empty sector)', {'stream': stream, 'case': case},
                         match_key='C16:FlatLinearOperator:qconj=-1-leg:noncompact:nonzero-charge_sector')
            if 'label' in known:
                ctx.fail('oracle', 'FlatLinearOperator.from_NpcArray(labelled matrix, charge_sector=None).matvec raises KeyError (vec_label None)',
                         {'stream': stream, 'case': case}, match_key='C16:FlatLinearOperator.from_NpcArray:charge_sector=None:labelled-matrix-KeyError')
            ctx.count(stream, [case['spec']['seed'], case['mode'], case.get('charge_sector'), case.get('compact_flat')],
                      nontrivial=info.get('dim', 0) > 1, sample={'mode': case['mode'], 'dim': info.get('dim')})
            if probs:
                ctx.fail('oracle', 'FlatLinearOperator: ' + '; '.join(probs[:4]), {'stream': stream, 'case': case}, match_key='C16:flat')
        elif kind == 'argsort':
            ctx.count(stream, [case['z'], case['which']], nontrivial=len(case['z']) > 1)
            # oracle (independent of the model): keys along the permutation are monotone
            z = [complex(a, b) for a, b in case['z']]
            ks = [wkey(WHICH[case['wcode']], z[i]) for i in r['p']]
            if sorted(r['p']) != list(range(len(z))) or any(ks[i] > ks[i + 1] for i in range(len(ks) - 1)):
                ctx.fail('oracle', 'argsort(%s) does not order as documented' % case['which'], {'stream': stream, 'case': case},
                         match_key='C16:argsort')
            coq_a.append(coq_lit((Nat(case['wcode']), [tuple(v) for v in case['z']], [Nat(i) for i in r['p']])))
            coq_a_idx.append(idx)
    # ---- model <-> implementation inside Coq
    bad, err = common.coq_failing_indices('cases_c16_l', ['Base.Prelude', 'Model.Krylov'], 'check_lanczos', coq_l, shard=60)
    if err:
        ctx.fail('correspondence', 'model evaluation failed: ' + err[-600:], None)
    for b in bad[:5]:
        case = cases[coq_l_idx[b]]
        ctx.fail('correspondence', 'Model/Krylov.v and the instrumented Lanczos run disagree (cache / coefficient bookkeeping)',
                 {'stream': 'lanczos-trace', 'case': case, 'impl_terms': results[coq_l_idx[b]]['traced']['terms'],
                  'N': results[coq_l_idx[b]]['traced']['N']})
    badh, err = common.coq_failing_indices('cases_c16_h', ['Base.Prelude', 'Model.Krylov', 'Model.Krylov2'], 'check_hevents', coq_h, shard=60)
    if err:
        ctx.fail('correspondence', 'model evaluation failed: ' + err[-600:], None)
    for b in badh[:5]:
        case = cases[coq_h_idx[b]]
        ctx.fail('correspondence', 'Model/Krylov2.v and the instrumented Lanczos run disagree (program order of the accesses to _h_krylov)',
                 {'stream': 'lanczos-h-trace', 'case': case, 'N': results[coq_h_idx[b]]['traced']['N'],
                  'cv': results[coq_h_idx[b]]['traced']['cv']})
    bad2, err = common.coq_failing_indices('cases_c16_a', ['Base.Prelude', 'Model.Krylov'], 'check_argsort', coq_a)
    if err:
        ctx.fail('correspondence', 'model evaluation failed: ' + err[-600:], None)
    for b in bad2[:5]:
        ctx.fail('correspondence', 'Model/Krylov.v argsort_model and tools.misc.argsort disagree', {'stream': 'argsort', 'case': cases[coq_a_idx[b]]})
    ctx.cov['traces_validated_against_impl'] = len(coq_l) + len(coq_h) + len(coq_a)
    ctx.cov['input_distribution'] = hist
    ctx.assumptions += [
        'C16 model: Krylov vectors are abstract indices; the float kernel (inner products, norms, eig of the projected matrix, exit '
        'conditions) is not modelled: the number of iterations N is taken from the run; spectral clauses are oracle-only',
        'C16 oracle tolerances: 1e-8*|H| for Rayleigh quotient / lower bound, 1e-7 for expm; results with N > dim(sector) '
        '(option N_min forces iterations beyond the exhausted Krylov space) are only checked for the bookkeeping',
    ]
    return ctx.finish(RULE, 'theorems of coq/Props/C16.v about the cache / coefficient bookkeeping for all N, N_cache; the model is tied to '
                      'krylov_based.py by comparing the event trace of every instrumented Lanczos run (vm_compute); spectral clauses by dense oracle')


RULE = ('block-sparse operators of dimension 1-60 (no charge, U(1), Z2, Z3, U(1)xZ2; sorted/unsorted/duplicate-charge legs), Hermitian '
        '(random, degenerate extremal eigenvalues, low rank, integer, clustered spectra) and general; start vectors random / in an '
        'invariant subspace / unit vectors / rescaled; options N_min, N_max, N_cache (2..>N_max), reortho, E_shift, cutoff, P_tol, E_tol; '
        'wrappers Shift/Sum/Orthogonal; exponents real/imaginary/complex.  A Lanczos case is non-trivial when N > 1; distinct = '
        'distinct (operator seed, options, wrapper).')
